#!/bin/bash
# MANIFEST.setup_cmd -- installs the runtime-contract libraries beside the
# repository's interpreter, from the offline wheelhouse only.
set -u
cd "$(dirname "$0")"
DEPS=.deps
if [ -f "$DEPS/.ok" ]; then exit 0; fi
rm -rf "$DEPS"; mkdir -p "$DEPS"
if PIP_NO_INDEX=1 /venv/bin/pip install --quiet --no-index \
      --find-links /opt/veriftools/wheels --target "$DEPS" icontract deal \
      >"$DEPS/pip.log" 2>&1; then
  touch "$DEPS/.ok"
  echo "setup: icontract+deal installed into $DEPS"
else
  # vt/monitor.py has an equivalent built-in ensure/require; the evidence
  # records which implementation evaluated the contracts.
  echo "setup: wheel install failed (see $DEPS/pip.log); using built-in contracts" >&2
  touch "$DEPS/.fallback"
fi
exit 0
