#!/usr/bin/env python3
"""Regenerates MANIFEST.json from the property modules present under vt/props."""
import json, os, importlib, sys
HERE = os.path.dirname(os.path.dirname(os.path.abspath(__file__)))
sys.path.insert(0, HERE)
META = {}
for fn in sorted(os.listdir(os.path.join(HERE, "tools", "meta"))):
    if fn.endswith(".json"):
        META[fn[:-5]] = json.load(open(os.path.join(HERE, "tools", "meta", fn)))
props = [json.loads(l) for l in open(os.path.join(HERE, "properties.jsonl"))]
checks, na = [], []
for p in props:
    pid = p["id"]
    m = META.get(pid)
    if m and os.path.exists(os.path.join(HERE, "vt", "props", pid + ".py")) and not m.get("not_applicable"):
        checks.append({
            "property_id": pid,
            "quick_cmd": "./check %s --tier quick" % pid,
            "thorough_cmd": "./check %s --tier thorough" % pid,
            "evidence_file": "evidence/%s.json" % pid,
            "replay_cmd_template": "./check %s --replay {path}" % pid,
            "engine": "vt",
            "level_claimed": {"category": "exploration", "text": m["level_text"], "design_ref": "DESIGN.md section 4, " + pid},
            "level_note": m["level_note"],
            "technique": m["technique"],
        })
    else:
        na.append({"property_id": pid, "reason": (m or {}).get("not_applicable", "check not built yet (work in progress; the design in DESIGN.md section 4 covers it)")})
man = {
    "version": 1,
    "setup_cmd": "./setup.sh",
    "hooks": {
        "guard": "UMRLASTIG_TRACKLIB_VERIF",
        "enable": "no in-source hooks: ./check exports UMRLASTIG_TRACKLIB_VERIF=1 and the workers wrap the real tracklib functions (imported from /repo's working tree via PYTHONPATH) with runtime contracts and monitors at import time",
        "baseline_off_cmd": "cd /repo && /venv/bin/python -m pytest -ra -q -p no:cacheprovider --timeout=900 --continue-on-collection-errors",
        "source_commits": [],
        "add_only": True,
    },
    "engines": [{"name": "vt", "path": "vt/", "serves_properties": [c["property_id"] for c in checks],
                 "kind_free_text": "runtime monitoring: generated/enumerated hostile workloads drive the real tracklib code in worker subprocesses while runtime contracts (icontract), reference-model comparison, conservation snapshots and offline result checkers observe every execution"}],
    "checks": checks,
    "not_applicable": na,
    "notes": "All verdicts are of the form 'held on the K executions observed'. Exit 0 held, 1 violated (VIOLATION line + replay file), 2 inconclusive (a monitor never evaluated, a coverage floor missed, a worker died).",
}
# the list is kept (empty) so that it is visibly current: every property of properties.jsonl is claimed
json.dump(man, open(os.path.join(HERE, "MANIFEST.json"), "w"), indent=1)
print("checks:", [c["property_id"] for c in checks], "not claimed:", [n["property_id"] for n in na])
