#!/bin/bash
# tools/sweep.sh <tier> <seeds...>  -- runs every check for the given seeds, prints one line per run
tier="$1"; shift
cd "$(dirname "$0")/.."
for s in "$@"; do
 for p in C01 C02 C03 C04 C05 C06 C07 C08 C09 C10 C11 C12 C13 C14 C15 C16 C17 C18 C19 C20; do
  out=$(VERIF_SEED=$s timeout 7200 ./check $p --tier $tier --jobs "${VT_JOBS:-8}" 2>&1); rc=$?
  echo "seed=$s $p exit=$rc $(echo "$out" | grep -E '^(VIOLATION|INCONCLUSIVE)' | head -2 | cut -c1-300)"
  if [ $rc -ne 0 ]; then echo "$out" | grep -A2 -E '^(VIOLATION|INCONCLUSIVE)' | head -8 | cut -c1-1500; fi
 done
done
