#!/usr/bin/env python3
"""Regenerates the machine-written tables of DESIGN.md (between <!-- BEGIN x --> / <!-- END x --> markers)
from known_findings.json, seeded/*/meta.json and mutants/."""
import json, os, re, glob
HERE = os.path.dirname(os.path.dirname(os.path.abspath(__file__)))
kf = json.load(open(os.path.join(HERE, "known_findings.json")))["findings"]

def esc(t):
    return str(t).replace("|", "\\|").replace("\n", " ")

rows = ["| # | Property | Finding id | What failed on the pinned tree | Disposition |", "|---|---|---|---|---|"]
for i, e in enumerate(sorted(kf, key=lambda e: (e["status"] != "fixed", e["property"], e["id"])), 1):
    disp = ("`fix:` commit %s in /repo; reverse patch in `mutants/revfix_*`" % e.get("commit")) if e["status"] == "fixed" \
        else "**open known finding** (mechanism: %s)" % esc(e.get("mechanism", ""))
    rows.append("| %d | %s | `%s` | %s | %s |" % (i, e["property"], e["id"], esc(e["what"]), disp))
findings = "\n".join(rows)

rows = ["| Seed | Property | What was changed | Needs, to manifest | Outcome |", "|---|---|---|---|---|"]
for d in sorted(glob.glob(os.path.join(HERE, "seeded", "*", "meta.json"))):
    m = json.load(open(d))
    rows.append("| `%s` | %s | %s | %s | %s |" % (os.path.basename(os.path.dirname(d)), m.get("property"), esc(m.get("summary")),
                                             esc(m.get("needs_to_manifest")), esc(m.get("confirmed"))))
seeded = "\n".join(rows)

mut = {}
for p in sorted(glob.glob(os.path.join(HERE, "mutants", "*.patch"))):
    b = os.path.basename(p)[:-6]
    pid = re.search(r"C\d\d", b).group(0)
    mut.setdefault(pid, []).append(b)
rows = ["| Property | Mutants (all must make `./check Cxx --tier quick` exit 1; `./selftest.sh` runs them) |", "|---|---|"]
for pid in sorted(mut):
    rows.append("| %s | %s |" % (pid, ", ".join("`%s`" % b for b in mut[pid])))
mutants = "\n".join(rows)

p = os.path.join(HERE, "DESIGN.md")
s = open(p).read()
for name, body in (("findings", findings), ("seeded", seeded), ("mutants", mutants)):
    a, b = "<!-- BEGIN %s -->" % name, "<!-- END %s -->" % name
    if a in s:
        s = s[:s.index(a) + len(a)] + "\n" + body + "\n" + s[s.index(b):]
open(p, "w").write(s)
print("tables regenerated:", len(kf), "findings,", len(glob.glob(os.path.join(HERE, "seeded", "*"))), "seeds,", sum(map(len, mut.values())), "mutants")
