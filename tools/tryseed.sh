#!/bin/bash
# tools/tryseed.sh <seed-dir with patch.diff demo.py meta.json> <prop> [tier] [notests]
# Confirms a seeded change in a scratch worktree of /repo (outside /repo and /verif):
#   demo passes on clean tree, fails with the patch, repository tests unchanged,
# then runs ./check <prop> against the patched scratch tree and removes it.
S="$1"; P="$2"; TIER="${3:-quick}"; NOTESTS="$4"
W=$(mktemp -d /tmp/vs_XXXXXX); rmdir "$W"
git -C /repo worktree add -q --detach "$W" HEAD || exit 9
cleanup() { git -C /repo worktree remove --force "$W" 2>/dev/null; rm -rf "$W"; }
trap cleanup EXIT
cd "$W"
PYTHONPATH="$W" MPLBACKEND=Agg timeout 600 /venv/bin/python -W ignore "$S/demo.py" >/dev/null 2>&1; d0=$?
if ! git apply "$S/patch.diff" 2>/dev/null && ! git apply --3way "$S/patch.diff" 2>/dev/null; then echo "RESULT $P $(basename $(dirname $(dirname $S)))/$(basename $S): patch does not apply"; exit 3; fi
PYTHONPATH="$W" MPLBACKEND=Agg timeout 600 /venv/bin/python -W ignore "$S/demo.py" >/dev/null 2>&1; d1=$?
if [ -z "$NOTESTS" ]; then
  t=$(PYTHONPATH="$W" MPLBACKEND=Agg timeout 1200 /venv/bin/python -m pytest -q -p no:cacheprovider --timeout=900 2>&1 | tail -1)
else t="(tests skipped)"; fi
git -C "$W" checkout -q -- test data 2>/dev/null
cd /verif
out=$(VT_REPO="$W" timeout 3600 ./check "$P" --tier "$TIER" --jobs "${VT_JOBS:-8}" 2>&1); rc=$?
echo "RESULT $P $S: demo_clean=$d0 demo_patched=$d1 tests=[$t] check_exit=$rc"
echo "$out" | grep -E "^(VIOLATION|INCONCLUSIVE|HELD|KNOWN)" | head -4
echo "$out" | grep -A1 "^VIOLATION" | grep witness | head -1 | cut -c1-400
