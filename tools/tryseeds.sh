#!/bin/bash
# tools/tryseeds.sh <outdir> <id...>  -- runs tools/tryseed.sh for each <outdir>/<id> (id like C04-C), 3 at a time;
# one RESULT block per seed is appended to <outdir>/results/<id>.txt
OUT="$1"; shift
mkdir -p "$OUT/results"
cd "$(dirname "$0")/.."
printf '%s\n' "$@" | xargs -P 3 -I{} bash -c 'id={}; p=${id%%-*}; VT_JOBS=5 tools/tryseed.sh '"$OUT"'/$id $p quick $NOTESTS > '"$OUT"'/results/$id.txt 2>&1; head -3 '"$OUT"'/results/$id.txt | cut -c1-600'
