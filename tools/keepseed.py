#!/usr/bin/env python3
"""tools/keepseed.py <seed-dir> <id> <result-line> -- copies a confirmed seeded change into seeded/<id>/ and records what was run."""
import sys, os, json, shutil
src, sid, result = sys.argv[1], sys.argv[2], sys.argv[3]
here = os.path.dirname(os.path.dirname(os.path.abspath(__file__)))
dst = os.path.join(here, "seeded", sid)
os.makedirs(dst, exist_ok=True)
for f in ("patch.diff", "demo.py"):
    shutil.copy(os.path.join(src, f), os.path.join(dst, f))
meta = json.load(open(os.path.join(src, "meta.json")))
out = {"property": meta.get("property"), "summary": meta.get("summary"), "needs_to_manifest": meta.get("needs"),
       "files": meta.get("files"), "written_by": "fresh sub-agent given only the property text and a scratch worktree of /repo",
       "confirmed": result,
       "what_was_run": "tools/tryseed.sh: scratch worktree of /repo under /tmp; demo.py on the clean tree (exit 0), git apply patch.diff, demo.py again (exit != 0), full repository test suite on the patched tree (must stay 11 failed / 243 passed), then ./check <property> with VT_REPO pointing at the patched tree; worktree removed afterwards"}
json.dump(out, open(os.path.join(dst, "meta.json"), "w"), indent=1)
print("kept", sid)
