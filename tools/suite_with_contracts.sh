#!/bin/bash
# Runs the repository's own suite with the property modules' runtime contracts installed.
cd "$(dirname "$0")/.."
HERE=$(pwd)
[ -f .deps/.ok ] || ./setup.sh >/dev/null
mkdir -p .work
cd "${VT_REPO:-/repo}"
PYTHONPATH="$HERE:$HERE/.deps:${VT_REPO:-/repo}" MPLBACKEND=Agg PYTHONDONTWRITEBYTECODE=1 VT_CONTRACT_REPORT="$HERE/.work/contracts_report.json" \
  timeout 3000 /venv/bin/python -W ignore -m pytest -q -p no:cacheprovider -p vt.pytest_plugin --timeout=900 "$@" 2>&1 | tail -30
git -C "${VT_REPO:-/repo}" status --short | head -5
