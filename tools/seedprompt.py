#!/usr/bin/env python3
"""tools/seedprompt.py <prop> <round-letter-1> <round-letter-2> [focus]
Creates a scratch worktree of /repo under /tmp/seedwt/<prop><l1> and an output directory
/tmp/seedout/, and prints the prompt for a fresh sub-agent.  The prompt contains the text
of the property only -- nothing from /verif's machinery."""
import sys, json, os, subprocess
prop, l1, l2 = sys.argv[1], sys.argv[2], sys.argv[3]
focus = sys.argv[4] if len(sys.argv) > 4 else ""
here = os.path.dirname(os.path.dirname(os.path.abspath(__file__)))
P = None
for l in open(os.path.join(here, "properties.jsonl")):
    p = json.loads(l)
    if p["id"] == prop:
        P = p
W = f"/tmp/seedwt/{prop}{l1}"
OUT = "/tmp/seedout"
os.makedirs("/tmp/seedwt", exist_ok=True)
os.makedirs(OUT, exist_ok=True)
if not os.path.isdir(W):
    subprocess.check_call(["git", "-C", "/repo", "worktree", "add", "-q", "--detach", W, "HEAD"])
for l in (l1, l2):
    os.makedirs(f"{OUT}/{prop}-{l}", exist_ok=True)
FOCUS = {
 "history": "At least one of the two changes must need a MULTI-STEP CALL HISTORY to manifest (state left behind by an earlier call on the same object, class or module: a cache, a flag, a memo, a shared default, an aliasing of lists between objects, a global that is not restored), so that a single call on fresh objects behaves correctly.",
 "input": "At least one of the two changes must need an UNUSUAL BUT LEGITIMATE INPUT to manifest (a boundary value, a tie, a zero, a repeated value, a particular size, a particular option or combination of options that is documented and accepted), so that ordinary inputs behave correctly.",
 "sites": "At least one of the two changes must consist of TWO COOPERATING EDITS in different functions (or files) that each look fine alone -- e.g. a helper whose contract is slightly changed and a caller that relied on the old contract on one path only.",
 "sites_input": "The FIRST change must consist of TWO COOPERATING EDITS in different functions (or files) that each look fine alone -- e.g. a helper whose contract is slightly changed (return value, mutability of what it returns, units, inclusive/exclusive bound, default argument) and a caller that relied on the old contract on one path only. The SECOND change must need an UNUSUAL BUT LEGITIMATE INPUT OR CONFIGURATION to manifest (a boundary value, a tie, a zero, a repeated value, a particular size, a documented option or combination of options, an alternative public entry point that reaches the same functionality), so that ordinary inputs through the usual entry point behave correctly.",
 "fault_option": "The FIRST change must only manifest AFTER AN ERROR PATH OR A DEGENERATE CALL was taken earlier in the same process: an earlier call that legitimately fails or does nothing (a documented rejection, an exception on a bad or empty input, a missing name, an unreachable target, an empty result, a file that cannot be parsed) leaves something behind -- a global format or option not restored, a half-updated table, a flag or cache not reset, a partially registered object -- so that a LATER, perfectly valid call inside the property's scope misbehaves; the valid call alone, in a fresh process, must behave correctly. The SECOND change must manifest only through a DOCUMENTED OPTION, OPTIONAL ARGUMENT, OR ALTERNATIVE PUBLIC ENTRY POINT that reaches the same functionality (a keyword argument with a non-default value, a wrapper method on another class, an operator overload, a convenience function, a different but documented type for an argument), so that the usual entry point with default options behaves correctly.",
 "magnitude_derived": "The FIRST change must depend on the MAGNITUDE OR FLOATING-POINT REPRESENTATION of otherwise ordinary values: an absolute tolerance where a relative one is needed (or the reverse), an exact float comparison, an integer truncation or rounding, a unit or scale assumption, accumulated rounding, a value that is only exact for small / integer / dyadic numbers -- so that inputs of one magnitude (small integers, coordinates near the origin, dates near 1970, short tracks) behave correctly while realistic inputs of another magnitude (projected map coordinates of several millions, timestamps of today, sub-millimetre or many-kilometre lengths, very long tracks) break the property. The SECOND change must manifest only when the object handed to the function is itself a DERIVED OBJECT produced by another public operation of the library -- a copy(), an extract or slice, a concatenation (+), a reversed or re-sorted track, a track read back from a file, a track converted to another coordinate system, a resampled or simplified track, a sub-network, a collection filtered on a box -- because the derived object shares, lacks or carries over some internal state (feature table, base point, identifiers, flags, cached values, object identity of the observations); the same values built from scratch must behave correctly.",
 "types_scale": "The FIRST change must manifest only for a documented but LESS USUAL TYPE OR SPELLING OF AN ARGUMENT OR NAME: an int where floats are usual (or a float with an integral value where ints are usual), a numpy scalar or numpy array instead of a Python number or list, a tuple instead of a list, a Node / Track / ObsTime object where an identifier, a list or a string is also accepted (or the reverse), a negative index, a feature or identifier NAME that is unusual but legal (a name that is a prefix or suffix of another name or of a built-in function name, contains digits, upper case, blanks or an underscore, is one character long, equals a coordinate name in another case) -- ordinary types and names must behave correctly. The SECOND change must manifest only at a LARGER SCALE than small examples: tracks of several hundred or thousand observations, networks of hundreds of nodes, collections of dozens of tracks, dozens of features, many repeated calls in one process, recursion that gets deep, accumulated rounding over long sums, a counter or buffer that overflows or is sized for small inputs, a quadratic shortcut switched on above a size threshold -- small inputs (up to a few dozen elements) must behave correctly, and the demonstration must still finish in under 60 s.",
 "alias_ties": "The FIRST change must manifest only through ALIASING BETWEEN THE CALLER'S OBJECTS AND THE LIBRARY'S: the function now keeps, returns or shares a reference where it used to copy (or copies where sharing was relied upon) -- a list, dict, coordinate, timestamp, observation, track, matrix or option object handed in by the caller and modified by the caller AFTER the call, or an object RETURNED to the caller that the caller then modifies, or one argument object passed twice (the same list / track / node given for two parameters), or a default argument object shared between calls -- so that a later, perfectly valid call inside the property's scope misbehaves, while callers that never touch those objects again see correct behaviour. The SECOND change must manifest only on TIES AND ORDERING: equal keys, equal costs, equal timestamps or distances, several optimal answers, elements that compare equal but are distinct objects, first-versus-last among equals, stability of a sort, iteration order of a dict or set, insertion order of nodes / edges / tracks / features, a permutation of the input order that must not matter (or must be preserved) -- inputs without ties and in the usual order must behave correctly. In both cases the property's text must be violated (a wrong value, a lost or duplicated element, a non-optimal or invalid result, an input changed), not merely a different but equally valid answer returned.",
 "": "",
}[focus]
print(f"""You are helping to evaluate a verification harness. You work in a scratch git worktree of the pure-Python GPS trajectory library `tracklib` at `{W}` (a checkout of the project's current HEAD). Work ONLY inside `{W}` and `{OUT}`. Do not read, list or touch `/verif`, `/repo`, `/root/.vp` or any other `/tmp/seed*` directory: your work must be independent of everything there.

Interpreter: `/venv/bin/python` (3.12, numpy and matplotlib installed). Always run with `PYTHONPATH={W} MPLBACKEND=Agg` so that the worktree's `tracklib` package is the one imported (check `tracklib.__file__` once). The existing test-suite is run with
`cd {W} && PYTHONPATH={W} MPLBACKEND=Agg timeout 1500 /venv/bin/python -m pytest -q -p no:cacheprovider --timeout=900 2>&1 | tail -15`
and on the unchanged tree gives exactly `11 failed, 243 passed` (the 11 failures are pre-existing: they need the network or data files that are absent; they are the baseline, ignore them). The suite takes about 40 s. Always put `timeout` in front of anything you run (some tracklib loops do not terminate on degenerate input). tracklib sometimes calls `exit()` on error paths and prints progress bars.

THE PROPERTY (of the library, as its users rely on it):

  {P['id']} -- {P['title']}
  {P['statement']}
  (Quantified over: {P['quantifier']['text']})
  Code the property is anchored in: {', '.join(P['anchors']['files'])}

YOUR TASK: write TWO different, independent changes to tracklib's source (each one a separate patch against the unchanged HEAD) such that, for each change:
 1. the library still imports and the existing test-suite still gives exactly `11 failed, 243 passed` with the same failing tests (you must run it with the change applied);
 2. the change BREAKS THE PROPERTY above: there is some legitimate use, inside the property's scope, where the library now misbehaves against the property's text;
 3. the change is REALISTIC: it should look like something a maintainer could plausibly commit (a refactoring, an optimisation, a cache, an early exit, a 'simplification', a tidy-up of a condition, handling of a corner case done wrong, a changed default) -- not sabotage such as `if x == 42`, and not a change in a function the property does not depend on;
 4. the break is SUBTLE: it needs something specific to manifest -- a particular multi-step sequence of operations, an unusual input, a particular configuration, a tie or boundary value, state left over from an earlier call, or two cooperating sites that each look fine alone. A change that ordinary use exposes at once (every call wrong, crash on the first call) is NOT wanted.
 {FOCUS}
 The two changes must be different in mechanism and, preferably, in the function they touch. Do not edit anything under `test/` or `data/`.

For EACH change write a demonstration program `demo.py` (plain script, no pytest needed, standard library + tracklib + numpy only, deterministic, finishes in < 60 s, prints what it observed) that exits 0 on the unchanged tree and exits non-zero (assertion failure) with the change applied, by exhibiting the property violation through tracklib's public API. Verify both directions yourself (`git diff > /some/file.diff; git checkout -- tracklib` to go back to the unchanged tree and `git apply /some/file.diff` to re-apply). NEVER use `git stash`: the stash is shared by all worktrees of the repository and other agents are working in sibling worktrees.

DELIVERABLES, for the first change in `{OUT}/{prop}-{l1}/` and for the second in `{OUT}/{prop}-{l2}/`:
  * `patch.diff`  -- output of `git diff` (relative to the worktree root, touching only files under `tracklib/`), made against the unchanged HEAD, applying cleanly with `git apply` on the unchanged HEAD;
  * `demo.py`     -- the demonstration program described above;
  * `meta.json`   -- {{"property": "{prop}", "summary": "<what was changed, 1-3 sentences>", "needs": "<what exactly is needed for the break to manifest, and what still behaves correctly>", "files": ["tracklib/..."]}}

When both are done, restore the worktree to the unchanged HEAD (`git -C {W} checkout -- .`; remove untracked files you created there) and reply with a short report: for each change the summary, what it needs to manifest, and the test-suite result line you observed with it applied. Do not ask questions; make your own decisions.""")
