#!/usr/bin/env python3
"""tools/mkmutant.py <name> <file-relative-to-repo> <old-text> <new-text> [count]
Creates mutants/<name>.patch replacing one occurrence (must be unique unless count given)."""
import sys, os, subprocess, tempfile, shutil
name, rel, old, new = sys.argv[1:5]
repo = os.environ.get("VT_REPO", "/repo")
src = open(os.path.join(repo, rel)).read()
old = old.encode().decode("unicode_escape"); new = new.encode().decode("unicode_escape")
n = src.count(old)
if n != 1:
    print("pattern occurs %d times" % n); sys.exit(1)
d = tempfile.mkdtemp(prefix="mkmut_")
try:
    for side, text in (("a", src), ("b", src.replace(old, new))):
        p = os.path.join(d, side, rel); os.makedirs(os.path.dirname(p)); open(p, "w").write(text)
    out = subprocess.run(["diff", "-u", "a/" + rel, "b/" + rel], cwd=d, capture_output=True, text=True).stdout
    here = os.path.dirname(os.path.dirname(os.path.abspath(__file__)))
    open(os.path.join(here, "mutants", name + ".patch"), "w").write(out)
    print("wrote mutants/%s.patch (%d lines)" % (name, len(out.splitlines())))
finally:
    shutil.rmtree(d)
