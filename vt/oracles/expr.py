"""Independent oracle for tracklib's algebraic feature expressions (C02).

AST (JSON-able nested lists):
    ["num", "2.5"]              literal (text as printed)
    ["var", "a"]                feature / x y z t idx
    ["bin", op, L, R]           op in + - * / ^ < >
    ["neg", E, bare]            unary minus; bare=True: may be printed without
                                parentheses after a binary + or -
    ["par", E]                  redundant parentheses
    ["fn", NAME, E]             pointwise / shorthand / aggregate function

The evaluator returns values together with a first-order bound on how far a
*legitimately re-associated* floating-point evaluation may be from them
(tracklib computes f/c as f*(1/c) and c/f as (1/f)*c), so that comparisons,
SIGN, ARGMIN ... on nearly equal computed operands are recognised as
knife-edge (not judged) instead of being reported.
"""
from __future__ import annotations

import math

NAN = float("nan")

POINTWISE = ["ABS", "SQRT", "EXP", "COS", "SIN", "TAN", "SIGN", "DIODE", "LOG"]
SHORTHAND = ["D", "I", "D2"]
AGGREGATES = ["SUM", "AVG", "VAR", "STD", "MSE", "RMSE", "MAD", "MIN", "MAX", "MEDIAN", "ARGMIN", "ARGMAX"]
PREC = {"<": 1, ">": 1, "+": 2, "-": 2, "*": 3, "/": 3, "^": 4}


class Undefined(Exception):
    """The expression has no defined value under ordinary arithmetic (or the
    documented grammar cannot express it): out of domain."""


class KnifeEdge(Exception):
    """A discontinuous operation on operands closer than their rounding
    uncertainty: not decidable by value comparison."""


def ulp(v):
    v = abs(v)
    if v != v or math.isinf(v):
        return 0.0
    return math.ulp(v) if v > 0 else 5e-324


class Val:
    __slots__ = ("v", "e", "scalar", "exact")

    def __init__(self, v, e=None, scalar=False, exact=True):
        self.v = v
        self.e = e if e is not None else [0.0] * len(v)
        self.scalar = scalar
        self.exact = exact


# --------------------------------------------------------------------------
# printing
def to_str(node, min_prec=0, at_start=True, after_additive=False):
    k = node[0]
    if k == "num":
        return node[1]
    if k == "var":
        return node[1]
    if k == "par":
        return "(" + to_str(node[1], 0, True) + ")"
    if k == "fn":
        return node[1] + "{" + to_str(node[2], 0, True) + "}"
    if k == "neg":
        bare_ok = at_start or (after_additive and node[2])
        inner = "-" + to_str(node[1], 3, False)     # operand binds tighter than + -
        if min_prec > 2 or not bare_ok:
            return "(" + inner + ")"
        return inner
    if k == "bin":
        op = node[1]
        p = PREC[op]
        if p < min_prec:
            return "(" + to_str(node, 0, True) + ")"
        left = to_str(node[2], p, at_start)
        right_node = node[3]
        if op in "+-" and right_node[0] == "neg" and right_node[2]:
            right = to_str(right_node, 0, False, True)
        else:
            right = to_str(right_node, p + 1, False)
        return left + op + right
    raise ValueError(node)


def depth(node):
    k = node[0]
    if k in ("num", "var"):
        return 0
    if k in ("par",):
        return depth(node[1])
    if k == "neg":
        return 1 + depth(node[1])
    if k == "fn":
        return 1 + depth(node[2])
    return 1 + max(depth(node[2]), depth(node[3]))


def is_vector(node):
    k = node[0]
    if k == "num":
        return False
    if k == "var":
        return True
    if k in ("par", "neg"):
        return is_vector(node[1])
    if k == "fn":
        return True
    return is_vector(node[2]) or is_vector(node[3])


def well_typed(node):
    """Functions take a feature-valued argument (the documented syntax applies
    them to features)."""
    k = node[0]
    if k in ("num", "var"):
        return True
    if k in ("par", "neg"):
        return well_typed(node[1])
    if k == "fn":
        return is_vector(node[2]) and well_typed(node[2])
    return well_typed(node[2]) and well_typed(node[3])


def ops_used(node, acc=None):
    acc = acc if acc is not None else set()
    k = node[0]
    if k == "bin":
        acc.add(node[1])
        ops_used(node[2], acc)
        ops_used(node[3], acc)
    elif k == "neg":
        acc.add("neg")
        ops_used(node[1], acc)
    elif k == "par":
        acc.add("par")
        ops_used(node[1], acc)
    elif k == "fn":
        acc.add(node[1])
        ops_used(node[2], acc)
    return acc


# --------------------------------------------------------------------------
# evaluation
BIG = 1e15


def _chk(r):
    if r == r and abs(r) > BIG:
        raise Undefined("overflow guard (|value| > 1e15)")
    return r


def _binop(op, x, ex, y, ey, exact_in):
    """One element.  Returns (value, error bound)."""
    if op == "+":
        r = x + y
        e = ex + ey
    elif op == "-":
        r = x - y
        e = ex + ey
    elif op == "*":
        r = x * y
        e = abs(x) * ey + abs(y) * ex + ex * ey
    elif op == "/":
        if y == 0 or (ey > 0 and abs(y) <= 8 * ey):
            raise Undefined("division by zero")
        r = x / y
        e = ex / abs(y) + abs(x) * ey / (y * y)
    elif op == "^":
        try:
            if x == 0 and y < 0:
                raise Undefined("0 ** negative")
            if x < 0 and y == y and y != int(y):
                raise Undefined("negative base with fractional exponent")
            if (ex > 0 and abs(x) <= 8 * ex and y <= 0) or (x < 0 and ey > 0):
                raise KnifeEdge("power near a singular point")
            r = x ** y
        except OverflowError:
            raise Undefined("overflow in power")
        except ZeroDivisionError:
            raise Undefined("0 ** negative")
        if isinstance(r, complex):
            raise Undefined("complex power")
        if r != r or math.isinf(r):
            e = 0.0
        else:
            d1 = abs(y) * abs(x) ** (y - 1) if x != 0 else (0.0 if y >= 1 else BIG)
            d2 = abs(r) * abs(math.log(abs(x))) if x != 0 else 0.0
            if x == 0 and 0 < y < 1 and ex > 0:
                raise KnifeEdge("fractional power at 0")
            e = d1 * ex + d2 * ey
    elif op in "<>":
        tol = 8 * (ex + ey)
        if not exact_in and abs(x - y) <= tol and x == x and y == y:
            raise KnifeEdge("comparison of operands closer than their rounding uncertainty")
        r = 1.0 if ((x < y) if op == "<" else (x > y)) else 0.0
        return r, 0.0
    else:
        raise ValueError(op)
    if isinstance(r, complex):
        raise Undefined("complex")
    r = _chk(r)
    if exact_in or e != e or x != x or y != y:
        # NaN operands are NaN on every evaluation route: nothing to propagate
        return r, 0.0
    return r, e + 2 * ulp(r)


def _fn_pointwise(name, x, ex, exact_in):
    if name == "ABS":
        return abs(x), ex
    if name == "SQRT":
        if x < 0 or (not exact_in and x <= 8 * ex):
            raise Undefined("SQRT of a non-positive value")
        if x == 0:
            return 0.0, 0.0
        r = math.sqrt(x)
        return r, ex / (2 * r) + (0 if exact_in else ulp(r))
    if name == "EXP":
        if x > 30:
            raise Undefined("EXP overflow guard")
        r = math.exp(x)
        return r, r * ex + (0 if exact_in else 2 * ulp(r))
    if name in ("COS", "SIN"):
        if abs(x) > 1e6:
            raise Undefined("trigonometric argument too large to be well conditioned")
        r = math.cos(x) if name == "COS" else math.sin(x)
        return r, ex + (0 if exact_in else 2 * ulp(r))
    if name == "TAN":
        if abs(x) > 1e6:
            raise Undefined("trigonometric argument too large to be well conditioned")
        r = math.tan(x)
        if abs(r) > 1e8:
            raise Undefined("TAN near a pole")
        return r, (1 + r * r) * ex + (0 if exact_in else 4 * ulp(r))
    if name == "SIGN":
        if x != x:
            raise Undefined("SIGN of NaN")
        if x == 0:
            raise Undefined("SIGN(0)")
        if not exact_in and abs(x) <= 8 * ex:
            raise KnifeEdge("SIGN of a value within rounding uncertainty of 0")
        return (1.0 if x > 0 else -1.0), 0.0
    if name == "DIODE":
        if x != x:
            return NAN, 0.0
        if not exact_in and abs(x) <= 8 * ex:
            return (x if x > 0 else 0.0), ex          # continuous at 0
        return (x if x > 0 else 0.0), (ex if x > 0 else 0.0)
    if name == "LOG":
        if not (x > 0) or (not exact_in and x <= 8 * ex):
            raise Undefined("LOG of a non-positive value or NaN")
        r = math.log(x)
        return r, ex / x + (0 if exact_in else 2 * ulp(r))
    raise ValueError(name)


def _aggregate(name, V, E, exact_in):
    n = len(V)
    if any(v != v for v in V):
        raise Undefined("aggregate over NaN")
    emax = max(E) if E else 0.0
    tot_abs = 0.0
    for v in V:
        tot_abs += abs(v)
    round_e = 4 * n * ulp(tot_abs)           # re-association allowance for sums

    def seq_sum(vals):
        s = 0.0
        for v in vals:
            s += v
        return s
    if name == "SUM":
        return seq_sum(V), sum(E) + round_e
    if name == "AVG":
        return seq_sum(V) / n, sum(E) / n + round_e
    if name in ("VAR", "STD"):
        m = seq_sum(V) / n
        var = seq_sum([(v - m) ** 2 for v in V]) / n
        spread = max(abs(v - m) for v in V)
        e = 2 * spread * (2 * emax + round_e) + 8 * n * ulp(max(var, spread * spread))
        if name == "VAR":
            return var, e
        if var == 0:
            if e > 0:
                raise KnifeEdge("STD of a (nearly) constant vector")
            return 0.0, 0.0
        r = math.sqrt(var)
        return r, e / (2 * r) + ulp(r)
    if name in ("MSE", "RMSE"):
        mse = seq_sum([v * v for v in V]) / n
        mx = max(abs(v) for v in V)
        e = 2 * mx * emax + 8 * n * ulp(max(mse, mx * mx))
        if name == "MSE":
            return mse, e
        if mse == 0:
            if e > 0:
                raise KnifeEdge("RMSE of a (nearly) zero vector")
            return 0.0, 0.0
        r = math.sqrt(mse)
        return r, e / (2 * r) + ulp(r)
    if name == "MIN":
        return min(V), emax
    if name == "MAX":
        return max(V), emax
    if name in ("MEDIAN", "MAD"):
        W = sorted(abs(v) for v in V) if name == "MAD" else sorted(V)
        if n % 2:
            return W[n // 2], emax
        return 0.5 * (W[n // 2 - 1] + W[n // 2]), emax + ulp(W[n // 2])
    if name in ("ARGMIN", "ARGMAX"):
        best = min(V) if name == "ARGMIN" else max(V)
        idx = V.index(best)
        if not exact_in:
            for i, v in enumerate(V):
                if i != idx and abs(v - best) <= 8 * (E[i] + E[idx]):
                    raise KnifeEdge("ARGMIN/ARGMAX between values closer than their rounding uncertainty")
        return float(idx), 0.0
    raise ValueError(name)


def apply_fn(name, a, n):
    """Function `name` applied to the value a (a Val)."""
    if a.scalar:
        raise Undefined("function applied to a literal")
    if name in POINTWISE:
        out = [_fn_pointwise(name, a.v[i], a.e[i], a.exact) for i in range(n)]
        return Val([o[0] for o in out], [o[1] for o in out], False, a.exact or name == "SIGN")
    if name == "D":
        v = [NAN] + [a.v[i] - a.v[i - 1] for i in range(1, n)]
        e = [0.0] + [0.0 if a.exact else a.e[i] + a.e[i - 1] + 2 * ulp(v[i]) for i in range(1, n)]
        for r in v[1:]:
            _chk(r)
        return Val(v, e, False, a.exact)
    if name == "I":
        v, e = [0.0], [0.0]
        for i in range(1, n):
            v.append(_chk(v[-1] + a.v[i]))
            e.append(0.0 if a.exact else e[-1] + a.e[i] + 2 * ulp(v[-1]))
        return Val(v, e, False, a.exact)
    if name == "D2":
        v = [NAN] * n
        e = [0.0] * n
        for i in range(1, n - 1):
            v[i] = _chk(a.v[i + 1] - 2 * a.v[i] + a.v[i - 1])
            e[i] = a.e[i + 1] + 2 * a.e[i] + a.e[i - 1] + 4 * ulp(max(abs(a.v[i + 1]), abs(a.v[i]), abs(a.v[i - 1])))
        return Val(v, e, False, False)
    if name in AGGREGATES:
        r, e = _aggregate(name, a.v, a.e, a.exact)
        _chk(r)
        exact = (name in ("MIN", "MAX", "ARGMIN", "ARGMAX") and a.exact) or \
            (name in ("MEDIAN", "MAD") and a.exact and n % 2 == 1)
        if exact:
            e = 0.0
        return Val([r] * n, [e] * n, False, exact)
    raise Undefined("unknown function " + str(name))


def evaluate(node, env, n):
    """-> Val.  env: name -> list of n floats."""
    k = node[0]
    if k == "num":
        c = float(node[1])
        return Val([c] * n, None, True, True)
    if k == "var":
        if node[1] not in env:
            raise Undefined("unknown name " + node[1])
        return Val([float(v) for v in env[node[1]]], None, False, True)
    if k == "par":
        return evaluate(node[1], env, n)
    if k == "neg":
        a = evaluate(node[1], env, n)
        return Val([0.0 - v for v in a.v], list(a.e), a.scalar, a.exact)
    if k == "bin":
        op = node[1]
        a = evaluate(node[2], env, n)
        b = evaluate(node[3], env, n)
        exact = a.exact and b.exact
        # tracklib computes AF/scalar as AF*(1/scalar) and scalar/AF as (1/AF)*scalar
        introduces = (op == "/" and (a.scalar != b.scalar))
        out_v, out_e = [], []
        for i in range(n):
            r, e = _binop(op, a.v[i], a.e[i], b.v[i], b.e[i], exact)
            if introduces and r == r and not math.isinf(r):
                e += 4 * ulp(r)
                if op == "/" and a.scalar and not b.scalar:
                    e += 4 * ulp(r)
            out_v.append(r)
            out_e.append(e)
        if op in "<>":
            return Val(out_v, out_e, a.scalar and b.scalar, True)
        return Val(out_v, out_e, a.scalar and b.scalar, exact and not introduces)
    if k == "fn":
        return apply_fn(node[1], evaluate(node[2], env, n), n)
    raise ValueError(node)


# --------------------------------------------------------------------------
# numeric stack machine over tracklib's postfix token list (diagnostic monitor
# that localises a defect to the parser/rewriter)
def eval_rpn(tokens, env, n):
    """Returns ('value', Val) for a non-assignment program, ('assign', name, Val)
    for an assignment; raises Undefined/KnifeEdge/ValueError."""
    st = []

    def operand(tok):
        if isinstance(tok, Val):
            return tok
        s = str(tok).strip()
        try:
            c = float(s)
            return Val([c] * n, None, True, True)
        except ValueError:
            pass
        if s in env:
            return Val([float(v) for v in env[s]], None, False, True)
        raise Undefined("rpn: unknown token %r" % (s,))

    for tok in tokens:
        t = tok.strip() if isinstance(tok, str) else tok
        if t in ("+", "-", "*", "/", "^", "<", ">"):
            b = operand(st.pop())
            a = operand(st.pop())
            exact = a.exact and b.exact
            introduces = (t == "/" and a.scalar != b.scalar)
            vs, es = [], []
            for i in range(n):
                r, e = _binop(t, a.v[i], a.e[i], b.v[i], b.e[i], exact)
                if introduces and r == r and not math.isinf(r):
                    e += 8 * ulp(r)
                vs.append(r)
                es.append(e)
            st.append(Val(vs, es, a.scalar and b.scalar, (exact and not introduces) or t in "<>"))
        elif t == "@":
            arg = operand(st.pop())
            f = st.pop()
            f = f.strip() if isinstance(f, str) else f
            st.append(apply_fn(f, arg, n))
        elif t == "=":
            val = operand(st.pop())
            name = st.pop()
            return ("assign", str(name).strip(), val)
        else:
            st.append(t)
    if len(st) != 1:
        raise ValueError("rpn: stack %r" % (st,))
    return ("value", operand(st[0]))


def close(got, val, i):
    """Is tracklib's value `got` compatible with oracle element i?"""
    exp = val.v[i]
    try:
        g = float(got)
    except (TypeError, ValueError):
        return False
    if exp != exp or g != g:
        return exp != exp and g != g
    if g == exp:
        return True
    if math.isinf(g) or math.isinf(exp):
        return False
    e = val.e[i]
    if e != e:
        e = 0.0
    return abs(g - exp) <= max(1e-12, 1e-9 * max(abs(g), abs(exp))) + 8 * e


def ill_conditioned(val):
    for v, e in zip(val.v, val.e):
        if v == v and not math.isinf(v) and 8 * e > 1e-6 * abs(v) + 1e-9:
            return True
    return False
