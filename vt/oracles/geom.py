"""Planar geometry oracles -- stdlib only, independent of tracklib.

Shared by C08 / C10 / C16 / C19 / C20.  Points are (x, y) pairs (extra
components are ignored), polylines are sequences of points.

  dist(p, q)                               Euclidean distance
  point_segment(q, a, b)                   -> (distance, (px, py), t)      nearest point of [a, b], t in [0, 1]
  point_segment_dist(q, a, b)              -> distance only
  point_segment_dist2_exact(q, a, b)       -> squared distance as an exact Fraction (inputs taken as exact binary floats)
  point_segment_dist_exact(q, a, b)        -> float(sqrt(exact squared distance))
  point_polyline(q, pts)                   -> (distance, (px, py), leg index, t)   first best leg; zero-length legs are points
  point_polyline_dist(q, pts)              -> distance only
  point_polyline_dist_exact(q, pts)        -> distance from the exact squared distances
  legs_carrying(p, pts, tol)               -> indices i such that p is within tol of leg [pts[i], pts[i+1]]
  polyline_length(pts), cumulative_lengths(pts)
  liang_barsky(a, b, xmin, ymin, xmax, ymax) -> (t0, t1) parameter interval of [a, b] inside the closed box, or None
  segment_intersects_box(a, b, xmin, ymin, xmax, ymax) -> bool  (closed box, closed segment)
  segment_box_distance(a, b, xmin, ymin, xmax, ymax)   -> 0.0 when they meet, else the gap
  orientation_class(a, b, near=1e-6)       -> 'zero' | 'vertical' | 'horizontal' | 'near-vertical' | 'near-horizontal' | 'oblique'
  segment_crosses_shrunk_box(a, b, xmin, ymin, xmax, ymax, eps) / polyline_crosses_shrunk_box(pts, ...) -> bool (open-cell test)
  point_in_widened_box(p, xmin, ymin, xmax, ymax, eps) -> bool (closed, eps-widened footprint)

Add new functions at the end; do not change the behaviour of existing ones.
"""
from __future__ import annotations

import math
from fractions import Fraction


# --------------------------------------------------------------------------
def dist(p, q):
    return math.hypot(p[0] - q[0], p[1] - q[1])


def point_segment(q, a, b):
    """Nearest point of the closed segment [a, b] to q.
    Returns (distance, (px, py), t) with point = a + t (b - a), 0 <= t <= 1.
    A zero-length segment is the point a (t = 0)."""
    ax, ay = a[0], a[1]
    bx, by = b[0], b[1]
    qx, qy = q[0], q[1]
    dx, dy = bx - ax, by - ay
    l2 = dx * dx + dy * dy
    if l2 == 0.0:
        return math.hypot(qx - ax, qy - ay), (ax, ay), 0.0
    t = ((qx - ax) * dx + (qy - ay) * dy) / l2
    if t <= 0.0:
        return math.hypot(qx - ax, qy - ay), (ax, ay), 0.0
    if t >= 1.0:
        return math.hypot(qx - bx, qy - by), (bx, by), 1.0
    # measure from the nearer end to keep the rounding error small
    if t <= 0.5:
        px, py = ax + t * dx, ay + t * dy
    else:
        s = ((qx - bx) * dx + (qy - by) * dy) / l2      # = t - 1
        px, py = bx + s * dx, by + s * dy
    return math.hypot(qx - px, qy - py), (px, py), t


def point_segment_dist(q, a, b):
    return point_segment(q, a, b)[0]


def point_segment_dist2_exact(q, a, b):
    """Exact squared distance from q to [a, b]; the float inputs are taken at
    their exact binary value."""
    ax, ay = Fraction(a[0]), Fraction(a[1])
    bx, by = Fraction(b[0]), Fraction(b[1])
    qx, qy = Fraction(q[0]), Fraction(q[1])
    dx, dy = bx - ax, by - ay
    l2 = dx * dx + dy * dy
    if l2 == 0:
        return (qx - ax) ** 2 + (qy - ay) ** 2
    num = (qx - ax) * dx + (qy - ay) * dy
    if num <= 0:
        return (qx - ax) ** 2 + (qy - ay) ** 2
    if num >= l2:
        return (qx - bx) ** 2 + (qy - by) ** 2
    cr = (qx - ax) * dy - (qy - ay) * dx
    return cr * cr / l2


def _sqrt_fraction(fr):
    if fr <= 0:
        return 0.0
    try:
        return math.sqrt(fr)
    except OverflowError:
        return math.sqrt(fr.numerator) / math.sqrt(fr.denominator)


def point_segment_dist_exact(q, a, b):
    return _sqrt_fraction(point_segment_dist2_exact(q, a, b))


def point_polyline(q, pts):
    """Nearest point of the polyline to q: (distance, (px, py), leg index, t).
    The first leg attaining the minimum is reported.  A one-point polyline is
    that point (leg index 0)."""
    n = len(pts)
    if n == 0:
        raise ValueError("empty polyline")
    if n == 1:
        return dist(q, pts[0]), (pts[0][0], pts[0][1]), 0, 0.0
    best = None
    for i in range(n - 1):
        d, p, t = point_segment(q, pts[i], pts[i + 1])
        if best is None or d < best[0]:
            best = (d, p, i, t)
    return best


def point_polyline_dist(q, pts):
    return point_polyline(q, pts)[0]


def point_polyline_dist_exact(q, pts):
    if len(pts) == 1:
        return dist(q, pts[0])
    return _sqrt_fraction(min(point_segment_dist2_exact(q, pts[i], pts[i + 1]) for i in range(len(pts) - 1)))


def legs_carrying(p, pts, tol):
    """Indices i such that p lies within tol of the leg [pts[i], pts[i+1]]."""
    return [i for i in range(len(pts) - 1) if point_segment_dist(p, pts[i], pts[i + 1]) <= tol]


def polyline_length(pts):
    return math.fsum(dist(pts[i], pts[i + 1]) for i in range(len(pts) - 1))


def cumulative_lengths(pts):
    out = [0.0]
    for i in range(len(pts) - 1):
        out.append(out[-1] + dist(pts[i], pts[i + 1]))
    return out


# --------------------------------------------------------------------------
def liang_barsky(a, b, xmin, ymin, xmax, ymax):
    """Clip the closed segment [a, b] against the closed box.  Returns the
    parameter interval (t0, t1), 0 <= t0 <= t1 <= 1, of the part inside, or
    None when the segment misses the box."""
    x0, y0 = a[0], a[1]
    dx, dy = b[0] - x0, b[1] - y0
    t0, t1 = 0.0, 1.0
    for p, qq in ((-dx, x0 - xmin), (dx, xmax - x0), (-dy, y0 - ymin), (dy, ymax - y0)):
        if p == 0:
            if qq < 0:
                return None
            continue
        r = qq / p
        if p < 0:
            if r > t1:
                return None
            if r > t0:
                t0 = r
        else:
            if r < t0:
                return None
            if r < t1:
                t1 = r
    return (t0, t1)


def segment_intersects_box(a, b, xmin, ymin, xmax, ymax):
    return liang_barsky(a, b, xmin, ymin, xmax, ymax) is not None


def _segments_distance(a, b, c, d):
    """Distance between two closed segments (0 when they cross)."""
    def orient(p, q, r):
        return (q[0] - p[0]) * (r[1] - p[1]) - (q[1] - p[1]) * (r[0] - p[0])
    o1, o2 = orient(a, b, c), orient(a, b, d)
    o3, o4 = orient(c, d, a), orient(c, d, b)
    if ((o1 > 0) != (o2 > 0)) and ((o3 > 0) != (o4 > 0)) and o1 != 0 and o2 != 0 and o3 != 0 and o4 != 0:
        return 0.0
    return min(point_segment_dist(a, c, d), point_segment_dist(b, c, d),
               point_segment_dist(c, a, b), point_segment_dist(d, a, b))


def segment_box_distance(a, b, xmin, ymin, xmax, ymax):
    """0.0 when the closed segment meets the closed box, else the gap."""
    if liang_barsky(a, b, xmin, ymin, xmax, ymax) is not None:
        return 0.0
    c = [(xmin, ymin), (xmax, ymin), (xmax, ymax), (xmin, ymax)]
    return min(_segments_distance(a, b, c[i], c[(i + 1) % 4]) for i in range(4))


# --------------------------------------------------------------------------
def orientation_class(a, b, near=1e-6):
    dx, dy = b[0] - a[0], b[1] - a[1]
    if a[0] == b[0] and a[1] == b[1]:
        return "zero"
    if a[0] == b[0]:
        return "vertical"
    if a[1] == b[1]:
        return "horizontal"
    if abs(dx) <= near * abs(dy):
        return "near-vertical"
    if abs(dy) <= near * abs(dx):
        return "near-horizontal"
    return "oblique"


# --------------------------------------------------------------------------
# grid-cell helpers (C08 / C19) -- appended; nothing above is changed
def segment_crosses_shrunk_box(a, b, xmin, ymin, xmax, ymax, eps):
    """True when the closed segment [a, b] meets the box shrunk by eps on every
    side (i.e. it certainly passes through the *open* box, never merely touches
    its border).  A box thinner than 2*eps has no shrunk interior -> False."""
    x0, y0, x1, y1 = xmin + eps, ymin + eps, xmax - eps, ymax - eps
    if x0 > x1 or y0 > y1:
        return False
    return liang_barsky(a, b, x0, y0, x1, y1) is not None


def point_in_widened_box(p, xmin, ymin, xmax, ymax, eps):
    """True when p lies in the closed box widened by eps on every side."""
    return (xmin - eps <= p[0] <= xmax + eps) and (ymin - eps <= p[1] <= ymax + eps)


def polyline_crosses_shrunk_box(pts, xmin, ymin, xmax, ymax, eps):
    """True when one leg of the polyline passes through the shrunk box (a
    one-point polyline is that point)."""
    if len(pts) == 1:
        return segment_crosses_shrunk_box(pts[0], pts[0], xmin, ymin, xmax, ymax, eps)
    for i in range(len(pts) - 1):
        if segment_crosses_shrunk_box(pts[i], pts[i + 1], xmin, ymin, xmax, ymax, eps):
            return True
    return False



# ---------------------------------------------------------------------------
# smallest enclosing circle (incremental construction; independent of tracklib's Welzl recursion)
def _circle_two(a, b):
    cx, cy = (a[0] + b[0]) / 2.0, (a[1] + b[1]) / 2.0
    return (cx, cy, max(math.hypot(cx - a[0], cy - a[1]), math.hypot(cx - b[0], cy - b[1])))


def _circle_three(a, b, c):
    ox = (min(a[0], b[0], c[0]) + max(a[0], b[0], c[0])) / 2.0
    oy = (min(a[1], b[1], c[1]) + max(a[1], b[1], c[1])) / 2.0
    ax, ay, bx, by, cx, cy = a[0] - ox, a[1] - oy, b[0] - ox, b[1] - oy, c[0] - ox, c[1] - oy
    d = (ax * (by - cy) + bx * (cy - ay) + cx * (ay - by)) * 2.0
    if d == 0.0:
        return None
    x = ox + ((ax * ax + ay * ay) * (by - cy) + (bx * bx + by * by) * (cy - ay) + (cx * cx + cy * cy) * (ay - by)) / d
    y = oy + ((ax * ax + ay * ay) * (cx - bx) + (bx * bx + by * by) * (ax - cx) + (cx * cx + cy * cy) * (bx - ax)) / d
    return (x, y, max(math.hypot(x - p[0], y - p[1]) for p in (a, b, c)))


def _in_circle(c, p):
    return c is not None and math.hypot(p[0] - c[0], p[1] - c[1]) <= c[2] * (1 + 1e-12) + 1e-12


def _circle_two_points(points, p, q):
    circ = _circle_two(p, q)
    left = right = None
    for r in points:
        if _in_circle(circ, r):
            continue
        cross = (q[0] - p[0]) * (r[1] - p[1]) - (q[1] - p[1]) * (r[0] - p[0])
        c = _circle_three(p, q, r)
        if c is None:
            continue
        cc = (q[0] - p[0]) * (c[1] - p[1]) - (q[1] - p[1]) * (c[0] - p[0])
        if cross > 0.0 and (left is None or cc > (q[0] - p[0]) * (left[1] - p[1]) - (q[1] - p[1]) * (left[0] - p[0])):
            left = c
        elif cross < 0.0 and (right is None or cc < (q[0] - p[0]) * (right[1] - p[1]) - (q[1] - p[1]) * (right[0] - p[0])):
            right = c
    if left is None and right is None:
        return circ
    if left is None:
        return right
    if right is None:
        return left
    return left if left[2] <= right[2] else right


def _circle_one_point(points, p):
    c = (p[0], p[1], 0.0)
    for i, q in enumerate(points):
        if not _in_circle(c, q):
            c = _circle_two(p, q) if c[2] == 0.0 else _circle_two_points(points[:i + 1], p, q)
    return c


def min_enclosing_circle(points):
    """(cx, cy, r) of the smallest circle containing the points (duplicates allowed)."""
    pts = [(float(p[0]), float(p[1])) for p in points]
    c = None
    for i, p in enumerate(pts):
        if c is None or not _in_circle(c, p):
            c = _circle_one_point(pts[:i + 1], p)
    return c
