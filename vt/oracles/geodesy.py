"""Independent geodesy reference for C14 (stdlib math only).

Written from the textbook / IGN definitions, *not* from tracklib:

* WGS84 ellipsoid: a = 6 378 137 m, 1/f = 298.257 223 563 (NIMA TR8350.2).
  Geodetic -> Earth-centred:  X = (N+h) cos(phi) cos(lam), Y = (N+h) cos(phi) sin(lam),
  Z = (N (1-e^2) + h) sin(phi),  N = a / sqrt(1 - e^2 sin^2(phi)),  e^2 = f (2 - f).
* Earth-centred -> geodetic by fixed-point iteration on the latitude (Heiskanen & Moritz),
  run to convergence -- used only for diagnostics, the round-trip checks compare with the input.
* Lambert-93 (RGF93, EPSG:2154) derived from its *defining* parameters with the IGN algorithms
  (NTG 71: ALG0001 isometric latitude, ALG0054 secant-cone constants, ALG0003 forward,
  ALG0004/ALG0002 inverse): ellipsoid GRS80 (a = 6 378 137, 1/f = 298.257 222 101),
  standard parallels 44 and 49 deg N, origin 46.5 deg N / 3 deg E, X0 = 700 000, Y0 = 6 600 000.
  No pre-computed projection constant (n, C, Ys) is typed in: they are computed here.
"""
from __future__ import annotations

import math

# --- WGS84 ------------------------------------------------------------------
WGS84_A = 6378137.0
WGS84_INVF = 298.257223563
WGS84_F = 1.0 / WGS84_INVF
WGS84_E2 = WGS84_F * (2.0 - WGS84_F)
WGS84_B = WGS84_A * (1.0 - WGS84_F)


def geo_to_ecef(lon_deg, lat_deg, h):
    lam = math.radians(lon_deg)
    phi = math.radians(lat_deg)
    s = math.sin(phi)
    c = math.cos(phi)
    N = WGS84_A / math.sqrt(1.0 - WGS84_E2 * s * s)
    r = (N + h) * c
    return (r * math.cos(lam), r * math.sin(lam), (N * (1.0 - WGS84_E2) + h) * s)


def ecef_to_geo(X, Y, Z, iterations=60):
    """Iterative inverse (not Bowring's closed form)."""
    lam = math.atan2(Y, X)
    p = math.hypot(X, Y)
    phi = math.atan2(Z, p * (1.0 - WGS84_E2))
    h = 0.0
    for _ in range(iterations):
        s = math.sin(phi)
        N = WGS84_A / math.sqrt(1.0 - WGS84_E2 * s * s)
        # height from whichever of p / Z is better conditioned
        if abs(math.cos(phi)) > 0.5:
            h = p / math.cos(phi) - N
        else:
            h = Z / s - N * (1.0 - WGS84_E2)
        new = math.atan2(Z, p * (1.0 - WGS84_E2 * N / (N + h)))
        if new == phi:
            break
        phi = new
    return (math.degrees(lam), math.degrees(phi), h)


def enu_axes(lon_deg, lat_deg):
    """Unit vectors east, north, up (in ECEF components) at a geodetic position."""
    lam = math.radians(lon_deg)
    phi = math.radians(lat_deg)
    sl, cl = math.sin(lam), math.cos(lam)
    sp, cp = math.sin(phi), math.cos(phi)
    return ((-sl, cl, 0.0), (-sp * cl, -sp * sl, cp), (cp * cl, cp * sl, sp))


def lon_diff_deg(a, b):
    """|a - b| on the circle (degrees)."""
    return abs(((a - b + 180.0) % 360.0) - 180.0)


# --- Lambert-93 -------------------------------------------------------------
GRS80_A = 6378137.0
GRS80_F = 1.0 / 298.257222101
GRS80_E = math.sqrt(GRS80_F * (2.0 - GRS80_F))

L93_PHI0 = math.radians(46.5)
L93_PHI1 = math.radians(44.0)
L93_PHI2 = math.radians(49.0)
L93_LAM0 = math.radians(3.0)
L93_X0 = 700000.0
L93_Y0 = 6600000.0

L93_DOMAIN = (-5.0, 10.0, 41.0, 51.5)     # lon min, lon max, lat min, lat max


def _iso_lat(phi, e):
    """ALG0001: isometric latitude."""
    es = e * math.sin(phi)
    return math.log(math.tan(math.pi / 4.0 + phi / 2.0) * ((1.0 - es) / (1.0 + es)) ** (e / 2.0))


def _grande_normale(phi, a, e):
    s = math.sin(phi)
    return a / math.sqrt(1.0 - e * e * s * s)


def _l93_constants():
    """ALG0054: secant Lambert conformal conic from the two standard parallels."""
    a, e = GRS80_A, GRS80_E
    l1 = _iso_lat(L93_PHI1, e)
    l2 = _iso_lat(L93_PHI2, e)
    n1c = _grande_normale(L93_PHI1, a, e) * math.cos(L93_PHI1)
    n2c = _grande_normale(L93_PHI2, a, e) * math.cos(L93_PHI2)
    n = math.log(n2c / n1c) / (l1 - l2)
    C = n1c / n * math.exp(n * l1)
    Xs = L93_X0
    Ys = L93_Y0 + C * math.exp(-n * _iso_lat(L93_PHI0, e))
    return n, C, Xs, Ys


L93_N, L93_C, L93_XS, L93_YS = _l93_constants()


def lambert93_forward(lon_deg, lat_deg):
    """ALG0003."""
    lam = math.radians(lon_deg)
    phi = math.radians(lat_deg)
    R = L93_C * math.exp(-L93_N * _iso_lat(phi, GRS80_E))
    g = L93_N * (lam - L93_LAM0)
    return (L93_XS + R * math.sin(g), L93_YS - R * math.cos(g))


def lambert93_inverse(X, Y):
    """ALG0004 with ALG0002 iterated to convergence."""
    dx = X - L93_XS
    dy = L93_YS - Y
    R = math.hypot(dx, dy)
    g = math.atan2(dx, dy)
    lam = L93_LAM0 + g / L93_N
    L = -math.log(R / L93_C) / L93_N
    e = GRS80_E
    phi = 2.0 * math.atan(math.exp(L)) - math.pi / 2.0
    for _ in range(100):
        es = e * math.sin(phi)
        new = 2.0 * math.atan(((1.0 + es) / (1.0 - es)) ** (e / 2.0) * math.exp(L)) - math.pi / 2.0
        if abs(new - phi) < 1e-16:
            phi = new
            break
        phi = new
    return (math.degrees(lam), math.degrees(phi))


def in_lambert93_domain(lon_deg, lat_deg):
    lo0, lo1, la0, la1 = L93_DOMAIN
    return lo0 <= lon_deg <= lo1 and la0 <= lat_deg <= la1
