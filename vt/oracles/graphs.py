"""Shared graph space, builders, reference oracle and runtime monitors for the
network properties C06 (shortest distances) and C07 (shortest paths).

A graph *spec* is plain JSON data:

    {"n": 3,                                 # nodes 0..n-1 (isolated nodes allowed)
     "pos": [[x, y], ...],                   # node positions (integer lattice, pairwise distinct)
     "edges": [[u, v, w, o, [[x, y], ...]], ...]}
                                             # stored source u, stored target v, weight w >= 0,
                                             # orientation o in {0 two-way, 1 direct, -1 reverse},
                                             # interior vertices of the polyline (may be empty)

The oracle side (arcs / floyd_warshall / polylines) is stdlib only and does not
look at tracklib.  The builder side creates the *real* tracklib objects.
"""
from __future__ import annotations

import inspect
import itertools
import math

INF = math.inf
W3 = [0, 1, 2]
W6 = [0, 0.5, 1, 2, 2.5, 3]
TOL = 1e-9


# --------------------------------------------------------------------------
# oracle: permitted arcs, all-pairs minima
def arcs(spec):
    """Permitted traversals: (from, to, weight, edge_index, along_storage)."""
    out = []
    for i, e in enumerate(spec["edges"]):
        u, v, w, o = e[0], e[1], e[2], e[3]
        if o >= 0:
            out.append((u, v, w, i, True))
        if o <= 0:
            out.append((v, u, w, i, False))
    return out


def dijkstra_from(n, adj, s):
    """Distances from s over adj[a] = [(b, w)] (non-negative weights), by the standard library's heap."""
    import heapq
    dist = [INF] * n
    dist[s] = 0
    heap = [(0, s)]
    while heap:
        d, a = heapq.heappop(heap)
        if d > dist[a]:
            continue
        for b, w in adj[a]:
            c = d + w
            if c < dist[b]:
                dist[b] = c
                heapq.heappush(heap, (c, b))
    return dist


def floyd_warshall(n, arc_list):
    if n > 40:
        # larger graphs: one Dijkstra per source (same distances; weights are non-negative)
        adj = [[] for _ in range(n)]
        for a, b, w, _i, _f in arc_list:
            adj[a].append((b, w))
        return [dijkstra_from(n, adj, s) for s in range(n)]
    D = [[INF] * n for _ in range(n)]
    for i in range(n):
        D[i][i] = 0  # the empty walk
    for a, b, w, _i, _f in arc_list:
        if w < D[a][b]:
            D[a][b] = w
    for k in range(n):
        Dk = D[k]
        for i in range(n):
            dik = D[i][k]
            if dik == INF:
                continue
            Di = D[i]
            for j in range(n):
                c = dik + Dk[j]
                if c < Di[j]:
                    Di[j] = c
    return D


def close(a, b):
    return abs(a - b) <= TOL * max(1.0, abs(a), abs(b))


def distinct_distances(D):
    return sorted({d for row in D for d in row if d != INF})


# --------------------------------------------------------------------------
# geometry
def default_pos(n):
    """Pairwise distinct integer lattice positions."""
    return [[10 * (i % 4), 10 * (i // 4)] for i in range(n)]


def det_interior(k, pu, pv, nvert):
    """Deterministic, edge-index dependent interior vertices (exhaustive C07
    space): never a lattice point, different for different edge indices."""
    out = []
    for j in range(nvert):
        t = (j + 1) / (nvert + 1)
        x = pu[0] + t * (pv[0] - pu[0]) + 0.5 + k + 0.25 * j
        y = pu[1] + t * (pv[1] - pu[1]) + 1.5 + 2 * k - 0.125 * j
        out.append([x, y])
    return out


def polyline(spec, ei):
    """Vertices of edge ei in *storage* order, ends = node positions."""
    e = spec["edges"][ei]
    pos = spec["pos"]
    inter = e[4] if len(e) > 4 and e[4] else []
    return [list(pos[e[0]])] + [list(p) for p in inter] + [list(pos[e[1]])]


# --------------------------------------------------------------------------
# enumeration of the tiny multigraph space
def edge_types(n, weights):
    return [(u, v, w, o) for u in range(n) for v in range(n) for w in weights for o in (0, 1, -1)]


def tiny_count(max_nodes, max_edges, weights):
    tot = 0
    for n in range(1, max_nodes + 1):
        t = len(edge_types(n, weights))
        for k in range(max_edges + 1):
            tot += math.comb(t + k - 1, k)
    return tot


def tiny_space(max_nodes, max_edges, weights, min_edges=0):
    """Every multigraph with 1..max_nodes nodes and min_edges..max_edges edges
    (multisets of (source, target, weight, orientation)); yields (n, edges)."""
    for n in range(1, max_nodes + 1):
        types = edge_types(n, weights)
        for k in range(min_edges, max_edges + 1):
            for comb in itertools.combinations_with_replacement(types, k):
                yield n, comb


def tiny_spec(n, comb, geom=False):
    pos = default_pos(n)
    edges = []
    for k, (u, v, w, o) in enumerate(comb):
        inter = det_interior(k, pos[u], pos[v], (k + u + 2 * v) % 3) if geom else []
        edges.append([u, v, w, o, inter])
    return {"n": n, "pos": pos, "edges": edges}


# --------------------------------------------------------------------------
# random multigraphs
STYLES = ["mixed", "sparse", "dense", "two_parts", "one_way", "zero_heavy", "parallel_heavy", "ring"]


def random_graph(rng, nmax=12, mmax=40, weights=W6, geom=False, nmin=2):
    n = rng.randint(nmin, nmax)
    style = rng.choice(STYLES)
    lattice = [[10 * x, 10 * y] for x in range(5) for y in range(5)]
    pos = rng.sample(lattice, n)
    if style == "sparse":
        m = rng.randint(0, min(mmax, n + 2))
    elif style == "dense":
        m = rng.randint(min(mmax, n), mmax)
    else:
        m = rng.randint(0, min(mmax, 3 * n + 2))
    group = [0] * n
    if style == "two_parts" and n >= 2:
        cutp = rng.randint(1, n - 1)
        group = [0 if i < cutp else 1 for i in range(n)]
    p_self = 0.08
    p_par = {"parallel_heavy": 0.5}.get(style, 0.15)
    p_zero = {"zero_heavy": 0.55}.get(style, None)
    edges = []
    for k in range(m):
        r = rng.random()
        if edges and r < p_par:
            base = rng.choice(edges)
            u, v = base[0], base[1]
            if rng.random() < 0.5:
                u, v = v, u
        elif r < p_par + p_self:
            u = v = rng.randrange(n)
        elif style == "ring" and n >= 2:
            u = rng.randrange(n)
            v = (u + 1) % n
            if rng.random() < 0.3:
                u, v = v, u
        else:
            u = rng.randrange(n)
            cands = [j for j in range(n) if j != u and group[j] == group[u]]
            if style == "two_parts" and rng.random() < 0.04:
                cands = [j for j in range(n) if group[j] != group[u]]  # a one-way bridge, see below
            if not cands:
                v = u
            else:
                v = rng.choice(cands)
        if style == "one_way":
            # every arc runs from the lower to the higher index: many unreachable ordered pairs
            o = 1 if u <= v else -1
            if rng.random() < 0.1:
                o = 0
        elif style == "two_parts" and group[u] != group[v]:
            o = 1 if group[u] == 0 else -1  # traversable only from part 0 to part 1
        else:
            o = rng.choice([0, 0, 1, -1, 1, -1])
        if p_zero is not None and rng.random() < p_zero:
            w = 0
        else:
            w = rng.choice(weights)
        inter = []
        if geom:
            nv = rng.choice([0, 1, 1, 2, 2])
            for _ in range(nv):
                # multiples of 1/8 strictly off the lattice of node positions
                x = rng.randrange(-16, 400) / 8.0 + 0.0625
                y = rng.randrange(-16, 400) / 8.0 + 0.0625
                inter.append([x, y])
        edges.append([u, v, w, o, inter])
    return {"n": n, "pos": pos, "edges": edges, "style": style}


W_BIG = [0.5, 1, 1, 2, 3, 5, 8, 13, 21, 34, 0]


def big_graph(rng, n, m, geom=False):
    """A network of hundreds of nodes: a grid of streets (so that most nodes are connected) plus random chords,
    one-way streets, parallel edges and self loops; dyadic weights."""
    side = int(math.ceil(math.sqrt(n)))
    pos = [[10 * (i % side), 10 * (i // side)] for i in range(n)]
    edges = []
    for i in range(n):
        for j in (i + 1, i + side):
            if j < n and (j != i + 1 or (i + 1) % side) and rng.random() < 0.8:
                edges.append([i, j, rng.choice(W_BIG), rng.choice([0, 0, 0, 1, -1]), []])
    while len(edges) < m:
        r = rng.random()
        if r < 0.03:
            u = v = rng.randrange(n)
        elif r < 0.10:
            b = rng.choice(edges)
            u, v = (b[0], b[1]) if rng.random() < 0.5 else (b[1], b[0])
        else:
            u, v = rng.randrange(n), rng.randrange(n)
        inter = []
        if geom and rng.random() < 0.3:
            inter = [[rng.randrange(-16, 10 * side * 8) / 8.0 + 0.0625, rng.randrange(-16, 10 * side * 8) / 8.0 + 0.0625]]
        edges.append([u, v, rng.choice(W_BIG), rng.choice([0, 0, 1, -1]), inter])
    rng.shuffle(edges)
    return {"n": n, "pos": pos, "edges": edges, "style": "big"}


def serpentine(rng, n):
    """A long street: nodes 0..n-1 laid out as a serpentine on a grid, consecutive nodes joined by cheap edges (some
    one-way in the direction of increasing index, some stored against it, some doubled by a dearer parallel edge),
    plus a few dear chords.  The shortest route from node 0 to node n-1 has about n hops."""
    side = int(math.ceil(math.sqrt(n)))
    pos = []
    for i in range(n):
        r, c = divmod(i, side)
        pos.append([10 * (c if r % 2 == 0 else side - 1 - c), 10 * r])
    edges = []
    for i in range(n - 1):
        w = rng.choice([0.5, 1, 1, 1, 2])
        if rng.random() < 0.5:
            edges.append([i, i + 1, w, rng.choice([0, 0, 1]), []])
        else:
            edges.append([i + 1, i, w, rng.choice([0, 0, -1]), []])
        if rng.random() < 0.05:
            edges.append([i, i + 1, w + rng.choice([0.5, 3]), 0, []])
    for _ in range(max(2, n // 50)):
        u, v = rng.randrange(n), rng.randrange(n)
        edges.append([u, v, 4.0 * abs(u - v) + 8, 0, []])
    return {"n": n, "pos": pos, "edges": edges, "style": "serpentine"}


class LazyRows:
    """Distance rows computed on demand (one Dijkstra per requested source)."""

    def __init__(self, n, arc_list):
        self.n = n
        self.adj = [[] for _ in range(n)]
        for a, b, w, _i, _f in arc_list:
            self.adj[a].append((b, w))
        self.rows = {}

    def __getitem__(self, s):
        if s not in self.rows:
            self.rows[s] = dijkstra_from(self.n, self.adj, s)
        return self.rows[s]


# --------------------------------------------------------------------------
# classes of a graph (input classes named by the properties)
def graph_classes(spec, D):
    cls = set()
    n = spec["n"]
    seen = {}
    for e in spec["edges"]:
        u, v, w, o = e[0], e[1], e[2], e[3]
        if u == v:
            cls.add("self_loop")
        if w == 0:
            cls.add("zero_weight")
        cls.add({0: "orient_two_way", 1: "orient_direct", -1: "orient_reverse"}[o])
        key = (min(u, v), max(u, v))
        if key in seen:
            cls.add("parallel_edges")
            if any(w != w2 for w2 in seen[key]):
                cls.add("parallel_diff_weight")
        seen.setdefault(key, []).append(w)
        if len(e) > 4 and e[4]:
            cls.add("multi_vertex_geom")
    if any(D[s][t] == INF for s in range(n) for t in range(n)):
        cls.add("unreachable_pair")
    if any(D[s][t] != INF for s in range(n) for t in range(n) if s != t):
        cls.add("reachable_pair")
    if any(D[s][t] == 0 for s in range(n) for t in range(n) if s != t):
        cls.add("zero_distance_pair")
    touched = {e[0] for e in spec["edges"]} | {e[1] for e in spec["edges"]}
    if len(touched) < n:
        cls.add("isolated_node")
    # a pair with two different optimal first arcs = tie
    A = arcs(spec)
    tie = False
    for s in range(n if n <= 40 else 0):
        for t in range(n):
            if s == t or D[s][t] == INF:
                continue
            k = sum(1 for (a, b, w, _i, _f) in A if a == s and b != s and D[b][t] != INF and close(w + D[b][t], D[s][t]))
            if k >= 2:
                tie = True
                break
        if tie:
            break
    if tie:
        cls.add("tie")
    return cls


def sig_of(spec, tag):
    return (tag, spec["n"], tuple((e[0], e[1], e[2], e[3], len(e[4]) if len(e) > 4 and e[4] else 0)
                                  for e in spec["edges"]))


# --------------------------------------------------------------------------
# real objects
def build_network(spec, warm=None):
    """The real tracklib Network for a spec.  Returns (net, node_ids, nodes, edge_ids).
    String identifiers, as produced by tracklib's own network reader.
    warm: a random.Random -- call history on the Network object: routing requests are made when only some of the
    edges are there (their answers concern that smaller graph and are not judged here), then the remaining edges
    are added; every later answer must be about the graph as it is then."""
    from tracklib.core.network import Network, Node, Edge
    from tracklib.core.track import Track
    from tracklib.core.obs import Obs
    from tracklib.core.obs_coords import ENUCoords
    from tracklib.core.obs_time import ObsTime
    n = spec["n"]
    pos = spec["pos"]
    net = Network()
    # identifiers: strings "n<i>" as tracklib's own reader produces them by default; other legal spellings on demand
    # (spec["id_style"]): "digits" = the strings "1".."<n>" (as read from a file whose identifiers are numbers: every
    # character of "12" is itself an identifier), "int" = Python ints 1..n
    st = spec.get("id_style")
    ids = [str(i + 1) if st == "digits" else (i + 1) if st == "int" else "n%d" % i for i in range(n)]
    nodes = [Node(ids[i], ENUCoords(pos[i][0], pos[i][1], 0)) for i in range(n)]
    for nd in nodes:
        net.addNode(nd)
    eids = []
    stage = warm.randrange(0, len(spec["edges"])) if warm is not None and spec["edges"] else None
    for k, e in enumerate(spec["edges"]):
        if stage is not None and k == stage:
            from vt import monitor as _M
            for _ in range(warm.randrange(1, 5)):
                a, b = warm.randrange(n), warm.randrange(n)
                kind = warm.choice(["pair", "path", "list", "table", "cut"])
                if kind == "pair":
                    _M.call(net.shortest_distance, ids[a], ids[b])
                elif kind == "path":
                    _M.call(net.shortest_path, ids[a], ids[b])
                elif kind == "list":
                    _M.call(net.shortest_distance, ids[a])
                elif kind == "table":
                    _M.call(net.all_shortest_distances)
                else:
                    _M.call(net.shortest_distance, ids[a], None, warm.choice([0.0, 0.5, 1.0, 2.0, 3.5]))
            _M.CTX.count("network_queried_before_all_edges_were_added")
        tr = Track()
        for p in polyline(spec, k):
            tr.addObs(Obs(ENUCoords(p[0], p[1], 0), ObsTime()))
        ed = Edge(str(k + 1) if st == "digits" else (k + 1) if st == "int" else "e%d" % k, tr)
        ed.orientation = e[3]
        ed.weight = e[2]
        net.addEdge(ed, nodes[e[0]], nodes[e[1]])
        eids.append(ed.id)
    return net, ids, nodes, eids


def track_coords(tr):
    out = []
    for i in range(tr.size()):
        p = tr.getObs(i).position
        out.append([p.getX(), p.getY()])
    return out


# --------------------------------------------------------------------------
# runtime monitors on the real functions
POP_MONITOR = "pop_smallest.monotone_no_double_settle"
POP_MIN_MONITOR = "pop_smallest.returns_minimum_present_key"
CERT_MONITOR = "forward.dijkstra_certificate"
_installed = {}


def install_pop_monitor():
    """Wrap priority_dict.pop_smallest on the real class.  Per queue instance
    (= one forward search): the popped priorities never decrease and no key is
    popped twice (valid because weights are non-negative and a settled node is
    never re-queued); the popped key was in the queue and carried its minimum
    priority (pop_smallest's own documented contract)."""
    if _installed.get("pop"):
        return
    from vt import monitor as M
    import tracklib.core.utils as U
    cls = U.priority_dict
    orig = cls.__dict__["pop_smallest"]

    def pre(a, k):
        q = a[0]
        if len(q) > 48:
            # large queues (networks of hundreds of nodes): the full copy is taken at every 16th pop only
            c = q.__dict__["_vt_pops"] = q.__dict__.get("_vt_pops", 0) + 1
            if c % 16:
                return None
        return dict(q)  # key -> priority before the pop

    def post_min(before, a, k, result):
        q = a[0]
        if before is None:
            return None
        if not any(result is key for key in before):
            return "popped a key that was not in the queue: %r" % (getattr(result, "id", result),)
        if any(result is key for key in dict.keys(q)):
            return "popped key %r still in the queue" % (getattr(result, "id", result),)
        pr = before[result]
        lo = min(before.values())
        if pr > lo + TOL * max(1.0, abs(lo)):
            return "popped %r with priority %r while the minimum was %r" % (getattr(result, "id", result), pr, lo)
        return None

    def post_mono(before, a, k, result):
        q = a[0]
        st = q.__dict__.setdefault("_vt_pop_state", {"last": None, "seen": [], "ids": set()})
        pr = before.get(result) if before is not None else None
        prob = None
        if id(result) in st["ids"] and any(result is s for s in st["seen"]):
            prob = "key %r settled twice in one search" % (getattr(result, "id", result),)
        elif pr is not None and st["last"] is not None and pr < st["last"] - TOL * max(1.0, abs(st["last"])):
            prob = "priority went backwards: %r after %r (key %r)" % (pr, st["last"], getattr(result, "id", result))
        st["seen"].append(result)
        st["ids"].add(id(result))
        if pr is not None:
            st["last"] = pr
        return prob

    w1 = M.wrap_prepost(orig, pre, post_min, POP_MIN_MONITOR)
    w2 = M.wrap_prepost(w1, pre, post_mono, POP_MONITOR)
    cls.pop_smallest = w2
    _installed["pop"] = True


def _trav(e, a_id, b_id):
    """edge e may be traversed from node a to node b"""
    return ((e.source.id == a_id and e.target.id == b_id and e.orientation >= 0)
            or (e.source.id == b_id and e.target.id == a_id and e.orientation <= 0))


def install_forward_certificate():
    """After each run_routing_forward (Dijkstra mode) check the shortest-path
    certificate on the nodes whose value the search *reports* (settled nodes;
    the target when the search stopped on it without a cut-off): source 0,
    value = value of a settled predecessor + weight of the recorded, traversable
    edge, and no arc between reported nodes is tense."""
    if _installed.get("cert"):
        return
    from vt import monitor as M
    from tracklib.core.network import Network
    orig = Network.__dict__["run_routing_forward"]
    sig = inspect.signature(orig)

    def post(a, k, result):
        b = sig.bind(*a, **k)
        b.apply_defaults()
        net = b.arguments["self"]
        if net.routing_mode != 0:
            return None
        src = getattr(b.arguments["source"], "id", b.arguments["source"])
        tgt = b.arguments["target"]
        tgt = getattr(tgt, "id", tgt)
        cut = b.arguments["cut"]
        settled = {nid for nid, nd in net.NODES.items() if getattr(nd, "visite", False)}
        reported = set(settled)
        if tgt is not None and cut >= 1e300 and tgt in net.NODES and net.NODES[tgt].poids >= 0:
            reported.add(tgt)
        if src in reported and net.NODES[src].poids != 0:
            return "source %r has value %r" % (src, net.NODES[src].poids)
        for nid in reported:
            nd = net.NODES[nid]
            if nid == src:
                continue
            an = nd.antecedent
            if an == "" or not hasattr(an, "id"):
                return "reported node %r (value %r) has no predecessor" % (nid, nd.poids)
            if an.id not in settled:
                return "predecessor %r of %r was not settled" % (an.id, nid)
            e = net.EDGES.get(nd.antecedent_edge)
            if e is None:
                return "node %r records no predecessor edge" % (nid,)
            if not _trav(e, an.id, nid):
                return "recorded edge %r cannot be traversed from %r to %r" % (e.id, an.id, nid)
            if not close(nd.poids, net.NODES[an.id].poids + e.weight):
                return "value of %r is %r but predecessor %r has %r and edge %r weighs %r" % (
                    nid, nd.poids, an.id, net.NODES[an.id].poids, e.id, e.weight)
        for e in net.EDGES.values():
            for (x, y) in ((e.source.id, e.target.id), (e.target.id, e.source.id)):
                if x in settled and y in reported and _trav(e, x, y):
                    if net.NODES[y].poids > net.NODES[x].poids + e.weight + TOL * max(1.0, net.NODES[y].poids):
                        return "tense arc %r -> %r via %r: %r > %r + %r" % (
                            x, y, e.id, net.NODES[y].poids, net.NODES[x].poids, e.weight)
        return None

    Network.run_routing_forward = M.wrap_post(orig, post, CERT_MONITOR)
    _installed["cert"] = True
