"""C10 -- map-matched positions lie on a real edge within the search radius
(DESIGN.md section 4, C10).

Driven: the real tracklib.algo.mapping.mapOnNetwork (candidate search through
the network's SpatialIndex, projection on the edge geometries, HMM decoding,
Network.prepare distances) on small generated road networks.

Oracle (stdlib geometry in vt/oracles/geom.py, network geometry taken from the
case data, not from tracklib): after the call every fix carries an inferred
state that is either the unmatched flag (edge number -1) or
(point, e, d_source, d_target) with 0 <= e < |edges|, point within 1e-6 of edge
e's polyline and within radius + 1e-9 (planar) of the fix, d_source + d_target
= length(e) and d_source = the abscissa of the point along the edge (1e-6);
the track still has the same observations in the same order with unchanged
x / y / z / t.  Completeness of the candidate search and which candidate the
HMM prefers are NOT judged.
"""
from __future__ import annotations

import math

from vt import gen, monitor as M
from vt.gen import held, violated, ood
from vt.oracles import geom as G

PROP = "C10"
RULE = ("one case = one generated road network (grid of 2x2..5x5 nodes, spacing 10-40 m; rotated+jittered, sheared "
        "(horizontal streets stay exactly horizontal), exactly axis-aligned, or axis-aligned up to 1e-7..1e-12 of the spacing; optional diagonals, mid-vertices, one-way edges; "
        "non-contiguous edge ids; computeAbsCurv geometries; spatial index of resolution None / square / non-square; prepare()) "
        "and 3..5 matchings run one after the other in the same process (module-global STATES): tracks of 1..10 fixes walking on, "
        "near (<= 8 m), at vertices of, exactly on grid lines of, and >= 100 m off the network; radius in {1,5,15,50,200}; noise in "
        "{1,10,50}; single Track, re-matching of an already matched Track, or a two-track TrackCollection. Distinct = distinct "
        "(network, matchings). Non-trivial = at least one fix of the case was matched to an edge (edge number >= 0).")
ASSUMPTIONS = ["network geometries are planar (z = 0); 'distance from the observed position' is the planar distance, as in tracklib",
               "the edge number in the inferred state is the edge's position in the network (what SpatialIndex returns), -1 = unmatched",
               "math.hypot is correct; tolerances 1e-6 (on-edge, abscissa sums) and 1e-9 (radius) as in DESIGN.md",
               "completeness of the candidate search and optimality of the decoded sequence are not demanded (C08 / C09 cover them)",
               "an empty track and a spatial index whose cell is larger than the extent are out of domain (never generated)"]
CASE_LIMIT_S = 60.0

KF_VERTICAL = "C10:vertical-edge-projection"
RADII = [1, 5, 15, 50, 200, 0]       # 0: a regular value (only fixes lying on an edge may be matched), not "no radius"
NOISES = [1, 10, 50]
FLAVOURS = ["jitter", "jitter", "jitter", "shear", "axis", "nearaxis"]


# --------------------------------------------------------------------------
def chunks(tier, seed):
    n = 36 if tier == "quick" else 300
    return [{"key": "net%d" % k, "n": n} for k in range(32)]


def floors(tier):
    m = 1 if tier == "quick" else 8
    return {"monitors": {"state.wellformed": 20000 * m, "state.point_on_edge": 6000 * m, "state.within_radius": 6000 * m,
                         "state.abscissa_sum": 6000 * m, "state.abscissa_along_edge": 6000 * m,
                         "track.conserved": 3000 * m},
            # classes count cases (networks) ...
            "classes": {"net:jitter": 300 * m, "net:shear": 100 * m, "net:axis": 100 * m, "net:nearaxis": 100 * m,
                        "index:none": 150 * m, "index:square": 150 * m, "index:nonsquare": 150 * m,
                        "match:collection": 200 * m, "match:rematch": 200 * m, "rematch_after_the_fixes_were_moved_in_place": 100 * m, "match:single-fix": 100 * m,
                        "radius:1": 200 * m, "radius:5": 200 * m, "radius:15": 200 * m, "radius:50": 200 * m,
                        "radius:200": 200 * m,
                        "edge:horizontal-leg": 100 * m, "edge:vertical-leg": 100 * m, "edge:midvertex": 300 * m,
                        "edge:oneway": 300 * m,
                        "matched-on:horizontal-leg-edge": 50 * m, "edge_geometries_of_100+_vertices": 10 * m,
                        "history_network_moved_in_place_and_prepared_again": 200 * m},
            # ... counters count fixes
            "counters": {"fix:on": 2000 * m, "fix:near": 2000 * m, "fix:vertex": 500 * m, "fix:far": 500 * m,
                         "fix:gridline": 500 * m, "fix:off": 100 * m,
                         "outcome:matched": 6000 * m, "outcome:unmatched": 3000 * m,
                         "matchings": 3000 * m,
                         "fix_with_edge_in_ring_radius_to_2radius": 1000 * m},
            "distinct_nontrivial": 600 * m}


def setup(ctx):
    import tracklib.algo.mapping  # noqa: F401


# --------------------------------------------------------------------------
# generators (everything concrete goes into the case)
def _gen_network(rng):
    flavour = rng.choice(FLAVOURS)
    nx, ny = rng.randint(2, 5), rng.randint(2, 5)
    if flavour in ("axis", "nearaxis"):
        sp = float(rng.choice([10, 15, 20, 25, 40]))
        x0, y0 = float(rng.randint(-50, 50)), float(rng.randint(-50, 50))
    else:
        sp = rng.uniform(10, 40)
        x0, y0 = rng.uniform(-500, 500), rng.uniform(-500, 500)
    th = rng.uniform(0.05, math.pi / 2 - 0.05) * rng.choice([-1, 1])
    shear = rng.uniform(0.1, 0.6) * rng.choice([-1, 1])
    jit = rng.uniform(0, 0.15) * sp
    nodes = {}
    for i in range(nx):
        for j in range(ny):
            x, y = i * sp, j * sp
            if flavour == "jitter":
                x += rng.uniform(-jit, jit)
                y += rng.uniform(-jit, jit)
                x, y = x * math.cos(th) - y * math.sin(th), x * math.sin(th) + y * math.cos(th)
            elif flavour == "shear":
                x = x + shear * y                       # rows keep their exact ordinate
            elif flavour == "nearaxis":
                # streets miss the axis directions by 1e-7 .. 1e-12 of their length
                x += sp * rng.choice([1e-7, 1e-9, 1e-11, 1e-12]) * rng.uniform(-1, 1)
                y += sp * rng.choice([1e-7, 1e-9, 1e-11, 1e-12]) * rng.uniform(-1, 1)
            nodes[i * ny + j] = [x0 + x, y0 + y]
    edges = []
    eid = rng.randint(1, 50)
    mids = rng.random() < 0.5
    for i in range(nx):
        for j in range(ny):
            a = i * ny + j
            for di, dj in ((1, 0), (0, 1), (1, 1), (1, -1)):
                if not (0 <= i + di < nx and 0 <= j + dj < ny):
                    continue
                if di and dj and rng.random() > 0.25:
                    continue                             # a few diagonals
                if not (di and dj) and rng.random() < 0.08:
                    continue                             # a few missing streets
                b = (i + di) * ny + (j + dj)
                pa, pb = nodes[a], nodes[b]
                pts = [list(pa)]
                if mids and rng.random() < 0.5:
                    k = rng.randint(1, 2)
                    for m in range(1, k + 1):
                        t = m / (k + 1.0)
                        mx, my = pa[0] + t * (pb[0] - pa[0]), pa[1] + t * (pb[1] - pa[1])
                        if flavour == "jitter":
                            mx += rng.uniform(-0.1, 0.1) * sp
                            my += rng.uniform(-0.1, 0.1) * sp
                        elif rng.random() < 0.3:
                            # a dog-leg made of axis-parallel pieces keeps the flavour's exact alignments
                            if flavour == "axis":
                                mx, my = (pa[0], my) if rng.random() < 0.5 else (mx, pa[1])
                        pts.append([mx, my])
                pts.append(list(pb))
                vee = False
                if flavour == "axis" and pa[1] == pb[1] and pa[0] != pb[0] and rng.random() < 0.35:
                    # ties: a symmetric V-shaped street (apex above or below the middle of a horizontal street; lattice
                    # coordinates, so a fix on the axis of the V is EXACTLY equidistant from its two legs, with two
                    # different nearest points)
                    hgt = rng.choice([-1, 1]) * sp * rng.choice([0.25, 0.5])
                    pts = [list(pa), [(pa[0] + pb[0]) / 2.0, pa[1] + hgt], list(pb)]
                    vee = True
                if rng.random() < 0.5:
                    pts.reverse()
                    a2, b2 = b, a
                else:
                    a2, b2 = a, b
                orient = rng.choice([0, 0, 0, 1, -1])
                edges.append({"id": eid, "s": a2, "t": b2, "pts": pts, "o": orient})
                if vee:
                    edges[-1]["vee"] = 1
                eid += rng.randint(1, 9)
    if not edges:
        pa, pb = nodes[0], nodes[1]
        edges.append({"id": eid, "s": 0, "t": 1, "pts": [list(pa), list(pb)], "o": 0})
    rng.shuffle(edges)
    dense = rng.random() < 0.04
    if dense:
        # larger scale: edge geometries of 100+ vertices (a digitised road: every leg is subdivided into collinear
        # pieces, so the geometry and its exact alignments are the same)
        for e in edges:
            nv = rng.choice([101, 130, 350, 520])
            legs = len(e["pts"]) - 1
            k = -(-nv // legs)
            pts = []
            for a, b in zip(e["pts"], e["pts"][1:]):
                for m in range(k):
                    pts.append([a[0] + (b[0] - a[0]) * m / k if b[0] != a[0] else a[0],
                                a[1] + (b[1] - a[1]) * m / k if b[1] != a[1] else a[1]])
            pts.append(list(e["pts"][-1]))
            e["pts"] = pts
    # spatial index
    xs = [p[0] for e in edges for p in e["pts"]]
    ys = [p[1] for e in edges for p in e["pts"]]
    w, h = max(xs) - min(xs), max(ys) - min(ys)
    ik = rng.choice(["none", "square", "nonsquare"])
    if w <= 0 or h <= 0:
        ik = "none"
    if ik == "none":
        res = None
    elif ik == "square":
        c = min(w, h) / (rng.choice([1, 2, 3, 5, 8, 13]) + 0.5)
        res = [c, c]
    else:
        res = [w / (rng.choice([1, 2, 3, 5, 8, 13]) + 0.5), h / (rng.choice([1, 2, 4, 7, 11]) + 0.5)]
        if abs(res[0] - res[1]) < 1e-9:
            res[1] *= 0.5
    margin = rng.choice([0.05, 0.15, 0.5, 1.0])
    return {"flavour": flavour, "sp": sp, "nodes": {str(k): v for k, v in nodes.items()}, "edges": edges,
            "index": {"kind": ik, "resolution": res, "margin": margin}, "dense": dense}


def _point_on(rng, e):
    pts = e["pts"]
    i = rng.randrange(len(pts) - 1)
    if len(pts) > 100 and rng.random() < 0.4:
        i = rng.choice([rng.randrange(0, 12), rng.randrange(len(pts) - 13, len(pts) - 1)])   # near an end of a long edge
    t = rng.choice([rng.random(), 0.5, 0.25, rng.uniform(0, 0.03), rng.uniform(0.97, 1)])
    a, b = pts[i], pts[i + 1]
    return [a[0] + t * (b[0] - a[0]), a[1] + t * (b[1] - a[1])]


def _gen_track(rng, net):
    edges = net["edges"]
    n = rng.choice([1, 2, 3, 4, 5, 6, 7, 8, 9, 10])
    xs = [p[0] for e in edges for p in e["pts"]]
    ys = [p[1] for e in edges for p in e["pts"]]
    xmin, xmax, ymin, ymax = min(xs), max(xs), min(ys), max(ys)
    style = rng.choice(["walk", "walk", "mixed", "near", "far"])
    fixes = []
    e = rng.choice(edges)
    for k in range(n):
        if style == "walk":
            kind = rng.choice(["on", "on", "near", "vertex", "gridline"])
        elif style == "near":
            kind = rng.choice(["near", "near", "on"])
        elif style == "far":
            kind = rng.choice(["far", "far", "far", "near"])
        else:
            kind = rng.choice(["on", "near", "vertex", "far", "gridline", "off"])
        # move along the network: stay, or hop to an edge sharing a node
        if rng.random() < 0.6:
            nb = [f for f in edges if f is not e and ({f["s"], f["t"]} & {e["s"], e["t"]})]
            if nb:
                e = rng.choice(nb)
        vees = [f for f in edges if f.get("vee") and len(f["pts"]) == 3]
        if vees and rng.random() < 0.3:
            # a fix on the axis of a V-shaped street: exactly equidistant from its two legs
            f = rng.choice(vees)
            apex, end = f["pts"][1], f["pts"][0]
            hgt = end[1] - apex[1]
            p = [apex[0], apex[1] + hgt * rng.choice([0.25, 0.5, 0.75, 1.5])]
            kind = "near"
            M.CTX.count("fix_equidistant_from_two_legs_of_one_edge")
        elif kind == "on":
            p = _point_on(rng, e)
        elif kind == "vertex":
            p = list(rng.choice(e["pts"]))
        elif kind == "near":
            q = _point_on(rng, e)
            r = rng.choice([0.3, 2.0, 8.0])
            p = [q[0] + rng.uniform(-r, r), q[1] + rng.uniform(-r, r)]
        elif kind == "gridline":
            # same abscissa (resp. ordinate) as a vertex of the edge, somewhere along / beside the street
            v = rng.choice(e["pts"])
            if rng.random() < 0.5:
                p = [v[0], v[1] + rng.choice([rng.uniform(-1, 1) * net["sp"], 0.5 * net["sp"], 3.0, -2.5])]
            else:
                p = [v[0] + rng.choice([rng.uniform(-1, 1) * net["sp"], 0.5 * net["sp"], 3.0, -2.5]), v[1]]
        elif kind == "off":
            d = rng.uniform(10, 60)
            p = rng.choice([[xmin - d, rng.uniform(ymin, ymax)], [xmax + d, rng.uniform(ymin, ymax)],
                            [rng.uniform(xmin, xmax), ymin - d], [rng.uniform(xmin, xmax), ymax + d]])
        else:  # far: at least 100 m away from the bounding box of the network
            d = rng.uniform(100, 1500)
            p = rng.choice([[xmin - d, rng.uniform(ymin - d, ymax + d)], [xmax + d, rng.uniform(ymin - d, ymax + d)],
                            [rng.uniform(xmin - d, xmax + d), ymin - d], [rng.uniform(xmin - d, xmax + d), ymax + d]])
        z = rng.choice([0.0, 0.0, 0.0, 12.5, rng.uniform(-5, 300)])
        fixes.append([p[0], p[1], z, kind])
    t0 = rng.randrange(0, 3 * 10 ** 9) * 1
    times, t = [], t0
    for k in range(n):
        times.append(t)
        t += rng.choice([1000, 1000, 500, 15000, 1, 60000])
    return {"fixes": fixes, "times_ms": times}


def cases(chunk):
    rng = gen.rng_for(PROP, chunk)
    for it in range(chunk["n"]):
        net = _gen_network(rng)
        matchings = []
        for m in range(rng.randint(3, 5)):
            mode = rng.choice(["single", "single", "single", "collection", "rematch"])
            mt = {"mode": mode, "radius": rng.choice(RADII), "noise": rng.choice(NOISES),
                  "tcost": rng.choice([10, 10, 1, 50]), "tracks": [_gen_track(rng, net)]}
            if mode == "collection":
                mt["tracks"].append(_gen_track(rng, net))
            if mode == "rematch":
                mt["radius2"] = rng.choice(RADII)
                if rng.random() < 0.5:
                    # the caller moves the fixes of the SAME track object in place between the two requests (a datum
                    # shift, a correction) and asks again, half of the time with the very same search radius
                    mt["moved"] = rng.choice([[7.5, -4.0], [40.0, 0.0], [-3.0, 12.5], [0.0, 25.0]])
                    if rng.random() < 0.5:
                        mt["radius2"] = mt["radius"]
            matchings.append(mt)
        yield {"net": net, "matchings": matchings}


# --------------------------------------------------------------------------
# building the real objects
def build_network(net):
    from tracklib.core.obs_coords import ENUCoords
    from tracklib.core.obs import Obs
    from tracklib.core.obs_time import ObsTime
    from tracklib.core.track import Track
    from tracklib.core.network import Network, Node, Edge
    from tracklib.core.spatial_index import SpatialIndex
    from tracklib.algo.cinematics import computeAbsCurv
    network = Network()
    for e in net["edges"]:
        tr = Track([], 1)
        for p in e["pts"]:
            tr.addObs(Obs(ENUCoords(p[0], p[1], 0.0), ObsTime(1970, 1, 1, 0, 0, 0, 0)))
        computeAbsCurv(tr)
        edge = Edge(e["id"], tr)
        edge.orientation = e["o"]
        edge.weight = tr.length()
        ns, nt = net["nodes"][str(e["s"])], net["nodes"][str(e["t"])]
        network.addEdge(edge, Node(e["s"], ENUCoords(ns[0], ns[1], 0.0)), Node(e["t"], ENUCoords(nt[0], nt[1], 0.0)))
    ix = net["index"]
    res = tuple(ix["resolution"]) if ix["resolution"] is not None else None
    network.spatial_index = SpatialIndex(network, resolution=res, margin=ix["margin"], verbose=False)
    network.prepare(verbose=False)
    return network


def _snapshot(track):
    return [(o.position.getX(), o.position.getY(), o.position.getZ(), gen.obstime_fields(o.timestamp))
            for o in track]


def _has_vertical_leg(e):
    p = e["pts"]
    return any(p[i][0] == p[i + 1][0] and p[i][1] != p[i + 1][1] for i in range(len(p) - 1))


def _has_horizontal_leg(e):
    p = e["pts"]
    return any(p[i][1] == p[i + 1][1] and p[i][0] != p[i + 1][0] for i in range(len(p) - 1))


def judge_state(net, fix, state, radius, ctx=None):
    """None or a description of what is wrong with one inferred state."""
    mon = ctx.monitor if ctx is not None else (lambda name: None)
    mon("state.wellformed")
    if not isinstance(state, (tuple, list)) or len(state) != 4:
        return "inferred state is not a (point, edge, d_source, d_target) tuple: %r" % (state,), None
    pt, e, ds, dt = state
    try:
        e_ok = int(e) == e
    except (TypeError, ValueError):
        e_ok = False
    if not e_ok:
        return "edge number %r is not an integer" % (e,), None
    e = int(e)
    if e == -1:
        return None, -1
    edges = net["edges"]
    if not (0 <= e < len(edges)):
        return "edge number %d does not designate an edge (network has %d)" % (e, len(edges)), e
    try:
        px, py = float(pt.getX()), float(pt.getY())
        ds, dt = float(ds), float(dt)
    except Exception:
        return "state components are not numeric: %r" % (state,), e
    if not all(math.isfinite(v) for v in (px, py, ds, dt)):
        return "state components are not finite", e
    pts = edges[e]["pts"]
    mon("state.point_on_edge")
    off = G.point_polyline_dist((px, py), pts)
    if off > 1e-6:
        return "matched point (%.9g, %.9g) is %.3g away from the geometry of edge #%d" % (px, py, off, e), e
    mon("state.within_radius")
    d = math.hypot(fix[0] - px, fix[1] - py)
    if d > radius + 1e-9:
        return "matched point is %.9g from the fix, search radius is %g" % (d, radius), e
    mon("state.abscissa_sum")
    L = G.polyline_length(pts)
    if abs(ds + dt - L) > 1e-6:
        return "d_source + d_target = %.9g but edge #%d is %.9g long" % (ds + dt, e, L), e
    mon("state.abscissa_along_edge")
    cum = G.cumulative_lengths(pts)
    ok = False
    for i in G.legs_carrying((px, py), pts, 1e-6):
        if abs(cum[i] + G.dist(pts[i], (px, py)) - ds) <= 2e-6:
            ok = True
            break
    if not ok or ds < -1e-6 or dt < -1e-6:
        return "d_source = %.9g / d_target = %.9g are not the distances to the end nodes measured along edge #%d" \
            % (ds, dt, e), e
    return None, e


# --------------------------------------------------------------------------
def _run_matching(case, network, mt, mi, ctx, cls, stats):
    """-> witness dict or None"""
    from tracklib.algo.mapping import mapOnNetwork
    from tracklib.core.track_collection import TrackCollection
    net = case["net"]
    tracks = [gen.make_track([f[:3] for f in t["fixes"]], times_ms=t["times_ms"]) for t in mt["tracks"]]
    if mi % 3 == 1:
        tracks = [gen.derive(t, (mi, k, mt["radius"]), allow=gen.DERIVE_HOWS + ["hidden_slots", "hidden_slots"])[0] for k, t in enumerate(tracks)]
    snaps = [_snapshot(t) for t in tracks]
    obs_ids = [[id(o) for o in t] for t in tracks]
    radius = mt["radius"]
    cls.add("radius:%d" % radius)
    cls.add("noise:%d" % mt["noise"])
    cls.add("match:" + mt["mode"])
    rounds = [radius]
    if mt["mode"] == "rematch":
        rounds.append(mt["radius2"])
    specs = list(mt["tracks"])
    for rnd, rad in enumerate(rounds):
        ctx.count("matchings")
        if rnd == 1 and mt.get("moved"):
            dx, dy = mt["moved"]
            for t in tracks:
                for o in t:
                    o.position.setX(o.position.getX() + dx)
                    o.position.setY(o.position.getY() + dy)
            specs = [dict(sp, fixes=[[f[0] + dx, f[1] + dy] + list(f[2:]) for f in sp["fixes"]]) for sp in specs]
            snaps = [_snapshot(t) for t in tracks]
            cls.add("rematch_after_the_fixes_were_moved_in_place")
        arg = tracks[0] if mt["mode"] != "collection" else TrackCollection(tracks)
        verbose = (mi + rnd + len(tracks[0])) % 4 == 1          # the documented verbose option (progress bars)
        if verbose:
            r = M.call(mapOnNetwork, arg, network, mt["noise"], mt["tcost"], rad, False, None, True)
            cls.add("verbose_option")
        else:
            r = M.call(mapOnNetwork, arg, network, mt["noise"], mt["tcost"], rad)
        base = {"matching": mi, "mode": mt["mode"], "round": rnd, "radius": rad, "noise": mt["noise"],
                "verbose": verbose}
        if M.is_raised(r):
            w = dict(base)
            w.update({"what": "mapOnNetwork raised " + r.brief(), "raised": r})
            return w
        for ti, (trk, spec, snap) in enumerate(zip(tracks, specs, snaps)):
            ctx.monitor("track.conserved")
            now = M.call(_snapshot, trk)
            if M.is_raised(now) or now != snap:
                w = dict(base)
                w.update({"what": "the track's observations changed (count, order, x/y/z or timestamp)", "track": ti,
                          "before": snap, "after": now})
                return w
            if [id(o) for o in trk] != obs_ids[ti]:
                ctx.count("observation_objects_replaced")
            if len(spec["fixes"]) == 1:
                cls.add("match:single-fix")
            for k, f in enumerate(spec["fixes"]):
                st = M.call(lambda: trk["hmm_inference", k])
                if M.is_raised(st):
                    w = dict(base)
                    w.update({"what": "no inferred state readable for fix %d: %s" % (k, st.brief()), "track": ti,
                              "fix": k, "raised": st})
                    return w
                prob, e = judge_state(net, f, st, rad, ctx)
                ctx.count("fix:" + f[3])
                if prob:
                    w = dict(base)
                    w.update({"what": prob, "track": ti, "fix": k, "fix_xyz_kind": f, "state": repr(st)[:300],
                              "edge": e})
                    if e is not None and 0 <= e < len(net["edges"]):
                        w["edge_pts"] = net["edges"][e]["pts"]
                    return w
                if e == -1:
                    stats["unmatched"] += 1
                    ctx.count("outcome:unmatched")
                else:
                    stats["matched"] += 1
                    ctx.count("outcome:matched")
                    if _has_vertical_leg(net["edges"][e]):
                        cls.add("matched-on:vertical-leg-edge")
                    if _has_horizontal_leg(net["edges"][e]):
                        cls.add("matched-on:horizontal-leg-edge")
                # is there an edge in the ring (radius, 2 radius]?  (sensitivity of the radius monitor)
                for ed in net["edges"]:
                    dd = G.point_polyline_dist(f, ed["pts"])
                    if rad < dd <= 2 * rad:
                        ctx.count("fix_with_edge_in_ring_radius_to_2radius")
                        break
    return None


def run_case(case, ctx):
    net = case["net"]
    cls = set(["net:" + net["flavour"], "index:" + net["index"]["kind"]])
    if net.get("dense"):
        cls.add("edge_geometries_of_100+_vertices")
    if any(_has_vertical_leg(e) for e in net["edges"]):
        cls.add("edge:vertical-leg")
    if any(_has_horizontal_leg(e) for e in net["edges"]):
        cls.add("edge:horizontal-leg")
    if any(len(e["pts"]) > 2 for e in net["edges"]):
        cls.add("edge:midvertex")
    if any(e["o"] != 0 for e in net["edges"]):
        cls.add("edge:oneway")
    sig = (repr(net["nodes"]), repr(net["edges"]), repr(net["index"]), repr(case["matchings"]))
    xs_ = [p[0] for e in net["edges"] for p in e["pts"]]
    ys_ = [p[1] for e in net["edges"] for p in e["pts"]]
    if max(xs_) == min(xs_) or max(ys_) == min(ys_):
        # the whole network lies on one horizontal or vertical line: the grid index cannot be built on a zero-width /
        # zero-height extent (out of the domain of the index, see C08)
        return gen.ood("network extent has zero width or height", sorted(cls))
    network = M.call(build_network, net)
    if M.is_raised(network):
        # building the network / index / prepared distances is not C10's subject (C06-C08): inconclusive input
        raise M.HarnessError("network construction failed: " + network.brief() + "\n" + network.tb)
    stats = {"matched": 0, "unmatched": 0}
    known = None
    for mi, mt in enumerate(case["matchings"]):
        w = _run_matching(case, network, mt, mi, ctx, cls, stats)
        if w:
            w["net_flavour"] = net["flavour"]
            w["index"] = net["index"]
            if classify(case, w) is None:
                return violated(w, sig, stats["matched"] > 0, sorted(cls))
            # an open finding: remember it, but keep judging the remaining
            # matchings so that it cannot mask a different violation
            ctx.count("matchings_hitting_open_finding")
            if known is None:
                known = w
    if known is None and (len(net["edges"]) + len(case["matchings"]) + len(net["nodes"])) % 3 == 0:
        # aliasing / call history: the caller moves the network IN PLACE after it was used (every vertex of every edge
        # geometry and every node, same vertex counts), rebuilds the spatial index and the prepared distances as the
        # documentation asks, and matches a track moved the same way: the answers must be about the geometry as it
        # is NOW
        import copy as _copy
        from tracklib.core.spatial_index import SpatialIndex
        dx, dy = 2.5, -1.5                  # a correction of a few metres: what was near stays near
        interior_only = (len(net["edges"]) + len(net["nodes"])) % 2 == 1 and any(len(e["pts"]) > 2 for e in net["edges"])
        if interior_only:
            # ... or only the INTERIOR vertices of the multi-vertex edges are corrected (a bend digitised again): nodes,
            # end points and vertex counts stay; the curvilinear abscissas of those geometries are computed again
            from tracklib.algo.cinematics import computeAbsCurv
            for e in network.EDGES.values():
                obs_ = e.geom.getObsList()
                if len(obs_) > 2:
                    for o in obs_[1:-1]:
                        o.position.setX(o.position.getX() + dx)
                        o.position.setY(o.position.getY() + dy)
                    M.call(e.geom.removeAnalyticalFeature, "abs_curv")
                    M.call(computeAbsCurv, e.geom)
            cls.add("history_interior_vertices_of_edges_moved_in_place")
        else:
            for e in network.EDGES.values():
                for o in e.geom.getObsList():
                    o.position.setX(o.position.getX() + dx)
                    o.position.setY(o.position.getY() + dy)
            for nd in network.NODES.values():
                nd.coord.setX(nd.coord.getX() + dx)
                nd.coord.setY(nd.coord.getY() + dy)
        ix = net["index"]
        res = tuple(ix["resolution"]) if ix["resolution"] is not None else None
        rb = M.call(lambda: (setattr(network, "spatial_index", SpatialIndex(network, resolution=res, margin=ix["margin"],
                                                                           verbose=False)), network.prepare(verbose=False)))
        if M.is_raised(rb):
            raise M.HarnessError("re-preparing the moved network failed: " + rb.brief())
        net2 = _copy.deepcopy(net)
        mt2 = _copy.deepcopy(case["matchings"][0])
        mt2["mode"] = "single" if mt2["mode"] == "rematch" else mt2["mode"]
        mt2.pop("moved", None)
        if interior_only:
            for e in net2["edges"]:
                if len(e["pts"]) > 2:
                    e["pts"] = [e["pts"][0]] + [[q[0] + dx, q[1] + dy] for q in e["pts"][1:-1]] + [e["pts"][-1]]
        else:
            net2["nodes"] = {k: [v[0] + dx, v[1] + dy] for k, v in net["nodes"].items()}
            for e in net2["edges"]:
                e["pts"] = [[q[0] + dx, q[1] + dy] for q in e["pts"]]
            for t in mt2["tracks"]:
                t["fixes"] = [[f[0] + dx, f[1] + dy, f[2], f[3]] for f in t["fixes"]]
        case2 = dict(case, net=net2, matchings=list(case["matchings"]) + [mt2])
        w = _run_matching(case2, network, mt2, len(case["matchings"]), ctx, cls, stats)
        cls.add("history_network_moved_in_place_and_prepared_again")
        if w:
            w["history"] = "the network was moved in place by (%r, %r), indexed and prepared again, then matched" % (dx, dy)
            w["net_flavour"] = net["flavour"]
            if classify(case2, w) is None:
                return violated(w, sig, stats["matched"] > 0, sorted(cls))
            known = w
    if known is not None:
        return violated(known, sig, stats["matched"] > 0, sorted(cls))
    res_ = held(sig, stats["matched"] > 0, sorted(cls))
    moved = "history_network_moved_in_place_and_prepared_again" in cls
    case_now = case2 if moved else case
    mt_now = dict(case_now["matchings"][-1] if moved else case_now["matchings"][0])
    mt_now["mode"] = "single" if mt_now["mode"] == "rematch" else mt_now["mode"]

    def again():
        # the same Network object (index, prepared distances), matched again after another case (another network) was
        # built and matched in between
        idx = len(case_now["matchings"]) - 1 if moved else 0
        w = _run_matching(case_now, network, mt_now, idx, ctx, set(), {"matched": 0, "unmatched": 0})
        if w and classify(case_now, w) is None:
            w["what"] = ("matching on a network that was used before, again after ANOTHER network was built and matched in "
                         "between: " + str(w.get("what")))
            return w
        return None
    res_["again"] = again
    return res_


# --------------------------------------------------------------------------
def classify(case, witness):
    """C10:vertical-edge-projection <=> mapOnNetwork raised ZeroDivisionError
    (the C20 vertical-segment crash) and the network has an edge with an exactly
    vertical leg (x1 == x2) whose abscissa equals the abscissa of a fix of the
    matching that failed.  Anything else is a fresh violation."""
    if not isinstance(witness, dict):
        return None
    r = witness.get("raised")
    if r is None:
        return None
    rtype = r.type if isinstance(r, M.Raised) else str(r.get("raised", "") if isinstance(r, dict) else r).split(":")[0]
    if rtype != "ZeroDivisionError" or not str(witness.get("what", "")).startswith("mapOnNetwork raised"):
        return None
    tb = r.tb if isinstance(r, M.Raised) else (r.get("traceback", "") if isinstance(r, dict) else "")
    if "proj_segment" not in tb:
        return None
    try:
        k = int(witness["matching"])
        # the matching that follows the listed ones is the first one repeated after the network (and the track) were
        # moved in place by one and the same vector: "a fix has the abscissa of a vertical leg" is the same statement
        # before and after that move
        mt = case["matchings"][k] if k < len(case["matchings"]) else case["matchings"][0]
    except Exception:
        return None
    xs = set()
    for e in case["net"]["edges"]:
        p = e["pts"]
        for i in range(len(p) - 1):
            if p[i][0] == p[i + 1][0] and p[i][1] != p[i + 1][1]:
                xs.add(p[i][0])
    # second round of a re-matching whose fixes the caller moved in place: the abscissas are the moved ones
    dx = mt["moved"][0] if mt.get("moved") and witness.get("round") == 1 and k < len(case["matchings"]) else 0.0
    for t in mt["tracks"]:
        for f in t["fixes"]:
            if f[0] + dx in xs:
                return KF_VERTICAL
    return None
