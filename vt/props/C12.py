"""C12 -- optimal partitioning returns a global optimum for the requested
direction; stop detection and optimal simplification delegate to it correctly
(DESIGN.md section 4, C12).

Monitor: a recording contract wrapped around the *real* ``optimalPartition``
and patched into every tracklib module that holds a reference to it (the
delegates look it up in ``tracklib.algo.segmentation``).  For every call it
copies the matrix before the call and, after it, checks by enumeration of all
2^(N-2) strictly increasing index lists 0..N-1 that the returned list has that
shape and that its summed cost is the minimum (resp. maximum) -- for exactly
the matrix and direction the caller handed over.  The property module then
checks, per delegate, that the direction handed down is the documented one and
that the delegate's output consists of exactly the fixes / stops at the
recorded indices.  Which of several optimal lists is returned is left free.

Matrices follow tracklib's own convention: shape (N+1)x(N+1) for N break
candidates, last row/column unused (zero, as the callers leave them).
N < 2 (degenerate result [0, 0] / IndexError) is out of domain.
"""
from __future__ import annotations

import hashlib
import importlib
import json
import numbers
import random as _stdrandom

from vt import gen, monitor as M
from vt.gen import held, violated, ood

PROP = "C12"
RULE = ("direct: symmetric matrices over N candidates in tracklib's (N+1)^2 convention, each run with MINIMIZE, MAXIMIZE and "
        "the default direction -- every {0,1,2}-valued matrix for N<=4 (quick) / N<=5 (thorough), every {0,1}-valued for "
        "N=6 (thorough; strided in quick), random reals for N=2..12 (uniform, small integers with many ties, signed, "
        "sparse rewards, entries of 1e300 as tracklib's own strict-deviation cost produces, non-zero diagonals); "
        "delegates: optimalSegmentation / optimalSimplification with harness cost functions (table driven, chord length "
        "read from the track) with and without a global parameter and with every way of passing the direction, "
        "simplify modes 7 and 8 with custom functions, simplify modes 4-6 on tracks in general position, findStopsGlobal "
        "on 6..14-fix tracks with 0..2 dwell clusters. Distinct = distinct matrix resp. distinct delegate input; "
        "non-trivial = N>=3 and the minimum and maximum over all partitions differ (a wrong direction or a missed split "
        "changes the value).")
ASSUMPTIONS = ["enumeration of all 2^(N-2) index lists with left-to-right float sums is the reference (tolerance 1e-9 of the "
               "largest magnitude involved)",
               "only the upper triangle above the diagonal carries costs; diagonal, last row and last column are unused",
               "harness cost functions are pure; tracks for simplify modes 4-6 have no three collinear fixes and no two "
               "fixes with equal abscissa or ordinate (tracklib's convex hull / bounding rectangle are undefined there)"]
EXHAUSTIVE = {"quick": "all 759 symmetric {0,1,2}-valued matrices for N=2..4, three directions each (N=5 and {0,1}-valued "
                       "N=6 are strided 1/3 and 1/2)",
              "thorough": "all symmetric {0,1,2}-valued matrices for N=2..5 (59 808) and all {0,1}-valued for N=6 (32 768), "
                          "three directions each"}
CASE_LIMIT_S = 20.0

MIN, MAX = 0, 1          # documented values of MODE_SEGMENTATION_MINIMIZE / MAXIMIZE
ENUM_MAX_N = 15
DAG_MAX_N = 600
MONITOR = "optimalPartition.optimal_for_matrix"

REC = []                 # calls recorded during the current case
_state = {"installed": False, "seg": None, "sim": None}


# --------------------------------------------------------------------------
# oracle: enumeration of all strictly increasing lists 0 .. N-1
_cache = {"key": None, "val": None}


def dag_optima(C, N):
    """Exact optimum over all strictly increasing lists 0 .. N-1 for any N: best[j] = opt_i<j best[i] + C[i][j]
    (a shortest / longest path in the complete DAG; not the interval recursion tracklib uses)."""
    out = []
    for sign in (1, -1):
        best = [0.0] + [None] * (N - 1)
        arg = [None] * N
        for j in range(1, N):
            b, a = None, None
            for i in range(j):
                v = best[i] + C[i][j]
                if b is None or sign * v < sign * b:
                    b, a = v, i
            best[j], arg[j] = b, a
        lst, j = [N - 1], N - 1
        while j:
            j = arg[j]
            lst.append(j)
        out += [best[N - 1], lst[::-1]]
    return tuple(out)


def enumerate_optima(C, N, with_ties=False):
    """C: list of lists (at least N x N).  Returns (min, argmin list, max,
    argmax list) over all strictly increasing index lists from 0 to N-1
    (plus the number of lists attaining each, exactly, when with_ties).
    The last matrix enumerated is remembered (one slot): the contract and the
    property module look at the same matrix several times."""
    key = (N, repr([row[:N] for row in C[:N]]))
    if _cache["key"] == key:
        v = _cache["val"]
        return v if with_ties else v[:4]
    if N > ENUM_MAX_N:
        v = dag_optima(C, N) + (None, None)
        _cache["key"], _cache["val"] = key, v
        return v if with_ties else v[:4]
    bmin = bmax = None
    lmin = lmax = None
    nmin = nmax = 0
    last = N - 1
    for mask in range(1 << (N - 2)):
        prev = 0
        s = 0.0
        for b in range(N - 2):
            if (mask >> b) & 1:
                s += C[prev][b + 1]
                prev = b + 1
        s += C[prev][last]
        if bmin is None or s < bmin:
            bmin, lmin, nmin = s, mask, 1
        elif s == bmin:
            nmin += 1
        if bmax is None or s > bmax:
            bmax, lmax, nmax = s, mask, 1
        elif s == bmax:
            nmax += 1

    def tolist(mask):
        return [0] + [b + 1 for b in range(N - 2) if (mask >> b) & 1] + [last]
    v = (bmin, tolist(lmin), bmax, tolist(lmax), nmin, nmax)
    _cache["key"], _cache["val"] = key, v
    return v if with_ties else v[:4]


def check_partition(C, N, mode, result):
    """None, or a dict describing why `result` is not an optimal partition of
    the N candidates of matrix C for direction `mode`."""
    try:
        lst = list(result)
    except TypeError:
        return {"what": "result is not a list", "returned": repr(result)[:200]}
    if len(lst) < 2 or any(not isinstance(v, numbers.Integral) or isinstance(v, bool) for v in lst):
        return {"what": "result is not a list of at least two indices", "returned": [repr(v) for v in lst][:20]}
    lst = [int(v) for v in lst]
    if lst[0] != 0 or lst[-1] != N - 1:
        return {"what": "list does not run from the first (0) to the last (%d) candidate" % (N - 1), "returned": lst}
    if any(b <= a for a, b in zip(lst, lst[1:])):
        return {"what": "list is not strictly increasing", "returned": lst}
    if mode not in (MIN, MAX):
        return {"what": "direction handed to optimalPartition is neither MINIMIZE nor MAXIMIZE", "mode": repr(mode)}
    got = 0.0
    for a, b in zip(lst, lst[1:]):
        got += C[a][b]
    bmin, lmin, bmax, lmax = enumerate_optima(C, N)
    if 4 <= N <= 9 and (int(abs(got) * 1000) + N) % 11 == 0:
        d = dag_optima(C, N)
        tol = 1e-9 * N * max([abs(C[a][b]) for a in range(N) for b in range(a + 1, N)] + [1.0])
        if abs(d[0] - bmin) > tol or abs(d[2] - bmax) > tol:
            raise M.HarnessError("oracle self-check failed: DAG recursion %r/%r vs enumeration %r/%r" % (d[0], d[2], bmin, bmax))
        M.CTX.count("oracle_selfcheck_dag_vs_enumeration")
    want, wl = (bmin, lmin) if mode == MIN else (bmax, lmax)
    # relative to the magnitude of the costs themselves (a matrix may be given in units of 1e-10 or 1e13)
    scale = N * max([abs(C[a][b]) for a in range(N) for b in range(a + 1, N)] + [0.0])
    rel = 1e-9
    if scale < 2 ** 52 and all(float(C[a][b]).is_integer() for a in range(N) for b in range(a + 1, N)):
        # integer-valued costs whose sums stay below 2^53: every sum is exact in floating point, on both sides -- the
        # optimum is judged exactly (costs with a large common part and small misfits differ in the last digits only)
        rel = 0.0
        M.CTX.count("integer_valued_costs_judged_exactly")
    if not abs(got - want) <= rel * scale:
        return {"what": "summed cost of the returned list is not the %s over all strictly increasing lists"
                        % ("minimum" if mode == MIN else "maximum"),
                "direction": "MINIMIZE" if mode == MIN else "MAXIMIZE", "returned": lst, "returned_cost": got,
                "optimum": want, "an_optimal_list": wl, "minimum": bmin, "maximum": bmax}
    return None


# --------------------------------------------------------------------------
# the recording contract on the real optimalPartition
def _pre(args, kwargs):
    import numpy as np
    cm = args[0] if args else kwargs.get("cost_matrix")
    return np.array(cm, dtype=float, copy=True)


def _post(tok, args, kwargs, result):
    mode = args[1] if len(args) > 1 else kwargs.get("mode", MIN)
    rec = {"matrix": tok, "mode": mode, "result": result, "problem": None, "checked": False}
    REC.append(rec)
    if tok.ndim != 2 or tok.shape[0] != tok.shape[1]:
        rec["skipped"] = "not a square matrix"
        return None
    N = tok.shape[0] - 1
    rec["N"] = N
    if N < 2:
        rec["skipped"] = "N<2 (out of domain)"
        M.CTX.count("partition_calls_N_lt_2")
        return None
    if N > DAG_MAX_N:
        rec["skipped"] = "too large for the oracle"
        M.CTX.count("partition_calls_too_large")
        return None
    if N > ENUM_MAX_N:
        M.CTX.count("partition_calls_judged_by_the_dag_recursion")
    rec["checked"] = True
    prob = check_partition(tok.tolist(), N, mode, result)
    rec["problem"] = prob
    if prob:
        return json.dumps(M.jsonable(prob))[:900]
    return None


def setup(ctx):
    if _state["installed"]:
        return
    seg = importlib.import_module("tracklib.algo.segmentation")
    sim = importlib.import_module("tracklib.algo.simplification")
    real = seg.optimalPartition
    wrapped = M.wrap_prepost(real, _pre, _post, MONITOR)
    n = M.patch_everywhere(real, wrapped)
    if seg.optimalPartition is not wrapped or n < 1:
        raise M.HarnessError("could not patch optimalPartition where the delegates look it up")
    _state.update(installed=True, seg=seg, sim=sim, real=real, wrapped=wrapped)


# --------------------------------------------------------------------------
# case generation
def n_upper(N):
    return N * (N - 1) // 2


def upper_from_index(N, idx, vals):
    out = []
    nv = len(vals)
    for _ in range(n_upper(N)):
        idx, d = divmod(idx, nv)
        out.append(vals[d])
    return out


def build_matrix(N, upper, diag=None):
    import numpy as np
    C = np.zeros((N + 1, N + 1))
    it = iter(upper)
    for i in range(N):
        for j in range(i + 1, N):
            v = next(it)
            C[i, j] = v
            C[j, i] = v
    if diag:
        for i in range(N):
            C[i, i] = diag[i]
    return C


def general_position(rng, n, span=100.0):
    """n points with no three (nearly) collinear and pairwise distinct x and y."""
    while True:
        pts = [(round(rng.uniform(0, span), 3), round(rng.uniform(0, span), 3)) for _ in range(n)]
        ok = True
        for i in range(n):
            for j in range(i + 1, n):
                if abs(pts[i][0] - pts[j][0]) < 0.05 or abs(pts[i][1] - pts[j][1]) < 0.05:
                    ok = False
        if ok:
            for i in range(n):
                for j in range(i + 1, n):
                    for k in range(j + 1, n):
                        a, b, c = pts[i], pts[j], pts[k]
                        cr = (b[0] - a[0]) * (c[1] - a[1]) - (c[0] - a[0]) * (b[1] - a[1])
                        if abs(cr) < 2.0:
                            ok = False
        if ok:
            return [list(p) for p in pts]


def is_general_position(pts):
    n = len(pts)
    for i in range(n):
        for j in range(i + 1, n):
            if pts[i][0] == pts[j][0] or pts[i][1] == pts[j][1]:
                return False
            for k in range(j + 1, n):
                a, b, c = pts[i], pts[j], pts[k]
                cr = (b[0] - a[0]) * (c[1] - a[1]) - (c[0] - a[0]) * (b[1] - a[1])
                if abs(cr) < 1e-6:
                    return False
    return True


def random_upper(rng, N, fam):
    n = n_upper(N)
    if fam == "uniform":
        return [round(rng.uniform(0, 10), 6) for _ in range(n)]
    if fam == "smallint":
        return [float(rng.randrange(0, 4)) for _ in range(n)]
    if fam == "signed":
        return [round(rng.uniform(-5, 5), 6) for _ in range(n)]
    if fam == "sparse":
        return [float(rng.choice([0, 0, 0, 1, 4, 9, 16])) for _ in range(n)]
    if fam == "tiny_unit":
        # the same kind of costs in a unit where meaningful differences are below 1e-9 (squared degrees, km^2 ...)
        return [round(rng.uniform(0, 10), 6) * 1e-10 for _ in range(n)]
    if fam == "large_unit":
        # costs of 4e13 that differ by units
        return [4e13 + float(rng.randrange(0, 6)) for _ in range(n)]
    if fam == "int_sentinel":
        # small integer costs with the natural INTEGER sentinel for a forbidden segment (2**62); handed over as int64
        return [float(2 ** 62) if rng.random() < 0.35 else float(rng.randrange(0, 6)) for _ in range(n)]
    if fam == "common_part":
        # costs that grow with the length of the segment by a large common amount (1e12 per fix spanned) plus a small
        # misfit: every partition sums to the same large constant plus its misfits (all values exact below 2^53)
        return [1e12 * (j - i) + float(rng.randrange(0, 7)) for i in range(N) for j in range(i + 1, N)]
    if fam == "huge":
        return [1e300 + 1 if rng.random() < 0.4 else 1.0 + round(rng.uniform(0, 3), 3) for _ in range(n)]
    raise M.HarnessError("family " + fam)


def cost_table(rng, n, fam):
    """n x n symmetric table for the table-driven harness cost function."""
    up = random_upper(rng, n, fam)
    it = iter(up)
    T = [[0.0] * n for _ in range(n)]
    for i in range(n):
        for j in range(i + 1, n):
            T[i][j] = T[j][i] = next(it)
    for i in range(n):
        T[i][i] = float(rng.randrange(0, 3))
    return T


def stop_track(rng):
    """6..14 fixes: travelling fixes 25..40 apart and 0..2 dwell clusters of
    3..6 fixes inside a circle of radius <= 3; one fix every 10 s."""
    for _ in range(200):
        n_cl = rng.choice([0, 1, 1, 1, 2, 2])
        plan = ["t"] * rng.randint(1, 3)
        for _c in range(n_cl):
            plan += ["c%d" % _c] * rng.randint(3, 6)
            plan += ["t"] * rng.randint(1, 3)
        if n_cl == 0:
            plan += ["t"] * rng.randint(3, 6)
        if not (6 <= len(plan) <= 14):
            continue
        pts = []
        x, y = 0.0, 0.0
        centre = {}
        for p in plan:
            if p == "t":
                x += rng.uniform(25, 40)
                y += rng.uniform(-10, 10)
                pts.append([round(x, 3), round(y, 3)])
            else:
                if p not in centre:
                    x += rng.uniform(25, 40)
                    centre[p] = (x, y)
                cx, cy = centre[p]
                mates = [q for q, pl in zip(pts, plan) if pl == p]
                if mates and rng.random() < 0.3:
                    pts.append(list(rng.choice(mates)))          # a static receiver: the very same fix again
                else:
                    pts.append([round(cx + rng.uniform(-2, 2), 3), round(cy + rng.uniform(-2, 2), 3)])
        return pts, plan
    raise M.HarnessError("could not build a stop track")


SIZES = {"quick": {"rnd": 1200, "seg": 400, "free": 300, "osimp": 300, "s456": 250, "stops": 250, "st5": 3, "st6": 2},
         "thorough": {"rnd": 10000, "seg": 3200, "free": 2400, "osimp": 2400, "s456": 2000, "stops": 2000, "st5": 1, "st6": 1}}
FAMS = ["uniform", "smallint", "signed", "sparse", "uniform", "smallint", "huge", "uniform"]


def chunks(tier, seed):
    out = []
    sz = SIZES[tier]
    out.append({"kind": "exh", "Ns": [2, 3, 4], "vals": [0.0, 1.0, 2.0], "shard": 0, "of": 1, "stride": 1,
                "key": "exh2-4"})
    for k in range(4):
        out.append({"kind": "exh", "Ns": [5], "vals": [0.0, 1.0, 2.0], "shard": k, "of": 4, "stride": sz["st5"],
                    "key": "exh5_%d" % k})
    for k in range(2):
        out.append({"kind": "exh", "Ns": [6], "vals": [0.0, 1.0], "shard": k, "of": 2, "stride": sz["st6"],
                    "key": "exh6_%d" % k})
    for k in range(8):
        out.append({"kind": "rnd", "family": FAMS[k % len(FAMS)], "n": 2 * sz["rnd"], "key": "rnd%d" % k})
    for k, fam in enumerate(["tiny_unit", "large_unit", "common_part", "int_sentinel"]):
        out.append({"kind": "rnd", "family": fam, "n": sz["rnd"], "key": "unit%d" % k})
    for k in range(6 if tier == "quick" else 16):
        out.append({"kind": "big", "n": 1, "key": "big%d" % k, "idx": k})
    for k in range(3):
        out.append({"kind": "seg", "n": 2 * sz["seg"], "key": "seg%d" % k})
    for k in range(2):
        out.append({"kind": "free", "n": 2 * sz["free"], "key": "free%d" % k})
    out.append({"kind": "osimp", "n": 2 * sz["osimp"], "key": "osimp0"})
    for k in range(3):
        out.append({"kind": "s456", "n": 2 * sz["s456"], "key": "s456_%d" % k})
    for k in range(3):
        out.append({"kind": "stops", "n": 2 * sz["stops"], "key": "stops%d" % k})
    return out


def floors(tier):
    k = 2.4 if tier == "thorough" else 1
    f = {"monitors": {MONITOR: 100000, "delegate.direction": 6000, "delegate.output_at_recorded_indices": 4000,
                      "delegate.returns_recorded_list": 1800},
         "classes": {"exhaustive": 30000, "random_reals": 15000, "N=12": 1000, "ties_between_optima": 5000,
                     "nonzero_diagonal": 3000, "entries_1e300": 1000, "negative_entries": 1500,
                     "optimalSegmentation": 2000, "optimalSimplification": 500, "cost_function_precluding_some_segments": 300, "simplify_free_min": 400,
                     "simplify_free_max": 400, "simplify_mode4": 350, "simplify_mode5": 350,
                     "simplify_mode6": 350, "findStopsGlobal": 1200, "stops_found": 600,
                     "two_stops": 100, "no_stop": 60, "direction_default": 400,
                     "direction_minimize": 800, "direction_maximize": 800, "with_global_parameter": 1200,
                     "matrix_in_another_representation": 2000, "matrix_given_as_bool": 100,
                     "more_than_128_candidates": 3},
         "counters": {"min_differs_from_max": 40000},
         "distinct_nontrivial": 40000}
    for kind in ("monitors", "classes", "counters"):
        f[kind] = {name: int(v * k) for name, v in f[kind].items()}
    f["distinct_nontrivial"] = int(f["distinct_nontrivial"] * k)
    return f


def _track_pts(rng, n):
    return general_position(rng, n)


def _cost_spec(rng, n):
    kind = rng.choice(["table", "table", "chord"])
    if kind == "table":
        return {"cost": "table", "table": cost_table(rng, n, rng.choice(["uniform", "smallint", "signed", "sparse", "huge", "huge"]))}
    return {"cost": "chord", "w": rng.choice([1.0, -1.0, 0.01]), "power": rng.choice([1, 2])}


def cases(chunk):
    rng = gen.rng_for(PROP, chunk)
    kind = chunk["kind"]
    if kind == "exh":
        vals = chunk["vals"]
        for N in chunk["Ns"]:
            total = len(vals) ** n_upper(N)
            step = chunk["of"] * chunk["stride"]
            for idx in range(chunk["shard"] * chunk["stride"], total, step):
                yield {"kind": "mat", "N": N, "upper": upper_from_index(N, idx, vals), "diag": None,
                       "src": "exhaustive"}
    elif kind == "rnd":
        fam = chunk["family"]
        for i in range(chunk["n"]):
            N = rng.choice([2, 3, 4, 5, 6, 7, 8, 9, 10, 11, 12, 12])
            if i % 97 == 0:
                N = 1
            diag = [float(rng.randrange(0, 5)) for _ in range(N)] if rng.random() < 0.3 else None
            yield {"kind": "mat", "N": N, "upper": random_upper(rng, N, fam), "diag": diag, "src": fam}
    elif kind == "big":
        # larger scale: more than 128 break candidates (judged by the DAG recursion)
        k = chunk["idx"]
        N = [129, 140, 160, 200, 131, 240][k % 6]
        fam = ["uniform", "smallint", "signed", "sparse", "uniform", "uniform"][k % 6]
        if k % 3 == 2:
            pts = [[round(0.7 * i + rng.uniform(0, 0.3), 3), round(rng.uniform(0, 100), 3)] for i in range(N)]
            c = {"kind": "seg", "pts": pts, "glob": None, "mode": ["min", "max"][k % 2], "verbose": False}
            c.update({"cost": "table", "table": cost_table(rng, N, fam), "limit_x": 4})
            yield c
        else:
            yield {"kind": "mat", "N": N, "upper": random_upper(rng, N, fam), "diag": None, "src": fam, "limit_x": 4}
    elif kind in ("seg", "osimp"):
        for i in range(chunk["n"]):
            n = rng.randint(3, 12)
            if i % 71 == 0:
                n = 2
            c = {"kind": kind, "pts": _track_pts(rng, n), "glob": rng.choice([None, None, 0.5, 2.0, -1.0]),
                 "mode": rng.choice(["default", "min", "max", "min_kw", "max_kw"]), "verbose": rng.random() < 0.1}
            c.update(_cost_spec(rng, n))
            yield c
    elif kind == "free":
        for i in range(chunk["n"]):
            n = rng.randint(3, 12)
            c = {"kind": "free", "pts": _track_pts(rng, n), "smode": rng.choice([7, 8]), "verbose": rng.random() < 0.1}
            c.update(_cost_spec(rng, n))
            yield c
    elif kind == "s456":
        for i in range(chunk["n"]):
            n = rng.randint(4, 11)
            smode = rng.choice([4, 5, 6])
            tol = {4: rng.choice([0.5, 2.0, 5.0, 15.0, 30.0]), 5: rng.choice([0.02, 0.1, 0.3, 0.8]),
                   6: rng.choice([1.0, 5.0, 12.0, 25.0, 60.0])}[smode]
            yield {"kind": "s456", "pts": _track_pts(rng, n), "smode": smode, "tol": tol,
                   "verbose": rng.random() < 0.1}
    elif kind == "stops":
        for i in range(chunk["n"]):
            if i % 4 == 3:
                # pacing: the walker goes back and forth around a point, each fix within the diameter of the centre but
                # the two ends of the pacing farther apart than the diameter -- no stop of that diameter
                dia = rng.choice([10.0, 20.0])
                a = dia * rng.uniform(0.6, 0.9)
                n = rng.randint(8, 14)
                seq = [0.0, a, 0.0, -a]
                pts = [[round(100.0 + seq[k % 4] + 0.01 * k, 3), round(50.0 + 0.013 * k, 3)] for k in range(n)]
                yield {"kind": "stops", "pts": pts, "plan": ["pacing"] * n, "diameter": dia,
                       "duration": rng.choice([5.5, 15.5, 25.5]), "rseed": rng.randrange(1 << 30)}
                continue
            pts, plan = stop_track(rng)
            yield {"kind": "stops", "pts": pts, "plan": plan, "diameter": rng.choice([8.0, 10.0, 15.0, 20.0]),
                   "duration": rng.choice([5.5, 15.5, 25.5, 35.5]), "rseed": rng.randrange(1 << 30)}
    else:
        raise M.HarnessError("chunk kind " + kind)


# --------------------------------------------------------------------------
def _mode_name(m):
    return {MIN: "MINIMIZE", MAX: "MAXIMIZE"}.get(m, repr(m))


def _rec_witness(rec):
    if rec is None:
        return None
    import numpy as np
    N = rec.get("N")
    mat = rec["matrix"]
    return {"N": N, "mode": _mode_name(rec["mode"]), "result": M.jsonable(rec["result"]),
            "matrix_upper_NxN": M.jsonable(np.asarray(mat)[:N, :N]) if N and N <= 8 else "omitted",
            "problem": rec["problem"], "skipped": rec.get("skipped")}


def _matrix_classes(C, N, ctx):
    """(nontrivial, classes) for a checked matrix."""
    cls = []
    if N < 3:
        return False, ["N=2"]
    bmin, lmin, bmax, lmax = enumerate_optima(C, N)
    nt = not (abs(bmax - bmin) <= 1e-9 * max(1.0, abs(bmin), abs(bmax)))
    if nt:
        ctx.count("min_differs_from_max")
    return nt, cls


def _has_ties(C, N):
    """Does more than one list attain the minimum or the maximum (exactly, in floats)?"""
    v = enumerate_optima(C, N, True)
    return v[4] > 1 or v[5] > 1


def run_mat(case, ctx):
    N = case["N"]
    if N < 2:
        return ood("N<2: degenerate partition")
    if len(case["upper"]) != n_upper(N):
        return ood("malformed matrix")
    seg = _state["seg"]
    C = build_matrix(N, case["upper"], case["diag"])
    Cl = C.tolist()
    sig = ("mat", N, tuple(case["upper"]), tuple(case["diag"]) if case["diag"] else None)
    cls = ["exhaustive" if case["src"] == "exhaustive" else "random_reals", "N=%d" % N]
    if case["src"] != "exhaustive":
        cls.append("family_" + case["src"])
    if case["diag"] and any(case["diag"]):
        cls.append("nonzero_diagonal")
    if any(v >= 1e299 for v in case["upper"]):
        cls.append("entries_1e300")
    if any(v < 0 for v in case["upper"]):
        cls.append("negative_entries")
    if N > 100:
        nt, more = True, ["more_than_128_candidates"]
    else:
        nt, more = _matrix_classes(Cl, N, ctx)
    cls += more
    if 3 <= N <= ENUM_MAX_N and _has_ties(Cl, N):
        cls.append("ties_between_optima")
    # the same matrix in another representation a caller may hold it in (integer / boolean / single-precision arrays
    # for matrices whose entries are such numbers; the function reads .shape, so nested lists are not accepted)
    import numpy as np
    flat = [float(v) for v in case["upper"]] + [float(v) for v in (case["diag"] or [])]
    h = (N * 7 + int(sum(abs(v) for v in flat[:50]) * 8)) % 9
    rep = None
    if case.get("src") == "int_sentinel" and not case["diag"]:
        rep, C = "int64", C.astype(np.int64)
        cls.append("integer_sentinel_for_forbidden_segments")
    elif all(v == int(v) and abs(v) < 100 for v in flat):
        if h == 1:
            rep, C = "int64", C.astype(np.int64)
        elif h == 2:
            rep, C = "int8", C.astype(np.int8)
        elif h in (3, 4) and all(v in (0.0, 1.0) for v in flat):
            rep, C = "bool", C.astype(bool)
        elif h == 5:
            rep, C = "uint8", C.astype(np.uint8) if all(v >= 0 for v in flat) else C
    with np.errstate(all="ignore"):
        f32_ok = all(float(np.float32(v)) == v for v in flat)
    if rep is None and h == 6 and f32_ok:
        rep, C = "float32", C.astype(np.float32)
    if rep:
        cls.append("matrix_given_as_" + rep)
        cls.append("matrix_in_another_representation")
    if (N + int(sum(abs(v) for v in case["upper"]) * 4)) % 3 == 0:
        # error path first: degenerate requests that cannot be honoured (a 1x1 / 0x0 matrix; stop detection on a
        # one-point track, which maximises) in either direction; what they raise is not judged
        import numpy as np
        which = (N + len(case["upper"])) % 4
        if which == 0:
            M.call(seg.optimalPartition, np.zeros((1, 1)), MAX, False)
        elif which == 1:
            M.call(seg.optimalPartition, np.zeros((0, 0)), MAX, False)
        elif which == 2:
            M.call(seg.optimalPartition, np.zeros((1, 1)), MIN, False)
        else:
            M.call(seg.findStopsGlobal, gen.make_track([(0.0, 0.0, 0.0)]), 5.0, 10.0, False, False)
        ctx.count("degenerate_request_before_valid_ones")
    for label, call in (("MINIMIZE", lambda: seg.optimalPartition(C, MIN, False)),
                        ("MAXIMIZE", lambda: seg.optimalPartition(C, mode=MAX, verbose=False)),
                        ("default", lambda: seg.optimalPartition(C, verbose=False))):
        del REC[:]
        want_mode = MAX if label == "MAXIMIZE" else MIN
        r = M.call(call)
        rec = REC[-1] if REC else None
        if M.is_raised(r):
            return violated({"what": "optimalPartition(%s): %s" % (label, r.brief() if r.type != "ContractBroken"
                                                                    else "result is not optimal for the matrix"),
                             "N": N, "upper": case["upper"], "diag": case["diag"],
                             "problem": rec["problem"] if rec else None, "raised": r}, sig, nt, cls)
        if rec is None or not rec["checked"]:
            raise M.HarnessError("the recording contract did not see the call")
        # the contract judged the call against the mode it *received*; make sure that is the requested one
        prob = check_partition(Cl, N, want_mode, r)
        if prob:
            return violated({"what": "optimalPartition(%s): %s" % (label, prob["what"]), "N": N,
                             "upper": case["upper"], "diag": case["diag"], "problem": prob}, sig, nt, cls)
    return held(sig, nt, cls)


def _make_cost(case, with_glob):
    """Harness cost function cost(track, i, j[, g]): the cost of a segment from
    fix i to fix j.  tracklib also evaluates it for j < i+1 (matrix diagonal),
    which never enters a partition."""
    if case["cost"] == "table":
        T = case["table"]
        n = len(T)

        def base(track, i, j):
            jj = j + 1
            if 0 <= i < n and 0 <= jj < n:
                return T[i][jj]
            return 0.0
    else:
        w, pw = case["w"], case["power"]

        def base(track, i, j):
            if j <= i:
                return 0.0
            d = track[i].position.distance2DTo(track[j].position)
            return w * d ** pw
    log = {}
    if with_glob:
        def cost(track, i, j, g):
            v = base(track, i, j) + g
            log[(i, j)] = v
            return v
    else:
        def cost(track, i, j):
            v = base(track, i, j)
            log[(i, j)] = v
            return v
    cost.log = log
    return cost


def _fix_key(o):
    return (o.position.getX(), o.position.getY(), o.position.getZ(), gen.obstime_fields(o.timestamp))


def _delegate_common(ctx, r, what, want_mode, sig, base_cls, case_w):
    """Checks shared by all delegates after the call returned `r`.
    Returns (verdict or None, rec, nontrivial, classes)."""
    cls = list(base_cls)
    if M.is_raised(r):
        rec = REC[-1] if REC else None
        if r.type == "ContractBroken":
            w = {"what": "%s: the partition it obtained is not optimal for the matrix it built" % what,
                 "recorded_call": _rec_witness(rec), "raised": r}
        else:
            w = {"what": "%s raised: %s" % (what, r.brief()), "recorded_call": _rec_witness(rec), "raised": r}
        w.update(case_w)
        return violated(w, sig, True, cls), rec, True, cls
    if len(REC) != 1:
        w = {"what": "%s made %d calls to optimalPartition (expected exactly one)" % (what, len(REC))}
        w.update(case_w)
        return violated(w, sig, True, cls), None, True, cls
    rec = REC[0]
    if not rec["checked"]:
        return ood(rec.get("skipped", "unchecked")), rec, False, cls
    N = rec["N"]
    Cl = rec["matrix"].tolist()
    nt, more = _matrix_classes(Cl, N, ctx)
    cls += more
    ctx.monitor("delegate.direction")
    if rec["mode"] != want_mode:
        w = {"what": "%s handed direction %s to optimalPartition; the documented direction is %s"
                     % (what, _mode_name(rec["mode"]), _mode_name(want_mode)), "recorded_call": _rec_witness(rec)}
        w.update(case_w)
        return violated(w, sig, nt, cls), rec, nt, cls
    return None, rec, nt, cls


def _costs_are_the_functions(rec, cost):
    """The segment costs handed to optimalPartition must be the values the user's cost function returned for those
    segments -- under one consistent index convention (tracklib asks cost(track, i, j-1) for cell (i, j)).  The
    recorded-matrix monitor judges optimality for whatever matrix it is handed; this one judges the matrix."""
    m = rec["matrix"]
    N = m.shape[0] - 1
    log = cost.log
    cells = [(a, b) for a in range(N) for b in range(a + 1, N)]
    if not cells or not log:
        return None
    tried = {}
    for delta in (-1, 0, 1):
        bad = None
        for (a, b) in cells:
            v = log.get((a, b + delta))
            if v is None or not (float(m[a, b]) == float(v)):
                bad = {"cell": [a, b], "matrix_value": float(m[a, b]), "cost_function_value": v}
                break
        if bad is None:
            return None
        tried[delta] = bad
    return {"what": "the segment costs handed to optimalPartition are not the values the cost function returned "
                    "(under any index convention j-1 / j / j+1)", "first_mismatch_per_convention": tried}


def _same_costs(rec1, rec2):
    """Same track object, same cost function, same parameter: the costs the delegate hands to optimalPartition for
    the second call must be the ones it handed over for the first (whatever the requested direction)."""
    import numpy as np
    m1, m2 = rec1["matrix"], rec2["matrix"]
    if m1.shape != m2.shape:
        return {"what": "second call on the same track built a cost matrix of another shape",
                "first": list(m1.shape), "second": list(m2.shape)}
    N = m1.shape[0] - 1
    for i in range(N):
        for j in range(i + 1, N):
            a, b = float(m1[i, j]), float(m2[i, j])
            if not (a == b or (a != a and b != b)):
                return {"what": "second call on the same track object with the same cost function handed OTHER segment "
                                "costs to optimalPartition than the first call (a remembered work matrix?)",
                        "cell": [i, j], "first_call": a, "second_call": b,
                        "first_matrix": np.asarray(m1).tolist(), "second_matrix": np.asarray(m2).tolist()}
    return None


def run_seg(case, ctx):
    """optimalSegmentation / optimalSimplification with a harness cost."""
    seg, sim = _state["seg"], _state["sim"]
    pts = case["pts"]
    n = len(pts)
    kind = case["kind"]
    sig = hashlib.blake2b(json.dumps(case, sort_keys=True).encode(), digest_size=8).hexdigest()
    if n < 3:
        return ood("track with fewer than 3 fixes: N<2 candidates")
    tr = gen.make_track(pts)
    if n % 3 == 1:
        tr, _how = gen.derive(tr, (pts, kind))
    g = case["glob"]
    cost = _make_cost(case, g is not None)
    fn = seg.optimalSegmentation if kind == "seg" else sim.optimalSimplification
    md = case["mode"]
    want = MAX if md.startswith("max") else MIN
    vb = bool(case["verbose"])
    del REC[:]
    if md == "default":
        r = M.call(fn, tr, cost, g, verbose=vb)
    elif md in ("min", "max"):
        r = M.call(fn, tr, cost, g, want, vb)
    else:
        r = M.call(fn, tr, cost, g, mode=want, verbose=vb)
    name = "optimalSegmentation" if kind == "seg" else "optimalSimplification"
    cls = [name, "direction_" + {"d": "default", "m": "minimize" if want == MIN else "maximize"}[md[0]],
           "cost_" + case["cost"]]
    if g is not None:
        cls.append("with_global_parameter")
    if case["cost"] == "table" and any(v >= 1e300 for row in case["table"] for v in row):
        cls.append("cost_function_precluding_some_segments")
    case_w = {"call": "%s(track[%d fixes], cost=%s, glob_param=%r, mode=%s)" % (name, n, case["cost"], g, md)}
    v, rec, nt, cls = _delegate_common(ctx, r, name, want, sig, cls, case_w)
    if v is not None:
        return v
    ctx.monitor("delegate.matrix_is_the_cost_function")
    wcf = _costs_are_the_functions(rec, cost)
    if wcf:
        wcf.update(case_w)
        wcf["recorded_call"] = _rec_witness(rec)
        return violated(wcf, sig, nt, cls)
    if kind == "seg":
        ctx.monitor("delegate.returns_recorded_list")
        if list(r) != list(rec["result"]):
            w = {"what": "optimalSegmentation did not return the list optimalPartition produced",
                 "returned": M.jsonable(r), "recorded_call": _rec_witness(rec)}
            w.update(case_w)
            return violated(w, sig, nt, cls)
    else:
        w = _check_fixes(ctx, tr, r, rec, name)
        if w:
            w.update(case_w)
            return violated(w, sig, nt, cls)
    # call history: the same delegate again on the SAME track object with the SAME cost function, other direction
    want2 = MIN if want == MAX else MAX
    rec1 = rec
    del REC[:]
    r2 = M.call(fn, tr, cost, g, want2, False)
    case_w2 = dict(case_w, history="second call on the same track object and cost function, direction %s" % _mode_name(want2))
    v, rec2, _nt2, _c2 = _delegate_common(ctx, r2, name + " (second call)", want2, sig, cls, case_w2)
    if v is not None:
        return v if v["v"] == "violated" else held(sig, nt, cls)
    ctx.monitor("delegate.second_call_same_costs")
    w = _same_costs(rec1, rec2)
    if w is None and kind != "seg":
        w = _check_fixes(ctx, tr, r2, rec2, name + " (second call)")
    if w:
        w.update(case_w2)
        return violated(w, sig, nt, cls)
    cls.append("history_second_call_same_track")
    if case["cost"] == "chord" and n <= 40:
        # two tracks used in turn: ANOTHER track with the same number of fixes (same default identifiers), the same
        # cost function object and parameter -- the costs handed to optimalPartition must be THAT track's
        pts_b = [[p[0] * 0.5 + 3.0 * ((i * 7) % 5), p[1] * 1.5 - 2.0 * ((i * 3) % 4)] for i, p in enumerate(pts)]
        tr_b = gen.make_track(pts_b)
        del REC[:]
        r3 = M.call(fn, tr_b, cost, g, want, False)
        case_w3 = dict(case_w, history="the same delegate, cost function and parameter on ANOTHER track of the same size")
        v, rec3, _nt3, _c3 = _delegate_common(ctx, r3, name + " (another track)", want, sig, cls, case_w3)
        if v is not None:
            return v if v["v"] == "violated" else held(sig, nt, cls)
        ctx.monitor("delegate.other_track_gets_its_own_costs")
        m3 = rec3["matrix"]
        N3 = m3.shape[0] - 1
        ok = False
        for delta in (-1, 0, 1):
            if all(float(m3[a, b]) == float(cost(tr_b, a, b + delta, g) if g is not None else cost(tr_b, a, b + delta))
                   for a in range(N3) for b in range(a + 1, N3) if 0 <= b + delta < n):
                ok = True
                break
        if not ok:
            w = {"what": "the segment costs handed to optimalPartition for a second track (same size, same cost function) "
                         "are not that track's costs", "second_track": pts_b, "recorded_call": _rec_witness(rec3)}
            w.update(case_w3)
            return violated(w, sig, nt, cls)
        cls.append("history_another_track_same_size")
    return held(sig, nt, cls)


def _check_fixes(ctx, tr, out, rec, what):
    ctx.monitor("delegate.output_at_recorded_indices")
    idx = [int(i) for i in rec["result"]]
    try:
        got = [_fix_key(out[i]) for i in range(len(out))]
    except Exception as e:  # not a track
        return {"what": "%s did not return a track: %r" % (what, e)}
    exp = [_fix_key(tr[i]) for i in idx]
    if got != exp:
        src = {_fix_key(tr[i]): i for i in range(len(tr))}
        return {"what": "%s: the returned track does not consist of exactly the fixes at the indices "
                        "optimalPartition selected" % what,
                "selected_indices": idx, "returned_fix_indices": [src.get(k, "not a fix of the input") for k in got],
                "recorded_call": _rec_witness(rec)}
    return None


def run_simplify(case, ctx):
    sim = _state["sim"]
    pts = case["pts"]
    n = len(pts)
    smode = case["smode"]
    sig = hashlib.blake2b(json.dumps(case, sort_keys=True).encode(), digest_size=8).hexdigest()
    if n < 3:
        return ood("track with fewer than 3 fixes: N<2 candidates")
    if smode in (4, 5, 6) and not is_general_position(pts):
        return ood("track not in general position (convex hull / bounding rectangle undefined)")
    tr = gen.make_track(pts)
    vb = bool(case["verbose"])
    del REC[:]
    if smode in (7, 8):
        f = _make_cost(case, False)
        r = M.call(sim.simplify, tr, f, smode, vb)
        cls = ["simplify_free_min" if smode == 7 else "simplify_free_max", "cost_" + case["cost"]]
        arg = "custom function (%s)" % case["cost"]
    else:
        r = M.call(sim.simplify, tr, case["tol"], smode, verbose=vb)
        cls = ["simplify_mode%d" % smode]
        arg = repr(case["tol"])
    want = MAX if smode == 8 else MIN
    what = "simplify(mode %d)" % smode
    case_w = {"call": "simplify(track[%d fixes], %s, mode=%d)" % (n, arg, smode), "points": pts}
    v, rec, nt, cls = _delegate_common(ctx, r, what, want, sig, cls, case_w)
    if v is not None:
        return v
    w = _check_fixes(ctx, tr, r, rec, what)
    if w:
        w.update(case_w)
        return violated(w, sig, nt, cls)
    if smode in (7, 8):
        ctx.monitor("delegate.matrix_is_the_cost_function")
        wcf = _costs_are_the_functions(rec, f)
        if wcf:
            wcf.update(case_w)
            return violated(wcf, sig, nt, cls)
        # call history: simplify again on the SAME track object with the SAME cost function, other direction
        smode2 = 15 - smode
        want2 = MAX if smode2 == 8 else MIN
        rec1 = rec
        del REC[:]
        r2 = M.call(sim.simplify, tr, f, smode2, False)
        case_w2 = dict(case_w, history="second simplify() on the same track object and cost function, mode %d" % smode2)
        v, rec2, _nt2, _c2 = _delegate_common(ctx, r2, "simplify(mode %d) (second call)" % smode2, want2, sig, cls, case_w2)
        if v is not None:
            return v if v["v"] == "violated" else held(sig, nt, cls)
        ctx.monitor("delegate.second_call_same_costs")
        w = _same_costs(rec1, rec2) or _check_fixes(ctx, tr, r2, rec2, "simplify(mode %d) (second call)" % smode2)
        if w:
            w.update(case_w2)
            return violated(w, sig, nt, cls)
        cls.append("history_second_call_same_track")
    return held(sig, nt, cls)


def run_stops(case, ctx):
    seg = _state["seg"]
    pts = case["pts"]
    sig = hashlib.blake2b(json.dumps(case, sort_keys=True).encode(), digest_size=8).hexdigest()
    if len(pts) < 4:
        return ood("fewer than 4 fixes")
    tr = gen.make_track(pts, step_ms=10000)
    _stdrandom.seed(case["rseed"])      # tracklib's Welzl recursion draws from the global PRNG
    del REC[:]
    r = M.call(seg.findStopsGlobal, tr, case["diameter"], case["duration"], 1, False)
    cls = ["findStopsGlobal"]
    case_w = {"call": "findStopsGlobal(track[%d fixes], diameter=%r, duration=%r)"
                      % (len(pts), case["diameter"], case["duration"]), "points": pts}
    v, rec, nt, cls = _delegate_common(ctx, r, "findStopsGlobal", MAX, sig, cls, case_w)
    if v is not None:
        return v
    # the rewards handed to optimalPartition are the documented criterion: (j-i)^2 when the smallest circle enclosing
    # fixes i..j-1 is smaller than the diameter and they span more than the duration, 0 otherwise (cells within 1e-6 of
    # the diameter are not judged)
    from vt.oracles import geom as _geom
    ctx.monitor("stops.rewards_are_the_documented_criterion")
    n_ = len(pts)
    for i in range(n_ - 2):
        for j in range(i + 1, n_ - 1):
            circ = _geom.min_enclosing_circle(pts[i:j])
            dia = 2.0 * circ[2]
            if abs(dia - case["diameter"]) < 1e-6:
                continue
            long_enough = (j - 1 - i) * 10.0 > case["duration"]
            want_r = float((j - i) ** 2) if (dia < case["diameter"] and long_enough) else 0.0
            if float(rec["matrix"][i, j]) != want_r:
                w = {"what": "findStopsGlobal: the reward of a segment is not the documented criterion (enclosing circle "
                             "smaller than the diameter and duration exceeded -> squared number of fixes, else 0)",
                     "segment_first_fix": i, "segment_last_fix": j - 1, "enclosing_circle_diameter": dia,
                     "seconds_spanned": (j - 1 - i) * 10.0, "reward_handed_over": float(rec["matrix"][i, j]),
                     "documented_reward": want_r}
                w.update(case_w)
                return violated(w, sig, nt, cls)
    ctx.monitor("delegate.output_at_recorded_indices")
    res = [int(i) for i in rec["result"]]
    segments = [(a, b - 1) for a, b in zip(res, res[1:])]
    rewarded = [(a, b - 1) for a, b in zip(res, res[1:]) if rec["matrix"][a, b] > 0]
    try:
        if len(r) == 0:
            stops = []
        else:
            stops = [(int(a), int(b)) for a, b in zip(r["id_ini"], r["id_end"])]
    except Exception as e:
        w = {"what": "findStopsGlobal: cannot read id_ini/id_end of the returned stops: %r" % e}
        w.update(case_w)
        return violated(w, sig, nt, cls)
    ok = all(s in segments for s in stops) and stops == sorted(set(stops)) and all(s in stops for s in rewarded)
    if not ok:
        w = {"what": "findStopsGlobal: the stops reported are not the rewarded segments of the partition it obtained",
             "stops_id_ini_id_end": stops, "segments_of_recorded_partition": segments,
             "segments_with_positive_reward": rewarded, "recorded_call": _rec_witness(rec)}
        w.update(case_w)
        return violated(w, sig, nt, cls)
    cls.append("stops_found" if stops else "no_stop")
    if len(stops) >= 2:
        cls.append("two_stops")
    # derived object: the same fixes as the concatenation of two parts on each of which the curvilinear abscissa was
    # computed separately (it restarts at the junction); stop detection must build the same rewards and report the
    # same stops as on the track built from scratch
    n = len(pts)
    if n >= 6:
        from tracklib.algo.cinematics import computeAbsCurv
        base2 = gen.make_track(pts, step_ms=10000)
        k = n // 2
        t1, t2 = base2.extract(0, k - 1), base2.extract(k, n - 1)
        M.call(computeAbsCurv, t1)
        M.call(computeAbsCurv, t2)
        cat = M.call(lambda: t1 + t2)
        if not M.is_raised(cat) and cat.size() == n:
            rec_first = rec
            _stdrandom.seed(case["rseed"])
            del REC[:]
            r2 = M.call(seg.findStopsGlobal, cat, case["diameter"], case["duration"], 1, False)
            case_w2 = dict(case_w, history="same fixes as t1 + t2, each part carrying its own abs_curv")
            v2, rec2, _nt2, _c2 = _delegate_common(ctx, r2, "findStopsGlobal (concatenated track)", MAX, sig, cls, case_w2)
            if v2 is not None:
                return v2 if v2["v"] == "violated" else held(sig, nt, cls)
            ctx.monitor("delegate.second_call_same_costs")
            w = _same_costs(rec_first, rec2)
            if w is None and [int(i) for i in rec2["result"]] != res:
                # same rewards: any optimal partition is fine, but it must be optimal -- judged by the contract above
                pass
            if w:
                w["what"] = "stop detection on the same fixes given as a concatenation of two parts (each with its own " \
                            "abs_curv) built other rewards than on the track built from scratch"
                w.update(case_w2)
                return violated(w, sig, nt, cls)
            cls.append("concatenated_track_with_stale_abs_curv")
    return held(sig, nt, cls)


def run_case(case, ctx):
    if not _state["installed"]:
        setup(ctx)
    k = case["kind"]
    if k == "mat":
        return run_mat(case, ctx)
    if k in ("seg", "osimp"):
        return run_seg(case, ctx)
    if k in ("free", "s456"):
        return run_simplify(case, ctx)
    if k == "stops":
        return run_stops(case, ctx)
    raise M.HarnessError("unknown case kind %r" % k)


def classify(case, witness):
    return None
