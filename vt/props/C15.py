"""C15 -- kernel smoothing is a renormalised local weighted mean
(DESIGN.md section 4, C15).

The real Filter operator is driven through Track.operate(Operator.FILTER, ...),
filter_seq (x / y / z / features) and Track.smooth; what the user can read
afterwards (track[af_output], Track.getX/Y/Z) is compared with an explicit
weighted mean

    out[i] = sum_o k[D-o] * x[i+o] / sum_o k[D-o]     (o = -D..D, i+o inside the track, x[i+o] not NaN)

which is the convolution orientation of the documented y(t) = int x(z) h(t-z) dz.
For weight lists k is the list divided by its sum; for kernel objects k is what
the real Kernel.toSlidingWindow() returns (its shape -- odd, symmetric, sums to
1, non-negative -- is judged separately).
"""
from __future__ import annotations

import itertools
import math

from vt import gen, monitor as M
from vt.gen import held, violated, ood

PROP = "C15"
RULE = ("a case is (kernel, signal(s), entry point): kernel = an odd weight list of length 1..7 with positive weights (symmetric or "
        "asymmetric), an odd integer, or one of Gaussian/Uniform/Triangular/Exponential/Epanechnikov/Spheric/Cubic/Dirac with "
        "width in {1,1.5,2,2.7,3,5} (plus random widths in [1,6]) and either boundary setting; signal of length window..window+10: "
        "random, integer, constant, monotone, unit impulse, with one or two isolated NaN; entry point operate(FILTER) on a feature "
        "(separate or same output name), filter_seq on x/y/z/feature, Track.smooth. Distinct = distinct (kernel, entry point, "
        "signal) signature; non-trivial = the window has at least two non-zero weights and the signal is not constant, so the "
        "output is not a copy of the input.")
ASSUMPTIONS = ["for kernel objects the weights are those returned by the real Kernel.toSlidingWindow(); only their shape is judged "
               "(odd length, symmetric, sum 1, non-negative), not the kernel function values",
               "a window whose in-track non-NaN samples have total weight 0 has no weighted mean: out of domain",
               "floating tolerance 1e-9 relative to the largest magnitude in the window"]
EXHAUSTIVE = {"quick": "all weight lists of length 1, 3 and 5 over {1,2,3} (273 lists) on unit impulses at every position; "
                       "every (kernel type x width in {1,1.5,2,2.7,3,5} x boundary setting x signal kind x entry point) combination",
              "thorough": "all weight lists of length 1, 3 and 5 over {1,2,3} (273 lists) on unit impulses at every position; "
                          "every (kernel type x width in {1,1.5,2,2.7,3,5} x boundary setting x signal kind x entry point) combination"}
CASE_LIMIT_S = 30.0

KERNELS = ["Gaussian", "Uniform", "Triangular", "Exponential", "Epanechnikov", "Spheric", "Cubic", "Dirac"]
WIDTHS = [1, 1.5, 2, 2.7, 3, 5]
# documented support of each kernel as a multiple of its width (used only to size the signals)
SUPPORT = {"Gaussian": 3.0, "Exponential": 3.0, "Uniform": 2.0, "Triangular": 1.5, "Epanechnikov": 1.5,
           "Spheric": 1.0, "Cubic": 1.0}
SIGNALS = ["random", "integer", "constant", "monotone", "impulse", "nan", "constant_nan", "pyint", "pyint_constant",
           "fill_value"]
VIAS_KERNEL = ["operate", "operate_inplace", "seq_x", "seq_y", "seq_z", "seq_xyz", "seq_feature"]
REL = 1e-9


def chunks(tier, seed):
    q = tier == "quick"
    out = [{"kind": "window", "key": "win0", "nrandom": 100 if q else 3000},
           {"kind": "impulse_lists", "key": "imp0", "shard": 0, "of": 2},
           {"kind": "impulse_lists", "key": "imp1", "shard": 1, "of": 2}]
    for k in range(10):
        out.append({"kind": "lists", "key": "lst%d" % k, "n": 800 if q else 25000})
    for k in range(16):
        out.append({"kind": "kernels", "key": "ker%d" % k, "shard": k, "of": 16, "reps": 2 if q else 25,
                    "nrandom": 30 if q else 3000})
    for k in range(2):
        out.append({"kind": "smooth", "key": "smo%d" % k, "n": 60 if q else 1500})
    return out


def floors(tier):
    q = tier == "quick"
    return {"monitors": {"filter.weighted_mean": 100000 if q else 2000000,
                         "filter.within_window_range": 50000 if q else 1000000,
                         "filter.constant_unchanged": 5000 if q else 100000,
                         "filter.boundary_copy": 10000 if q else 200000,
                         "window.odd": 100, "window.symmetric": 100, "window.sums_to_1": 100, "window.non_negative": 100},
            "classes": {"asymmetric_list": 1000, "symmetric_list": 500, "nan_signal": 500, "constant_signal": 300,
                        "monotone_signal": 300, "impulse_signal": 500, "boundary_filtered": 500, "boundary_copied": 1000,
                        "len_eq_window": 300, "nan_in_boundary": 50, "renormalised_at_track_end": 500,
                        "renormalised_for_nan": 500,
                        "via_operate": 1000, "via_operate_inplace": 200, "via_seq_x": 100, "via_seq_y": 100, "via_seq_z": 100,
                        "via_seq_xyz": 100, "via_seq_feature": 100, "via_smooth": 100, "int_kernel": 20,
                        "kernel_Gaussian": 100, "kernel_Uniform": 100, "kernel_Triangular": 100, "kernel_Exponential": 100,
                        "kernel_Epanechnikov": 100, "kernel_Spheric": 100, "kernel_Cubic": 100, "kernel_Dirac": 20,
                        "signal_of_python_ints": 1000, "track_of_1000+_observations": 12},
            "distinct_nontrivial": 5000 if q else 100000}


def setup(ctx):
    return None


# --------------------------------------------------------------------------
# generators (signals use None for NaN so that a case is plain JSON)
def _window_len(kspec):
    if "weights" in kspec:
        return len(kspec["weights"])
    if "int" in kspec:
        return kspec["int"]
    if kspec["type"] == "Dirac":
        return 3
    return 2 * int(SUPPORT[kspec["type"]] * kspec["width"]) + 1


def _signal(rng, kind, n):
    if kind == "random":
        return [rng.uniform(-1000.0, 1000.0) for _ in range(n)]
    if kind == "integer":
        return [float(rng.randint(-5, 5)) for _ in range(n)]
    if kind == "pyint":
        # values held as Python ints (a count, an index, coordinates typed without a decimal point)
        return [rng.randint(-5, 20) for _ in range(n)]
    if kind == "pyint_constant":
        return [rng.choice([7, 1, 0, -3])] * n
    if kind == "constant":
        c = rng.choice([0.0, 1.0, -3.5, 1e6, 0.1, rng.uniform(-1000, 1000)])
        return [c] * n
    if kind == "monotone":
        s = sorted(rng.uniform(-1000.0, 1000.0) for _ in range(n))
        if rng.random() < 0.5:
            s.reverse()
        return s
    if kind == "impulse":
        s = [0.0] * n
        s[rng.randrange(n)] = rng.choice([1.0, 1.0, -2.0, 7.5])
        return s
    if kind == "fill_value":
        # ordinary values with ONE fill value / gross outlier many orders of magnitude larger, early in the series
        # (NetCDF _FillValue 9.96921e36, 1e20): the outputs whose window does not hold it are ordinary
        s = [rng.uniform(1.0, 300.0) for _ in range(n)]
        s[rng.randrange(0, max(1, n // 3))] = rng.choice([9.96921e36, 1e20, -1e30])
        return s
    if kind in ("nan", "constant_nan"):
        s = _signal(rng, "constant" if kind == "constant_nan" else rng.choice(["random", "integer", "monotone"]), n)
        i = rng.randrange(n)
        s[i] = None
        if n >= 5 and rng.random() < 0.4:
            j = rng.randrange(n)
            if abs(j - i) >= 2:
                s[j] = None
        return s
    raise M.HarnessError("signal kind " + kind)


def _weights(rng, sym):
    L = rng.choice([1, 3, 3, 5, 5, 7])
    if rng.random() < 0.5:
        draw = lambda: float(rng.randint(1, 9))
    else:
        draw = lambda: rng.uniform(0.05, 10.0)
    w = [draw() for _ in range(L)]
    if sym:
        for j in range(L // 2):
            w[L - 1 - j] = w[j]
    elif L > 1 and w[0] == w[-1]:
        w[-1] = w[0] + 1.0
    return w


def _signals_for(rng, via, kind, n):
    """Signals for every coordinate / feature the entry point reads."""
    names = {"operate": ["a"], "operate_inplace": ["a"], "seq_x": ["x"], "seq_y": ["y"], "seq_z": ["z"],
             "seq_xyz": ["x", "y", "z"], "seq_feature": ["a"], "smooth": ["x", "y", "z"]}[via]
    out = {nm: _signal(rng, kind, n) for nm in names}
    if kind in ("random", "monotone", "integer") and rng.random() < 0.3:
        # realistic magnitudes: projected map coordinates of hundreds of thousands / millions of metres whose
        # variation along the track is a few metres (a street walked north-south, a receiver standing still)
        off = {"x": 652000.0, "y": 6860000.0, "z": 1250.0, "a": 6860000.0}
        for nm in out:
            out[nm] = [None if v is None else off[nm] + v * rng.choice([0.003, 0.03]) for v in out[nm]]
    return out


def cases(chunk):
    rng = gen.rng_for(PROP, chunk)
    kind = chunk["kind"]
    if kind == "window":
        for t in KERNELS:
            if t == "Dirac":
                yield {"kind": "window", "kernel": {"type": "Dirac"}}
                continue
            for w in WIDTHS:
                yield {"kind": "window", "kernel": {"type": t, "width": w}}
        for _ in range(chunk["nrandom"]):
            t = rng.choice(KERNELS[:-1])
            w = rng.choice([rng.uniform(1.0, 6.0), round(rng.uniform(1.0, 6.0), 1), float(rng.randint(1, 6)),
                            rng.randint(1, 6) + rng.choice([-1, 1]) * 10.0 ** rng.uniform(-12, -3)])
            if w < 1.0:
                w = 1.0
            yield {"kind": "window", "kernel": {"type": t, "width": w}}
    elif kind == "impulse_lists":
        idx = 0
        for L in (1, 3, 5):
            for w in itertools.product((1, 2, 3), repeat=L):
                if idx % chunk["of"] == chunk["shard"]:
                    n = L + 2
                    sigs = []
                    for m in range(n):
                        s = [0.0] * n
                        s[m] = 1.0
                        sigs.append(s)
                    yield {"kind": "filter", "kernel": {"weights": [float(v) for v in w]}, "via": "operate",
                           "sigkind": "impulse", "multi": sigs}
                idx += 1
    elif kind == "lists":
        for _ in range(chunk["n"]):
            sym = rng.random() < 0.35
            intk = rng.random() < 0.08
            if intk:
                kspec = {"int": rng.choice([1, 3, 5, 7])}
                via = rng.choice(["seq_x", "seq_y", "seq_z", "seq_xyz", "seq_feature"])
            else:
                kspec = {"weights": _weights(rng, sym)}
                via = rng.choice(["operate", "operate", "operate", "operate_inplace", "seq_x", "seq_y", "seq_z",
                                  "seq_xyz", "seq_feature"])
            sk = rng.choice(SIGNALS + (["fill_value", "fill_value"] if intk else []))
            n = _window_len(kspec) + rng.choice([0, 0, 1, 2, 3, 5, 10]) + (rng.choice([0, 15, 40]) if sk == "fill_value" else 0)
            yield {"kind": "filter", "kernel": kspec, "via": via, "sigkind": sk, "signals": _signals_for(rng, via, sk, n)}
    elif kind == "kernels":
        combos = []
        for t in KERNELS:
            for w in (WIDTHS if t != "Dirac" else [None]):
                for b in (False, True):
                    for sk in SIGNALS:
                        for via in VIAS_KERNEL:
                            combos.append((t, w, b, sk, via))
        for t, w, b, sk, via in combos[chunk["shard"]::chunk["of"]]:
            for _ in range(chunk["reps"]):
                kspec = {"type": t, "boundary": b}
                if w is not None:
                    kspec["width"] = w
                n = _window_len(kspec) + rng.choice([0, 0, 1, 2, 5, 10])
                yield {"kind": "filter", "kernel": kspec, "via": via, "sigkind": sk,
                       "signals": _signals_for(rng, via, sk, n)}
        for _ in range(chunk["nrandom"]):
            t = rng.choice(KERNELS[:-1])
            w = rng.choice([rng.uniform(1.0, 6.0), round(rng.uniform(1.0, 6.0), 1)])
            kspec = {"type": t, "width": w, "boundary": rng.random() < 0.5}
            via = rng.choice(VIAS_KERNEL)
            sk = rng.choice(SIGNALS)
            n = _window_len(kspec) + rng.choice([0, 0, 1, 2, 5, 10])
            if _ % 25 == 3:
                # larger scale: tracks of a thousand observations and more
                n = rng.choice([1000, 1024, 1500, 2500])
                sk = rng.choice(["random", "monotone", "nan", "pyint", "constant"])
            giant = (_ % 1500 == 11) and chunk["shard"] % 8 == 5
            if giant:
                # much larger scale: hours of 1 Hz data smoothed over minutes (size x window beyond a million), the
                # boundaries filtered, no NaN
                kspec = {"type": "Gaussian", "width": rng.choice([34, 36.5]), "boundary": True}
                n = rng.choice([5400, 6100])
                sk = rng.choice(["random", "monotone"])
                via = rng.choice(["operate", "seq_x", "seq_feature"])
                yield {"kind": "filter", "kernel": kspec, "via": via, "sigkind": sk, "signals": _signals_for(rng, via, sk, n),
                       "limit_x": 10, "giant": 1}
                continue
            yield {"kind": "filter", "kernel": kspec, "via": via, "sigkind": sk, "signals": _signals_for(rng, via, sk, n)}
    elif kind == "smooth":
        for i in range(chunk["n"]):
            w = WIDTHS[i % len(WIDTHS)] if i < 4 * len(WIDTHS) else rng.uniform(1.0, 5.0)
            kspec = {"type": "Gaussian", "width": w, "boundary": False}
            sk = rng.choice(["random", "integer", "constant", "monotone", "impulse"])
            n = _window_len(kspec) + rng.choice([0, 1, 2, 5, 10])
            yield {"kind": "filter", "kernel": kspec, "via": "smooth", "sigkind": sk,
                   "signals": _signals_for(rng, "smooth", sk, n)}


# --------------------------------------------------------------------------
NAN = float("nan")


def _dec(sig):
    return [NAN if (v is None or v == "NaN") else v if (isinstance(v, int) and not isinstance(v, bool)) else float(v)
            for v in sig]


_DECOYS = []


def _make_kernel(kspec):
    import tracklib.core.kernel as K
    if kspec["type"] == "Dirac":
        k = K.DiracKernel()
    else:
        k = getattr(K, kspec["type"] + "Kernel")(kspec["width"])
    if "boundary" in kspec:
        k.setFilterBoundary(bool(kspec["boundary"]))
    return k


def _window_problem(w, ctx):
    """Shape of a kernel's sliding window: odd, symmetric, sums to 1, non-negative."""
    try:
        w = [float(v) for v in w]
    except Exception:
        return {"what": "toSlidingWindow() did not return a list of numbers", "got": repr(w)[:300]}
    N = len(w)
    ctx.monitor("window.odd")
    if N % 2 != 1:
        return {"what": "sliding window has even length", "length": N, "window": w[:40]}
    ctx.monitor("window.symmetric")
    for j in range(N // 2):
        if not (abs(w[j] - w[N - 1 - j]) <= 1e-12):
            return {"what": "sliding window is not symmetric", "j": j, "left": w[j], "right": w[N - 1 - j], "window": w[:40]}
    ctx.monitor("window.sums_to_1")
    if not (abs(math.fsum(w) - 1.0) <= 1e-12):
        return {"what": "sliding window does not sum to 1", "sum": math.fsum(w), "window": w[:40]}
    ctx.monitor("window.non_negative")
    for j in range(N):
        if not (w[j] >= -1e-12):
            return {"what": "sliding window of a non-negative kernel has a negative weight", "j": j, "weight": w[j],
                    "window": w[:40]}
    return None


def _reference(x, k, boundary):
    """Explicit renormalised weighted mean.  Returns (out, lo, hi, copied, info) or a string (out of domain)."""
    n, N = len(x), len(k)
    D = N // 2
    tiny = 1e-9 * sum(abs(v) for v in k)
    out, lo, hi, copied = [], [], [], []
    info = {"end": False, "nan": False}
    for i in range(n):
        num, den = [], []
        vals = []
        for o in range(-D, D + 1):
            idx = i + o
            if idx < 0 or idx >= n:
                if k[D - o] != 0:
                    info["end"] = True
                continue
            v = x[idx]
            if v != v:
                if k[D - o] != 0:
                    info["nan"] = True
                continue
            wgt = k[D - o]
            num.append(wgt * v)
            den.append(wgt)
            vals.append(v)
        d = math.fsum(den)
        if not vals or d <= tiny:
            return "window with zero total weight on its valid samples"
        out.append(math.fsum(num) / d)
        lo.append(min(vals))
        hi.append(max(vals))
        copied.append(False)
    if not boundary:
        for i in list(range(D)) + list(range(n - D, n)):
            if 0 <= i < n:
                out[i] = x[i]
                copied[i] = True
    return out, lo, hi, copied, info


def _judge(name, x, got, k, boundary, ctx, cls):
    """Compare one filtered signal with the reference.  Returns None, a witness dict, or a str (ood)."""
    n = len(x)
    ref = _reference(x, k, boundary)
    if isinstance(ref, str):
        return ref
    exp, lo, hi, copied, info = ref
    if info["end"] and boundary:
        cls.add("renormalised_at_track_end")
    if info["nan"]:
        cls.add("renormalised_for_nan")
    try:
        got = [float(v) for v in got]
    except Exception:
        return {"what": "filtered values are not numbers", "signal": name, "got": repr(got)[:300]}
    if len(got) != n:
        return {"what": "filtered signal has a different length", "signal": name, "got": len(got), "expected": n}
    finite = [v for v in x if v == v]
    const = len(set(finite)) == 1
    for i in range(n):
        if copied[i]:
            ctx.monitor("filter.boundary_copy")
            same = (got[i] == x[i]) or (got[i] != got[i] and x[i] != x[i])
            if not same:
                return {"what": "boundary value not returned unchanged (kernel does not filter boundaries)", "signal": name,
                        "index": i, "input": x[i], "got": got[i], "half_window": len(k) // 2, "x": x, "weights": k}
            if x[i] != x[i]:
                cls.add("nan_in_boundary")
            continue
        scale = max(1.0, abs(lo[i]), abs(hi[i]))
        eps = REL * scale
        ctx.monitor("filter.weighted_mean")
        if not (got[i] == got[i]) or abs(got[i] - exp[i]) > eps:
            return {"what": "output is not the renormalised weighted mean of its window", "signal": name, "index": i,
                    "got": got[i], "expected": exp[i], "x": x, "weights": k, "boundary_filtered": boundary}
        ctx.monitor("filter.within_window_range")
        if got[i] < lo[i] - eps or got[i] > hi[i] + eps:
            return {"what": "output outside [min, max] of its window", "signal": name, "index": i, "got": got[i],
                    "window_min": lo[i], "window_max": hi[i], "x": x, "weights": k}
        if const:
            ctx.monitor("filter.constant_unchanged")
            if abs(got[i] - finite[0]) > eps:
                return {"what": "constant signal changed by filtering", "signal": name, "index": i, "got": got[i],
                        "constant": finite[0], "x": x, "weights": k}
    return None


def _apply(via, kspec, sigs):
    """Run the real code once.  Returns ({name: filtered values}, weights used by the oracle, boundary) or Raised."""
    from tracklib.core.operators import Operator
    from tracklib.algo.filtering import filter_seq
    names = sorted(sigs)
    n = len(sigs[names[0]])
    coords = [(sigs["x"][i] if "x" in sigs else float(i), sigs["y"][i] if "y" in sigs else 2.0 * i,
               sigs["z"][i] if "z" in sigs else 0.0) for i in range(n)]
    as_numpy = (n + len(names) + int(abs(sum(v for v in sigs[names[0]] if v == v)) * 3)) % 4 == 1
    if as_numpy:
        # the values (NaN included) held as numpy scalars, as list(array) or array[i] hand them out
        import numpy as np
        coords = [tuple(np.float64(c) for c in p) for p in coords]
        M.CTX.count("values_held_as_numpy_scalars")
    tr = gen.make_track(coords)
    if "a" in sigs:
        tr.createAnalyticalFeature("a", [np.float64(v) for v in sigs["a"]] if as_numpy else list(sigs["a"]))
    if (n + len(names)) % 4 == 2:
        tr, _how = gen.derive(tr, (coords, names), allow=gen.DERIVE_HOWS + ["hidden_slots", "hidden_slots"])
    # kernel argument as the API takes it + the weights the oracle uses
    if "weights" in kspec:
        karg = [v for v in kspec["weights"]]
        s = math.fsum(kspec["weights"])
        k = [v / s for v in kspec["weights"]]
        boundary = False
    elif "int" in kspec:
        karg = int(kspec["int"])
        k = [1.0 / karg] * karg
        boundary = False
    else:
        karg = _make_kernel(kspec)
        # the boundary setting is what the harness *set* on this kernel object (default: boundaries are copied),
        # not what a getter says afterwards; a second kernel object with the opposite setting is configured
        # after it and stays alive during the filtering (per-object state must not leak between kernels)
        boundary = bool(kspec.get("boundary", False))
        import tracklib.core.kernel as _K
        decoy = _K.GaussianKernel(2)
        decoy.setFilterBoundary(not boundary)
        _DECOYS[:] = [decoy]
        if bool(karg.filterBoundary()) != boundary:
            return M.Raised(AssertionError("kernel.filterBoundary() returns %r after setFilterBoundary(%r) on this kernel "
                                           "(another kernel object was configured with the opposite setting in between)"
                                           % (karg.filterBoundary(), boundary)), "")
        if kspec["type"] == "Dirac":
            k = [0.0, 1.0, 0.0]           # the identity, whatever the length of the Dirac window
        else:
            w = M.call(_make_kernel(kspec).toSlidingWindow)
            if M.is_raised(w):
                return w
            k = [float(v) for v in w]
            if kspec["type"] != "Uniform":
                # two kernels used in turn: a kernel of the same class and window length but ANOTHER width is asked for
                # its window in between; the windows of kernels of different widths differ (for every built-in class
                # but the uniform one), and this kernel's window is the same before and after
                for f_ in (1.06, 0.95, 1.03):
                    k2spec = dict(kspec, width=kspec["width"] * f_)
                    if k2spec["width"] >= 1.0 and _window_len(k2spec) == len(k):
                        w_other = M.call(_make_kernel(k2spec).toSlidingWindow)
                        w_again = M.call(_make_kernel(kspec).toSlidingWindow)
                        M.CTX.monitor("window.depends_on_its_own_kernel_only")
                        if M.is_raised(w_other) or M.is_raised(w_again):
                            return w_other if M.is_raised(w_other) else w_again
                        if [float(v) for v in w_again] != k or \
                                (len(k) > 1 and [float(v) for v in w_other] == k):
                            return M.Raised(AssertionError(
                                "two kernels of class %s used in turn (widths %r and %r, same window length %d): the "
                                "window of one is handed out for the other (%r / %r / %r)"
                                % (kspec["type"], kspec["width"], k2spec["width"], len(k), k[:4],
                                   [float(v) for v in w_other][:4], [float(v) for v in w_again][:4])), "")
                        break
            if (n + len(k)) % 3 == 0:
                # aliasing: the caller asked THIS kernel object for its window first and modified the list it got
                # (to derive weights of its own); the kernel must go on filtering with its own window
                wk = M.call(karg.toSlidingWindow)
                if isinstance(wk, list):
                    M.scribble(wk)
                    M.CTX.count("sliding_window_list_modified_by_the_caller")
    if via == "operate":
        r = M.call(tr.operate, Operator.FILTER, "a", karg, "b")
        read = lambda: {"a": tr.getAnalyticalFeature("b")}
    elif via == "operate_inplace":
        r = M.call(tr.operate, Operator.FILTER, "a", karg)
        read = lambda: {"a": tr.getAnalyticalFeature("a")}
    elif via == "seq_feature":
        r = M.call(filter_seq, tr, karg, ["a"])
        read = lambda: {"a": tr.getAnalyticalFeature("a")}
    elif via in ("seq_x", "seq_y", "seq_z", "seq_xyz"):
        dim = list(via[4:])
        if via == "seq_xyz" and len(k) % 4 == 3:
            # degenerate call first: the same request on a track whose heights are all undefined (every window of z
            # has zero valid weight) cannot be honoured; what it raises is not judged.  The valid request below then
            # relies on the DEFAULT dimensions (x, y, z), a list owned by the library.
            bad = gen.make_track([(float(i), 2.0 * i, float("nan")) for i in range(len(k) + 3)])
            M.call(filter_seq, bad, karg)
            M.CTX.count("degenerate_filter_request_before_valid_one")
            r = M.call(filter_seq, tr, karg)
        elif via == "seq_xyz" and len(k) % 4 == 1:
            from tracklib.algo.filtering import FILTER_XYZ
            r = M.call(filter_seq, tr, karg, FILTER_XYZ)
        else:
            r = M.call(filter_seq, tr, karg, dim)
        read = lambda: {c: {"x": tr.getX, "y": tr.getY, "z": tr.getZ}[c]() for c in dim}
    elif via == "smooth":
        r = M.call(tr.smooth, kspec["width"])
        read = lambda: {"x": tr.getX(), "y": tr.getY(), "z": tr.getZ()}
    else:
        raise M.HarnessError("via " + via)
    if M.is_raised(r):
        return r
    out = M.call(read)
    if M.is_raised(out):
        return out
    return out, k, boundary


def _kernel_sig(kspec):
    return tuple(sorted((k, tuple(v) if isinstance(v, list) else v) for k, v in kspec.items()))


def run_case(case, ctx):
    kspec = case["kernel"]
    if case["kind"] == "window":
        k = _make_kernel(kspec)
        w = M.call(k.toSlidingWindow)
        sig = ("window", _kernel_sig(kspec))
        cls = ["window_" + kspec["type"]]
        if M.is_raised(w):
            return violated({"what": "toSlidingWindow raised for a width >= 1", "kernel": kspec, "raised": w}, sig, True, cls)
        p = _window_problem(w, ctx)
        if p:
            p["kernel"] = kspec
            return violated(p, sig, True, cls)
        return held(sig, len(w) > 1, cls)

    via = case["via"]
    sets = [{"a": s} for s in case["multi"]] if "multi" in case else [case["signals"]]
    cls = set(["via_" + via, case["sigkind"].replace("constant_nan", "nan") + "_signal"])
    if case["sigkind"] in ("constant_nan", "pyint_constant"):
        cls.add("constant_signal")
    if case["sigkind"].startswith("pyint"):
        cls.add("signal_of_python_ints")
    if "signals" in case and len(next(iter(case["signals"].values()))) >= 1000:
        cls.add("track_of_1000+_observations")
    if case.get("giant"):
        cls.add("size_times_window_beyond_a_million")
    if "weights" in kspec:
        w = kspec["weights"]
        cls.add("symmetric_list" if w == w[::-1] else "asymmetric_list")
        cls.add("list_len_%d" % len(w))
    elif "int" in kspec:
        cls.add("int_kernel")
    else:
        cls.add("kernel_" + kspec["type"])
        if "width" in kspec and kspec["width"] in WIDTHS:
            cls.add("width_%s" % kspec["width"])
        cls.add("boundary_filtered" if kspec.get("boundary") else "boundary_copied")
    if "weights" in kspec or "int" in kspec:
        cls.add("boundary_copied")
    sig = ("filter", _kernel_sig(kspec), via,
           tuple((nm, tuple(s[nm])) for s in sets for nm in sorted(s)))
    nontrivial = False
    judged = 0
    why_ood = None
    for raw in sets:
        sigs = {nm: _dec(v) for nm, v in raw.items()}
        n = len(next(iter(sigs.values())))
        res = _apply(via, kspec, sigs)
        # total weight 0 on the valid samples of some window: the property's mean is undefined there, whatever
        # tracklib does (it raises ZeroDivisionError) -- decide this from the reference before judging
        if M.is_raised(res):
            k_guess = None
            if "weights" in kspec:
                s = math.fsum(kspec["weights"])
                k_guess = [v / s for v in kspec["weights"]]
            elif "int" in kspec:
                k_guess = [1.0 / kspec["int"]] * kspec["int"]
            elif kspec["type"] == "Dirac":
                k_guess = [0.0, 1.0, 0.0]
            else:
                w = M.call(_make_kernel(kspec).toSlidingWindow)
                if not M.is_raised(w):
                    k_guess = [float(v) for v in w]
            if k_guess is not None:
                if len(k_guess) > n:
                    why_ood = "signal shorter than the window"
                    continue
                b = bool(kspec.get("boundary", False))
                if any(isinstance(_reference(x, k_guess, b), str) for x in sigs.values()):
                    why_ood = "window with zero total weight on its valid samples"
                    continue
            return violated({"what": "filtering raised on an in-domain signal", "kernel": kspec, "via": via,
                             "signals": raw, "raised": res}, sig, True, sorted(cls))
        out, k, boundary = res
        if len(k) > n:
            why_ood = "signal shorter than the window"
            continue
        if len(k) == n:
            cls.add("len_eq_window")
        nzw = sum(1 for v in k if v != 0)
        bad_ood = False
        for nm in sorted(sigs):
            r = _judge(nm, sigs[nm], out.get(nm, []), k, boundary, ctx, cls)
            if isinstance(r, str):
                why_ood = r
                bad_ood = True
                break
            if r:
                r["kernel"] = kspec
                r["via"] = via
                return violated(r, sig, True, sorted(cls))
            finite = [v for v in sigs[nm] if v == v]
            if nzw >= 2 and len(set(finite)) > 1:
                nontrivial = True
        if not bad_ood:
            judged += 1
    if judged == 0:
        return ood(why_ood or "nothing judged", sorted(cls))
    return held(sig, nontrivial, sorted(cls))


def decode_case(case):
    return case


def classify(case, witness):
    return None
