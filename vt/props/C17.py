"""C17 -- abs_curv and speed match their geometric definitions (DESIGN.md
section 4, C17).

The real computeAbsCurv() and Track.estimate_speed() are run (each twice, in
either order) on ENU tracks of 2..12 fixes with ms-exact non-decreasing
timestamps.  Oracle, from the positions/instants re-read through the API
before the calls and the integer milliseconds the harness wrote:

  abs_curv: s[0] = 0; s[i] - s[i-1] = hypot(dx, dy) (1e-9 relative to the size
            of the numbers subtracted); never decreases; s[-1] = sum of the
            planimetric legs (1e-9 relative); z never counts.
  speed:    interior  |P[i+1] - P[i-1]| / (t[i+1] - t[i-1])
            first     |P[1] - P[0]| / (t[1] - t[0])
            last      |P[n-1] - P[n-2]| / (t[n-1] - t[n-2])      (planimetric)
            NaN exactly when that elapsed time is zero.
  repeated computation returns the same values; x / y / z / t are unchanged.
"""
from __future__ import annotations

import itertools
import math

from vt import gen, monitor as M
from vt.gen import held, violated
from vt.oracles import geom

PROP = "C17"
RULE = ("ENU tracks of 2..12 fixes: (a) enumerated -- every pattern of {repeated, distinct} position x {repeated, later} "
        "timestamp over the n-1 legs for n = 2..6 (quick) / 2..7 (thorough); (b) seeded random tracks: leg lengths "
        "log-uniform in 1 mm..100 km (and zero legs), lattice (Pythagorean) legs, random z jumps, time steps from "
        "{0, 1 ms, 10 ms, 1 s, 1 min, 1 h, random}, epoch base 1970 or 2021, all-same-time and all-same-position tracks. "
        "distinct = (positions, instants, call order); non-trivial = at least one leg of positive length and one positive "
        "elapsed time (so abs_curv really grows and some speed is a finite number).")
ASSUMPTIONS = ["positions and instants re-read through getX/getY/getZ and the ObsTime fields before the calls are the truth",
               "elapsed time is judged from the integer milliseconds written by the harness; the float seconds tracklib "
               "derives from them may be off by 4 ulp of the epoch value (speed tolerance = 1e-9 + 4 ulp(t)/dt, relative)",
               "increments of abs_curv are compared with 1e-9 relative to max(s[i], leg): the difference of two cumulated "
               "floats cannot be more exact than that",
               "tracks have at least 2 fixes (the one-sided rule needs a neighbour)"]
EXHAUSTIVE = {"quick": "all 4^(n-1) {same/new position} x {same/later instant} leg patterns for n = 2..6 (1 364 tracks)",
              "thorough": "all 4^(n-1) {same/new position} x {same/later instant} leg patterns for n = 2..7 (5 460 tracks)"}
SOFT_MONITORS = ['ds.nonnegative', 'integrator.starts_at_zero']      # contracts on private helpers: diagnostics, see vt/runner.py
CASE_LIMIT_S = 20.0

BASE_1970 = gen.ms_from_fields(1970, 1, 2, 3, 4, 5, 0)
BASE_2021 = gen.ms_from_fields(2021, 11, 30, 23, 59, 58, 0)
NCH_RAND = 12


def chunks(tier, seed):
    out = [{"kind": "enum", "ns": [2, 3, 4], "shard": 0, "of": 1, "key": "enum2-4"}]
    nmax = 6 if tier == "quick" else 7
    for n in range(5, nmax + 1):
        of = {5: 1, 6: 2, 7: 4}[n]
        for k in range(of):
            out.append({"kind": "enum", "ns": [n], "shard": k, "of": of, "key": "enum%d.%d" % (n, k)})
    per = 350 if tier == "quick" else 10000
    for k in range(NCH_RAND):
        out.append({"kind": "rand", "n": per, "key": "rand%d" % k})
    return out


def floors(tier):
    q = tier == "quick"
    return {"monitors": {"abs_curv.definition": 10000 if q else 100000,
                         "speed.definition": 10000 if q else 100000,
                         "abs_curv.repeatable": 5000 if q else 50000,
                         "speed.repeatable": 5000 if q else 50000,
                         "xyzt.unchanged": 20000 if q else 200000,
                         "ds.nonnegative": 10000,
                         "integrator.starts_at_zero": 5000},
            "classes": {"repeated_timestamp": 500, "repeated_position": 500, "all_same_time": 30, "all_same_position": 30,
                        "leg_mm": 200, "leg_100km": 200, "z_varies": 1000, "zero_time_first": 200, "zero_time_last": 200,
                        "zero_time_interior": 200, "n2": 20, "epoch_2021": 500, "epoch_1970": 500,
                        "speed_first": 1000, "abs_curv_first": 1000, "mixed_scales": 100},
            "distinct_nontrivial": 3000 if q else 30000}


# --------------------------------------------------------------------------
def _ds_post(a, k, result):
    if not (isinstance(result, (int, float)) and result == result and result >= 0 and not math.isinf(result)):
        return "ds returned %r" % (result,)
    return None


def _integrator_post(a, k, result):
    track = a[1] if len(a) > 1 else k.get("track")
    if not isinstance(result, list) or len(result) != track.size():
        return "Integrator returned %r for a track of %d" % (type(result).__name__, track.size())
    if len(result) and result[0] != 0:
        return "running sum starts at %r" % (result[0],)
    return None


_installed = False


def setup(ctx):
    global _installed
    if _installed:
        return
    import importlib
    importlib.import_module("tracklib.algo.cinematics")
    A = importlib.import_module("tracklib.algo.analytics")
    O = importlib.import_module("tracklib.core.operators")
    old = A.ds
    new = M.wrap_post(old, _ds_post, "ds.nonnegative")
    A.ds = new
    M.patch_everywhere(old, new)
    O.Integrator.execute = M.wrap_post(O.Integrator.__dict__["execute"], _integrator_post, "integrator.starts_at_zero")
    _installed = True


# --------------------------------------------------------------------------
def _dir(rng):
    a = rng.uniform(0, 2 * math.pi)
    return math.cos(a), math.sin(a)


PYTH = [(3, 4), (5, 12), (8, 15), (7, 24), (20, 21), (1, 0), (0, 1), (-3, 4), (4, -3), (-5, -12), (-1, 0), (0, -1),
        (-8, -15), (-1, 0)]


def _rand_case(rng):
    n = rng.choice([2, 2, 3, 3, 4, 5, 6, 7, 8, 9, 10, 11, 12])
    style = rng.choice(["log", "log", "log", "lattice", "mixed", "mm", "far", "same_pos", "same_time", "unit"])
    if rng.random() < 0.012:
        # larger scale: a log of a thousand fixes and more
        n = rng.choice([1000, 1001, 1500, 2500, 4001])
        style = rng.choice(["log", "unit", "lattice", "mm"])
    x, y, z = rng.choice([(0.0, 0.0, 0.0), (rng.uniform(-1e3, 1e3), rng.uniform(-1e3, 1e3), rng.uniform(-50, 50)),
                          (5.0e5, -2.0e5, 100.0)])
    pts = [[x, y, z]]
    for i in range(1, n):
        if style == "same_pos" or (style != "lattice" and rng.random() < 0.12):
            dx = dy = 0.0
        elif style == "lattice":
            a, b = rng.choice(PYTH)
            s = rng.choice([1, 1, 2, 10, 1000])
            dx, dy = float(a * s), float(b * s)
            if rng.random() < 0.1:
                dx = dy = 0.0
        else:
            if style == "mm":
                L = rng.uniform(1e-3, 2e-3)
            elif style == "far":
                L = rng.uniform(5e4, 1e5)
            elif style == "unit":
                L = rng.choice([1.0, 0.5, 2.0, 10.0])
            elif style == "mixed":
                L = rng.choice([1e-3, 1e5, 1e-3, 7.5e4, 1.0])
            else:
                L = 10 ** rng.uniform(-3, 5)
            ux, uy = _dir(rng)
            dx, dy = L * ux, L * uy
        zmode = rng.random()
        if zmode < 0.25:
            dz = 0.0
        elif zmode < 0.5:
            dz = rng.uniform(-5, 5)
        elif zmode < 0.8:
            dz = rng.choice([-1, 1]) * 10 ** rng.uniform(0, 4)
        else:
            dz = rng.choice([1000.0, -1000.0, 1e5])
        px, py, pz = pts[-1]
        pts.append([px + dx, py + dy, pz + dz])
    base = rng.choice([BASE_1970, BASE_2021]) + rng.randrange(0, 5000)
    ms = [base]
    calendar = n <= 12 and rng.random() < 0.1
    for i in range(1, n):
        if style == "same_time":
            dt = 0
        elif calendar:
            # sparse sampling on calendar steps (a marker surveyed daily, weekly, monthly, yearly): consecutive fixes
            # share their time of day, often their day of the month or their day and month
            dt = 86400000 * rng.choice([1, 7, 28, 29, 30, 31, 31, 30, 365, 366]) + rng.choice([0, 0, 0, 1000, -3600000, 45000])
        else:
            dt = rng.choice([0, 0, 1, 10, 1000, 1000, 60000, 3600000, rng.randrange(1, 100000), 999, 1001])
        ms.append(ms[-1] + dt)
    order = rng.choice(["abs_curv_first", "speed_first"])
    c = {"kind": "track", "pts": pts, "ms": ms, "order": order}
    if calendar:
        c["calendar_steps"] = 1
    if rng.random() < 0.2:
        # the calendar fields of the timestamps held as numpy integers (taken out of an array); coordinates of the
        # lattice style held as Python ints
        c["numpy_time_fields"] = 1
        if style == "lattice" and all(float(v).is_integer() for p in pts for v in p):
            c["pts"] = [[int(v) for v in p] for p in pts]
    return c


def cases(chunk):
    kind = chunk["kind"]
    if kind == "enum":
        idx = 0
        for n in chunk["ns"]:
            for pat in itertools.product(range(4), repeat=n - 1):
                if idx % chunk["of"] == chunk["shard"]:
                    pts = [[2.0, -1.0, 3.0]]
                    ms = [BASE_1970 if (sum(pat) % 2 == 0) else BASE_2021]
                    for j, p in enumerate(pat):
                        px, py, pz = pts[-1]
                        if p & 1:                       # a new position: Pythagorean step, z jumps too
                            a, b = PYTH[(j + p + n) % len(PYTH)]
                            pts.append([px + a, py + b, pz + 7.0 * (j + 1)])
                        else:                           # same planimetric position, different height
                            pts.append([px, py, pz - 11.0])
                        ms.append(ms[-1] + (1500 * (j + 1) if p & 2 else 0))
                    yield {"kind": "track", "pts": pts, "ms": ms,
                           "order": "abs_curv_first" if idx % 2 == 0 else "speed_first"}
                idx += 1
    elif kind == "rand":
        rng = gen.rng_for(PROP, chunk)
        for _ in range(chunk["n"]):
            yield _rand_case(rng)


# --------------------------------------------------------------------------
def _snapshot(tr):
    return {"x": tr.getX(), "y": tr.getY(), "z": tr.getZ(),
            "t": [gen.obstime_fields(tr.getObs(i).timestamp) for i in range(tr.size())], "n": tr.size()}


def _same_list(a, b):
    if not isinstance(a, list) or not isinstance(b, list) or len(a) != len(b):
        return False
    for u, v in zip(a, b):
        if isinstance(u, float) and isinstance(v, float) and u != u and v != v:
            continue
        if u != v:
            return False
    return True


def _check_abs_curv(S, P, ctx, where):
    """S: values observed; P: [(x, y)] read before the call."""
    n = len(P)
    ctx.monitor("abs_curv.definition")
    if not isinstance(S, list) or len(S) != n:
        return {"what": "%s: abs_curv is not a list of %d values" % (where, n), "got": S}
    for v in S:
        if not isinstance(v, (int, float)) or v != v:
            return {"what": "%s: abs_curv holds a non-number" % where, "got": S}
    if S[0] != 0:
        return {"what": "%s: abs_curv does not start at 0" % where, "got": S}
    legs = [math.hypot(P[i][0] - P[i - 1][0], P[i][1] - P[i - 1][1]) for i in range(1, n)]
    for i in range(1, n):
        inc = S[i] - S[i - 1]
        leg = legs[i - 1]
        if inc < 0:
            return {"what": "%s: abs_curv decreases" % where, "index": i, "got": S}
        if abs(inc - leg) > 1e-9 * max(abs(S[i]), leg) + 1e-300:
            return {"what": "%s: abs_curv increment differs from the planimetric distance between consecutive fixes"
                            % where, "index": i, "increment": inc, "planimetric_leg": leg, "got": S, "legs": legs}
    total = geom.polyline_length(P)
    if abs(S[-1] - total) > 1e-9 * total + 1e-300:
        return {"what": "%s: abs_curv does not end at the planimetric length" % where, "got_end": S[-1],
                "planimetric_length": total}
    return None


def _expected_speed(P, ms):
    """[(value | None for NaN, relative tolerance)]"""
    n = len(P)
    tmax = max(abs(m) for m in ms) / 1000.0
    out = []
    for i in range(n):
        a, b = (0, 1) if i == 0 else ((n - 2, n - 1) if i == n - 1 else (i - 1, i + 1))
        dms = ms[b] - ms[a]
        if dms == 0:
            out.append((None, 0.0))
            continue
        dt = dms / 1000.0
        d = math.hypot(P[b][0] - P[a][0], P[b][1] - P[a][1])
        out.append((d / dt, 1e-9 + 4.0 * math.ulp(tmax) / dt))
    return out


def _check_speed(V, P, ms, ctx, where):
    n = len(P)
    ctx.monitor("speed.definition")
    if not isinstance(V, list) or len(V) != n:
        return {"what": "%s: speed is not a list of %d values" % (where, n), "got": V}
    exp = _expected_speed(P, ms)
    for i in range(n):
        g = V[i]
        e, tol = exp[i]
        if not isinstance(g, (int, float)):
            return {"what": "%s: speed holds a non-number" % where, "index": i, "got": V}
        if e is None:
            if g == g:
                return {"what": "%s: speed is not NaN although the elapsed time is zero" % where, "index": i,
                        "got": g, "ms": ms}
            continue
        if g != g:
            return {"what": "%s: speed is NaN although the elapsed time is positive" % where, "index": i,
                    "expected": e, "ms": ms}
        if abs(g - e) > tol * abs(e) + 1e-300:
            return {"what": "%s: speed differs from planimetric distance / elapsed time (%s)"
                            % (where, "one-sided end rule" if i in (0, n - 1) else "centred rule"),
                    "index": i, "got": g, "expected": e, "rel_tol": tol, "ms": ms}
    return None


def run_case(case, ctx):
    from tracklib.algo.cinematics import computeAbsCurv
    pts, ms, order = case["pts"], case["ms"], case["order"]
    n = len(pts)
    if n < 2 or any(ms[i] < ms[i - 1] for i in range(1, n)):
        return gen.ood("fewer than 2 fixes or decreasing timestamps")
    legs = [math.hypot(pts[i][0] - pts[i - 1][0], pts[i][1] - pts[i - 1][1]) for i in range(1, n)]
    dts = [ms[i] - ms[i - 1] for i in range(1, n)]
    cls = [order]
    if any(d == 0 for d in dts):
        cls.append("repeated_timestamp")
    if any(l == 0 for l in legs):
        cls.append("repeated_position")
    if all(d == 0 for d in dts):
        cls.append("all_same_time")
    if all(l == 0 for l in legs):
        cls.append("all_same_position")
    if any(0 < l <= 2e-3 for l in legs):
        cls.append("leg_mm")
    if any(l >= 5e4 for l in legs):
        cls.append("leg_100km")
    if any(0 < l <= 1e-2 for l in legs) and any(l >= 1e4 for l in legs):
        cls.append("mixed_scales")
    if any(pts[i][2] != pts[0][2] for i in range(n)):
        cls.append("z_varies")
    if dts[0] == 0:
        cls.append("zero_time_first")
    if dts[-1] == 0:
        cls.append("zero_time_last")
    if any(ms[i + 1] == ms[i - 1] for i in range(1, n - 1)):
        cls.append("zero_time_interior")
    if n == 2:
        cls.append("n2")
    cls.append("epoch_2021" if ms[0] >= BASE_2021 else "epoch_1970")
    nontrivial = any(l > 0 for l in legs) and any(d > 0 for d in dts)
    sig = ("track", tuple(tuple(p) for p in pts), tuple(ms), order)

    tr = gen.make_track([tuple(p) for p in pts], ms)
    if n >= 1000:
        cls.append("track_of_1000+_fixes")
    if case.get("calendar_steps"):
        cls.append("sparse_sampling_on_calendar_steps")
        F = [gen.fields_from_ms(m) for m in ms]
        if any(F[i][2] == F[i + 1][2] and F[i][:2] != F[i + 1][:2] for i in range(n - 1)):
            cls.append("consecutive_fixes_on_the_same_day_of_different_months")
    if case.get("numpy_time_fields"):
        import numpy as np
        from tracklib.core.obs_time import ObsTime
        for i in range(n):
            f = gen.fields_from_ms(ms[i])
            tr.getObs(i).timestamp = ObsTime(*[np.int64(v) for v in f])
        cls.append("timestamp_fields_held_as_numpy_ints")
    if (n + int(ms[-1] // 100)) % 4 == 3:
        tr, _how = gen.derive(tr, (pts, ms), allow=gen.DERIVE_HOWS + ["hidden_slots", "hidden_slots"])
    before = _snapshot(tr)
    P = list(zip(before["x"], before["y"]))
    if [gen.ms_from_fields(*f) for f in before["t"]] != list(ms):
        raise M.HarnessError("timestamps read back differ from those written")

    def unchanged(where):
        ctx.monitor("xyzt.unchanged")
        after = _snapshot(tr)
        bad = [k for k in before if not (before[k] == after[k] if k == "n" else _same_list(before[k], after[k]))]
        if bad:
            return {"what": "%s changed positions or timestamps" % where, "changed": bad,
                    "before": {k: before[k] for k in bad}, "after": {k: after[k] for k in bad}}
        return None

    def do_abs_curv():
        r1 = M.call(computeAbsCurv, tr)
        if M.is_raised(r1):
            return {"what": "computeAbsCurv raised", "raised": r1}
        f1 = M.call(tr.getAnalyticalFeature, "abs_curv")
        if M.is_raised(f1):
            return {"what": "abs_curv feature unreadable after computeAbsCurv", "raised": f1}
        w = _check_abs_curv(f1, P, ctx, "feature") or _check_abs_curv(r1, P, ctx, "return value") \
            or unchanged("computeAbsCurv")
        if w:
            return w
        r2 = M.call(computeAbsCurv, tr)
        if M.is_raised(r2):
            return {"what": "second computeAbsCurv raised", "raised": r2}
        f2 = M.call(tr.getAnalyticalFeature, "abs_curv")
        ctx.monitor("abs_curv.repeatable")
        if not _same_list(f1, f2) or not _same_list(r1, r2):
            return {"what": "second computeAbsCurv gives different values", "first": f1, "second": f2,
                    "first_returned": r1, "second_returned": r2}
        return unchanged("second computeAbsCurv")

    def do_speed():
        r1 = M.call(tr.estimate_speed)
        if M.is_raised(r1):
            return {"what": "estimate_speed raised", "raised": r1, "ms": ms}
        f1 = M.call(tr.getAnalyticalFeature, "speed")
        if M.is_raised(f1):
            return {"what": "speed feature unreadable after estimate_speed", "raised": f1}
        w = _check_speed(f1, P, ms, ctx, "feature") or _check_speed(r1, P, ms, ctx, "return value") \
            or unchanged("estimate_speed")
        if w:
            return w
        r2 = M.call(tr.estimate_speed)
        if M.is_raised(r2):
            return {"what": "second estimate_speed raised", "raised": r2}
        f2 = M.call(tr.getAnalyticalFeature, "speed")
        ctx.monitor("speed.repeatable")
        if not _same_list(f1, f2) or not _same_list(r1, r2):
            return {"what": "second estimate_speed gives different values", "first": f1, "second": f2,
                    "first_returned": r1, "second_returned": r2}
        return unchanged("second estimate_speed")

    if (n + int(ms[-1] // 1000)) % 4 == 0:
        # degenerate request first: a smoothed speed over a window wider than the track is refused (a warning, no
        # result); the plain requests below follow on the same track object
        M.call(tr.estimate_speed, n + 3)
        ctx.count("refused_smoothed_speed_request_first")
        cls.append("after_refused_request")
    steps = [do_abs_curv, do_speed] if order == "abs_curv_first" else [do_speed, do_abs_curv]
    for st in steps:
        w = st()
        if w:
            w.update({"pts": pts, "ms": list(ms), "order": order})
            return violated(w, sig, nontrivial, cls)
    # after both: the features computed first are still what they were defined to be
    w = _check_abs_curv(M.call(tr.getAnalyticalFeature, "abs_curv"), P, ctx, "feature (after both)") \
        or _check_speed(M.call(tr.getAnalyticalFeature, "speed"), P, ms, ctx, "feature (after both)")
    if w:
        w.update({"pts": pts, "ms": list(ms), "order": order})
        return violated(w, sig, nontrivial, cls)
    # call history: the fixes are moved and re-timed, then both features are computed again on the same
    # track object -- they must follow the definitions for the *current* positions and timestamps
    # (the cached feature columns are deleted before recomputing, see below)
    from tracklib.core.obs_time import ObsTime  # noqa: F401
    ms2 = [ms[0] + 3 * (m - ms[0]) + (7 * i if (m - ms[0]) else 0) for i, m in enumerate(ms)]
    if all(ms2[i] >= ms2[i - 1] for i in range(1, n)) and \
            all((ms2[i] == ms2[i - 1]) == (ms[i] == ms[i - 1]) for i in range(1, n)):
        for i in range(n):
            o = tr.getObs(i)
            o.position.setX(2.0 * pts[i][0] + pts[i][1] + 1.0)
            o.position.setY(pts[i][1] - 0.5 * pts[i][0] - 3.0)
            if (n + int(ms[0] // 1000)) % 2:
                o.timestamp = gen.obstime_from_ms(ms2[i])
            else:
                # the timestamp object is kept and its public calendar fields are set in place
                t_ = o.timestamp
                t_.year, t_.month, t_.day, t_.hour, t_.min, t_.sec, t_.ms = gen.fields_from_ms(ms2[i])
        if not (n + int(ms[0] // 1000)) % 2:
            cls.append("timestamps_edited_in_place")
        snap2 = _snapshot(tr)
        P2 = list(zip(snap2["x"], snap2["y"]))
        if [gen.ms_from_fields(*f) for f in snap2["t"]] == list(ms2):
            ctx.monitor("recompute_after_edit")
            # computeAbsCurv deliberately reuses an existing 'abs_curv' column (it is a cached feature), so
            # the stale columns are deleted first: what is demanded is only that a *fresh* computation
            # follows the definitions for the current geometry
            for name in ("abs_curv", "speed"):
                if name in tr.getListAnalyticalFeatures():
                    tr.removeAnalyticalFeature(name)
            r = M.call(computeAbsCurv, tr)
            f = M.call(tr.getAnalyticalFeature, "abs_curv")
            w = ({"what": "computeAbsCurv raised after the fixes were moved", "raised": r} if M.is_raised(r) else None) \
                or _check_abs_curv(f, P2, ctx, "feature (recomputed after the fixes were moved)") \
                or _check_abs_curv(r, P2, ctx, "return value (recomputed after the fixes were moved)")
            if not w:
                r = M.call(tr.estimate_speed)
                f = M.call(tr.getAnalyticalFeature, "speed")
                w = ({"what": "estimate_speed raised after the fixes were moved", "raised": r} if M.is_raised(r) else None) \
                    or _check_speed(f, P2, ms2, ctx, "feature (recomputed after the fixes were moved)")
            if w:
                w.update({"pts": pts, "ms": list(ms), "order": order, "moved_to": P2, "retimed_to": ms2})
                return violated(w, sig, nontrivial, cls + ["recompute_after_edit"])
            cls.append("recompute_after_edit")
    if n >= 2 and n <= 60 and (n + int(ms[0] // 1000)) % 2 == 0:
        # two tracks used in turn: the point-wise algorithm speed(track, i) asked alternately for two independent tracks
        # of the same number of fixes and other instants (A, B, A, B ...)
        from tracklib.algo.analytics import speed as af_speed
        ms_b = [ms[0] + 2 * (m - ms[0]) + 500 * i for i, m in enumerate(ms)]
        ta = gen.make_track([tuple(p) for p in pts], ms)
        tb = gen.make_track([(p[1] - 4.0, 2.0 * p[0] + 1.0, p[2]) for p in pts], ms_b)
        Pb = [(p[1] - 4.0, 2.0 * p[0] + 1.0) for p in pts]
        va, vb = [], []
        for i in range(n):
            va.append(M.call(af_speed, ta, i))
            vb.append(M.call(af_speed, tb, i))
        ctx.monitor("speed.two_tracks_in_turn")
        bad_ = next((v for v in va + vb if M.is_raised(v)), None)
        w = ({"what": "speed(track, i) raised", "raised": bad_} if bad_ is not None else None) \
            or _check_speed(va, P, ms, ctx, "speed(A, i) asked in turn with speed(B, i)") \
            or _check_speed(vb, Pb, ms_b, ctx, "speed(B, i) asked in turn with speed(A, i)")
        if w:
            w.update({"pts": pts, "ms": list(ms), "ms_of_the_other_track": ms_b})
            return violated(w, sig, nontrivial, cls + ["two_tracks_in_turn"])
        cls.append("two_tracks_in_turn")
    # alternative entry points to the same feature: the operator interface (per-leg feature 'ds' integrated in place
    # under the name abs_curv) and the expression shorthand I{ds}
    if (n + int(ms[0] // 1000)) % 3 == 0:
        from tracklib.algo.analytics import ds as af_ds0
        from tracklib.core.operators import Operator
        tr4 = gen.make_track([tuple(p) for p in pts], ms)
        r = M.call(tr4.addAnalyticalFeature, af_ds0, "abs_curv")
        if not M.is_raised(r):
            r = M.call(tr4.operate, Operator.INTEGRATOR, "abs_curv")
        f = M.call(tr4.getAnalyticalFeature, "abs_curv")
        ctx.monitor("abs_curv.operator_interface")
        w = ({"what": "ds + INTEGRATOR (in place) raised", "raised": r} if M.is_raised(r) else None) \
            or _check_abs_curv(f, P, ctx, "feature (ds integrated in place through the operator interface)")
        if not w:
            tr5 = gen.make_track([tuple(p) for p in pts], ms)
            r = M.call(tr5.addAnalyticalFeature, af_ds0, "ds")
            if not M.is_raised(r):
                r = M.call(tr5.operate, "abs_curv=I{ds}")
            f = M.call(tr5.getAnalyticalFeature, "abs_curv")
            w = ({"what": "abs_curv=I{ds} raised", "raised": r} if M.is_raised(r) else None) \
                or _check_abs_curv(f, P, ctx, "feature (expression abs_curv=I{ds})")
        if w:
            w.update({"pts": pts, "ms": list(ms), "order": order})
            return violated(w, sig, nontrivial, cls + ["operator_interface"])
        cls.append("operator_interface")
    # call history on a second track object: the per-leg feature 'ds' is computed by the user, the track is then
    # trimmed at its ends (the legs that remain keep their lengths), and the abscissa is computed on what is left
    if n >= 3:
        from tracklib.algo.analytics import ds as af_ds
        k_head = 1 + (len(sig[1]) + int(ms[-1] // 7)) % (n - 2)         # 1 .. n-2 fixes removed at the head
        k_tail = (int(ms[0] // 11) % 2) if n - k_head >= 3 else 0
        how = ("remove_first", "extract")[int(ms[-1] // 13) % 2]
        tr3 = gen.make_track([tuple(p) for p in pts], ms)
        r = M.call(tr3.addAnalyticalFeature, af_ds)
        if not M.is_raised(r) and "ds" in tr3.getListAnalyticalFeatures():
            if how == "remove_first":
                for _ in range(k_head):
                    tr3.removeFirstObs()
                for _ in range(k_tail):
                    tr3.removeLastObs()
            else:
                tr3 = tr3.extract(k_head, n - 1 - k_tail)
            P3 = P[k_head:n - k_tail]
            if tr3.size() == len(P3) and len(P3) >= 2:
                ctx.monitor("abs_curv_after_trimming")
                r = M.call(computeAbsCurv, tr3)
                f = M.call(tr3.getAnalyticalFeature, "abs_curv")
                w = ({"what": "computeAbsCurv raised on a trimmed track", "raised": r} if M.is_raised(r) else None) \
                    or _check_abs_curv(f, P3, ctx, "feature (track carrying a user-computed 'ds', trimmed by %s: %d at the "
                                                   "head, %d at the tail)" % (how, k_head, k_tail)) \
                    or _check_abs_curv(r, P3, ctx, "return value (trimmed track)")
                if w:
                    w.update({"pts": pts, "ms": list(ms), "order": order, "trimmed_to": P3})
                    return violated(w, sig, nontrivial, cls + ["trimmed_with_ds"])
                cls.append("trimmed_with_ds")
    if (n + int(ms[-1] // 1000)) % 6 == 1:
        # process-wide setting: the documented origin of the elapsed seconds (ObsTime.UNIX_BASE_YEAR) is changed by the
        # caller between two computations; a track that straddles a new year is then asked for its speeds -- elapsed
        # times, hence speeds, do not depend on the origin
        from tracklib.core.obs_time import ObsTime
        Y = 1975 + (n * 13 + int(ms[0] // 1000)) % 110
        base_a = gen.ms_from_fields(Y, 12, 31, 23, 59, 40, 0)
        ms_a = [base_a - 86400000 * 40 + 10000 * i for i in range(3)]          # a track inside year Y
        ms_b = [base_a + 10000 * i for i in range(4)]                          # ... and one across new year
        Pa = [(100.0 * i, 0.0) for i in range(3)]
        Pb = [(0.0, 50.0 * i) for i in range(4)]
        old_base = ObsTime.UNIX_BASE_YEAR
        try:
            ta = gen.make_track([(q[0], q[1], 0.0) for q in Pa], ms_a)
            M.call(ta.estimate_speed)
            va = M.call(ta.getAnalyticalFeature, "speed")
            ObsTime.UNIX_BASE_YEAR = max(1900, Y - 30 + (n % 3) * 10)
            tb = gen.make_track([(q[0], q[1], 0.0) for q in Pb], ms_b)
            M.call(tb.estimate_speed)
            vb = M.call(tb.getAnalyticalFeature, "speed")
        finally:
            ObsTime.UNIX_BASE_YEAR = old_base
        ctx.monitor("speed.after_the_origin_of_elapsed_seconds_was_changed")
        w = ({"what": "estimate_speed raised", "raised": va if M.is_raised(va) else vb} if M.is_raised(va) or M.is_raised(vb) else None) \
            or _check_speed(list(va), Pa, ms_a, ctx, "speed of a track inside one year") \
            or _check_speed(list(vb), Pb, ms_b, ctx, "speed of a track across new year, after ObsTime.UNIX_BASE_YEAR was changed")
        if w:
            w.update({"year": Y, "ms_first_track": ms_a, "ms_second_track": ms_b})
            return violated(w, sig, nontrivial, cls + ["origin_of_elapsed_seconds_changed"])
        cls.append("origin_of_elapsed_seconds_changed")
    return held(sig, nontrivial, cls)


def classify(case, witness):
    return None



# floors for the call-history workloads added in session 3 (a run in which they were silently skipped is inconclusive)
_floors_base = floors
_FLOORS_EXTRA = {'monitors': {'abs_curv_after_trimming': 1000},
                 'classes': {'track_of_1000+_fixes': 20, 'two_tracks_in_turn': 1000, 'timestamps_edited_in_place': 500, 'timestamp_fields_held_as_numpy_ints': 500,
                             'consecutive_fixes_on_the_same_day_of_different_months': 150,
                             'origin_of_elapsed_seconds_changed': 500}}


def floors(tier):
    f = _floors_base(tier)
    for kind, d in _FLOORS_EXTRA.items():
        f.setdefault(kind, {}).update(d)
    return f
