"""C16 -- simplification keeps the end points, only drops fixes, honours its
tolerance (DESIGN.md section 4, C16).

The real simplify(track, tolerance, MODE_SIMPLIFY_DOUGLAS_PEUCKER | _VISVALINGAM)
is run on ENU tracks of 2..12 fixes whose observations carry strictly
increasing ms-exact timestamps (the identity of an observation).  Oracle:

  - the call returns (no exception, no hang) -- also on repeated / coincident
    positions, closed loops, all-identical positions;
  - the output's timestamps are a strictly increasing subsequence of the
    input's, starting with the first and ending with the last;
  - x / y / z of every kept fix are those of the input fix with that timestamp;
  - the input track is unchanged;
  - Douglas-Peucker only: every input fix lies within tol + 1e-9 of the output
    polyline (point-polyline distance from vt/oracles/geom.py, independent of
    tracklib).
"""
from __future__ import annotations

import itertools
import math

from vt import gen, monitor as M
from vt.gen import held, violated
from vt.oracles import geom

PROP = "C16"
RULE = ("(a) enumerated: every sequence of 2..5 (quick) / 2..6 (thorough) fixes over a 2x2 unit lattice and of 2..4 / 2..5 "
        "fixes over a 3x2 lattice (thorough also 2..4 over 3x3) -- i.e. every pattern of duplicates, revisits, closed loops, "
        "collinear runs and all-identical positions on short tracks -- x tolerances straddling the lattice distances x both "
        "modes; (b) seeded tracks of 2..12 fixes: uniform, integer lattice, collinear back-and-forth runs, consecutive "
        "duplicates, revisited positions, closed loops, all-identical, spikes, tiny (1e-3) and large (1e4, offset 1e5) "
        "extents x tolerances {1e-6, 0.01, 0.5, 1, 3, 50} relative to a 10 m extent x both modes. "
        "distinct = (mode, tolerance, positions); non-trivial = at least 3 fixes and at least 2 distinct positions "
        "(something can be dropped and there is a shape to preserve).")
ASSUMPTIONS = ["observations are identified by their strictly increasing ms-exact timestamps written by the harness",
               "'within the tolerance' is judged as distance <= tol + 1e-9 with an independent point-segment distance",
               "tolerances are positive; tracks have at least 2 fixes",
               "simplify() is called with its default verbose argument and the two mode constants of "
               "tracklib.algo.simplification"]
EXHAUSTIVE = {"quick": "all 1 360 position sequences of length 2..5 over a 2x2 lattice and all 1 548 of length 2..4 over a "
                       "3x2 lattice, each with 4 (resp. 3) tolerances and both modes",
              "thorough": "all 5 456 sequences of length 2..6 over a 2x2 lattice, all 9 324 of length 2..5 over a 3x2 lattice, "
                          "all 7 371 of length 2..4 over a 3x3 lattice, each with 4 (resp. 3) tolerances and both modes"}
SOFT_MONITORS = ['dp.every_level_keeps_ends', 'distance_to_segment.finite_nonneg']      # contracts on private helpers: diagnostics, see vt/runner.py
CASE_LIMIT_S = 20.0

T0_MS = gen.ms_from_fields(2019, 7, 8, 9, 10, 11, 0)
REL_TOLS = [1e-6, 0.01, 0.5, 1.0, 3.0, 50.0]
LATT_TOLS = {"2x2": [0.01, 0.75, 1.0, 3.0], "3x2": [0.01, 0.75, 3.0], "3x3": [0.01, 1.2, 50.0]}
NCH_RAND = 12


def chunks(tier, seed):
    q = tier == "quick"
    out = []
    plan = [("2x2", 2, 2, range(2, 6 if q else 7)), ("3x2", 3, 2, range(2, 5 if q else 6))]
    if not q:
        plan.append(("3x3", 3, 3, range(2, 5)))
    for name, w, h, ns in plan:
        for n in ns:
            total = (w * h) ** n
            of = max(1, min(8, total // 600))
            for k in range(of):
                out.append({"kind": "lattice", "name": name, "w": w, "h": h, "n": n, "shard": k, "of": of,
                            "key": "lat%s.%d.%d" % (name, n, k)})
    # merge the tiny lattice chunks
    small = [c for c in out if (c["w"] * c["h"]) ** c["n"] < 300]
    big = [c for c in out if c not in small]
    out = [{"kind": "lattices", "parts": small, "key": "lat-small"}] + big
    per = 70 if q else 900
    for k in range(NCH_RAND):
        out.append({"kind": "rand", "n": per, "key": "rand%d" % k})
    return out


def floors(tier):
    q = tier == "quick"
    return {"monitors": {"returns": 20000 if q else 150000,
                         "subsequence_with_ends": 20000 if q else 150000,
                         "kept_fixes_unchanged": 20000 if q else 150000,
                         "input_unchanged": 20000 if q else 150000,
                         "dp.error_bound": 10000 if q else 75000,
                         "dp.every_level_keeps_ends": 20000,
                         "distance_to_segment.finite_nonneg": 50000},
            "classes": {"dp": 10000, "vw": 10000, "collinear_run": 2000, "consecutive_duplicate": 2000,
                        "revisited_position": 2000, "closed_loop": 1000, "all_identical": 50, "n2": 50,
                        "tol_far_below_extent": 300, "tol_far_above_extent": 300, "dropped_some": 2000,
                        "kept_all": 2000, "only_ends_kept": 1000, "spike": 100, "extent_tiny": 100, "extent_large": 100,
                        "backtracking_on_a_line": 100, "n_ge_9": 500},
            "distinct_nontrivial": 15000 if q else 100000}


# --------------------------------------------------------------------------
def _ts(o):
    return gen.obstime_fields(o.timestamp)


def _dts_post(a, k, result):
    if not isinstance(result, (int, float)) or result != result or result < 0 or math.isinf(result):
        return "distance_to_segment%r returned %r" % (tuple(a), result)
    return None


def _dp_post(a, k, result):
    """Every call of douglas_peucker -- the recursive ones included -- is a
    Douglas-Peucker simplification of the track it is given: the result must
    begin / end with that track's first / last observation."""
    track = a[0] if a else k.get("track")
    n = track.size()
    if n == 0:
        M.CTX.count("dp.empty_subtrack")
        return None
    m = result.size()
    if m < 1 or m > n:
        return "douglas_peucker returned %d observations for %d" % (m, n)
    if _ts(result.getObs(0)) != _ts(track.getObs(0)) or _ts(result.getObs(m - 1)) != _ts(track.getObs(n - 1)):
        return "douglas_peucker on a (sub-)track of %d fixes lost its first or last fix" % n
    return None


_installed = False


def setup(ctx):
    global _installed
    if _installed:
        return
    import importlib
    S = importlib.import_module("tracklib.algo.simplification")
    G = importlib.import_module("tracklib.util.geometry")
    old_d = G.distance_to_segment
    new_d = M.wrap_post(old_d, _dts_post, "distance_to_segment.finite_nonneg")
    G.distance_to_segment = new_d
    M.patch_everywhere(old_d, new_d)
    old_dp = S.douglas_peucker
    new_dp = M.wrap_post(old_dp, _dp_post, "dp.every_level_keeps_ends")
    S.douglas_peucker = new_dp
    M.patch_everywhere(old_dp, new_dp)
    if S.distance_to_segment is not new_d or S.douglas_peucker is not new_dp:
        raise M.HarnessError("stale binding left in tracklib.algo.simplification")
    _installed = True


# --------------------------------------------------------------------------
def _extent(pts):
    xs = [p[0] for p in pts]
    ys = [p[1] for p in pts]
    return max(max(xs) - min(xs), max(ys) - min(ys))


def _rand_track(rng):
    n = rng.choice([2, 3, 3, 4, 5, 6, 7, 8, 9, 10, 11, 12, 12])
    style = rng.choice(["uniform", "uniform", "lattice", "lattice", "collinear", "dups", "revisit", "loop", "loop_lattice",
                        "identical", "spike", "tiny", "large", "line_lattice", "loop_dups", "map_fine", "map_fine",
                        "int_lattice", "int_staircase"])
    if rng.random() < 0.03:
        style = "dense_long"
    U = lambda: round(rng.uniform(0, 10), 3)
    if style == "int_lattice":
        # coordinates held as Python ints (typed without a decimal point, read from an integer grid)
        pts = [[rng.randint(0, 16), rng.randint(0, 16)] for _ in range(n)]
    elif style == "int_staircase":
        step = rng.choice([1, 2, 4, 5])
        x = y = 0
        pts = [[0, 0]]
        for i in range(n - 1):
            if i % 2 == 0:
                x += step
            else:
                y += step * rng.choice([1, 1, 2])
            pts.append([x, y])
    elif style == "dense_long":
        # larger scale: a densely sampled log of 400+ fixes, spacing well below most of the tolerances tried
        n = rng.choice([401, 450, 800, 1500])
        x, y, th = 0.0, 0.0, rng.uniform(0, 2 * math.pi)
        om = rng.uniform(0.02, 0.3)
        pts = []
        for i in range(n):
            pts.append([round(x, 4), round(y, 4)])
            th += rng.uniform(-0.3, 0.3) + 0.5 * math.sin(i * om)
            x += 0.8 * math.cos(th)
            y += 0.8 * math.sin(th)
    elif style == "uniform":
        pts = [[U(), U()] for _ in range(n)]
    elif style == "lattice":
        pts = [[float(rng.randint(0, 4)), float(rng.randint(0, 4))] for _ in range(n)]
    elif style == "line_lattice":
        a, b = rng.choice([(1, 0), (0, 1), (1, 1), (2, 1), (-1, 2)])
        pts = [[float(a * t + 5), float(b * t + 5)] for t in [rng.randint(-2, 2) for _ in range(n)]]
    elif style == "collinear":
        x0, y0 = U(), U()
        a = rng.uniform(0, math.pi)
        ts_ = [rng.uniform(-5, 5) for _ in range(n)]
        if rng.random() < 0.5:
            ts_.sort()
        pts = [[x0 + t * math.cos(a), y0 + t * math.sin(a)] for t in ts_]
        if rng.random() < 0.5 and n >= 3:
            j = rng.randrange(n)
            pts[j] = [pts[j][0] + rng.uniform(-1, 1), pts[j][1] + rng.uniform(-1, 1)]
    elif style == "dups":
        pts = []
        while len(pts) < n:
            p = [U(), U()]
            for _ in range(rng.choice([1, 1, 2, 3])):
                if len(pts) < n:
                    pts.append(list(p))
    elif style == "revisit":
        pool = [[U(), U()] for _ in range(rng.randint(1, 4))]
        pts = [list(rng.choice(pool)) for _ in range(n)]
    elif style in ("loop", "loop_lattice", "loop_dups"):
        if style == "loop_lattice":
            pts = [[float(rng.randint(0, 3)), float(rng.randint(0, 3))] for _ in range(n)]
        else:
            pts = [[U(), U()] for _ in range(n)]
        if style == "loop_dups" and n >= 4:
            pts[1] = list(pts[0])
            pts[-2] = list(pts[0])
        pts[-1] = list(pts[0])
    elif style == "identical":
        p = [U(), U()]
        pts = [list(p) for _ in range(n)]
    elif style == "spike":
        # nearly straight base line with a far hairpin beyond one of its ends
        pts = [[float(i), round(rng.uniform(-0.05, 0.05), 3)] for i in range(n)]
        if n >= 3:
            j = rng.randrange(1, n - 1)
            pts[j] = [rng.choice([-1.0, 1.0]) * rng.uniform(15, 40) + (0 if rng.random() < 0.5 else n), pts[j][1]]
    elif style == "map_fine":
        # realistic magnitudes: projected map coordinates of about a million metres, fixes a few centimetres apart
        # with centimetre noise (tolerances of millimetres to centimetres follow from the extent)
        x0, y0 = rng.choice([(904000.0, 6435000.0), (3500000.0, 5600000.0), (652000.0, 6862000.0)])
        a = rng.uniform(0, math.pi)
        pts = [[round(x0 + 0.05 * i * math.cos(a) + rng.uniform(-0.02, 0.02), 4),
                round(y0 + 0.05 * i * math.sin(a) + rng.uniform(-0.02, 0.02), 4)] for i in range(n)]
    elif style == "tiny":
        pts = [[1.0 + round(rng.uniform(0, 1e-3), 9), 2.0 + round(rng.uniform(0, 1e-3), 9)] for _ in range(n)]
    else:  # large
        pts = [[1e5 + round(rng.uniform(0, 1e4), 2), -2e5 + round(rng.uniform(0, 1e4), 2)] for _ in range(n)]
    return style, pts


def cases(chunk):
    kind = chunk["kind"]
    if kind in ("lattice", "lattices"):
        parts = chunk["parts"] if kind == "lattices" else [chunk]
        for part in parts:
            cells = [(float(x), float(y)) for y in range(part["h"]) for x in range(part["w"])]
            for idx, seq in enumerate(itertools.product(cells, repeat=part["n"])):
                if idx % part["of"] != part["shard"]:
                    continue
                pts = [list(p) for p in seq]
                for tol in LATT_TOLS[part["name"]]:
                    for mode in ("DP", "VW"):
                        yield {"kind": "simp", "pts": pts, "tol": tol, "mode": mode, "style": "enum" + part["name"]}
    elif kind == "rand":
        rng = gen.rng_for(PROP, chunk)
        for _ in range(chunk["n"]):
            style, pts = _rand_track(rng)
            ext = _extent(pts)
            scale = ext / 10.0 if ext > 0 else 1.0
            for rel in REL_TOLS:
                for mode in ("DP", "VW"):
                    c = {"kind": "simp", "pts": pts, "tol": rel * scale, "mode": mode, "style": style}
                    if len(pts) > 300:
                        c["limit_x"] = 6
                    yield c


# --------------------------------------------------------------------------
def _times(n):
    return [T0_MS + i * 1000 + (i * 371) % 997 for i in range(n)]


def _snapshot(tr):
    return {"n": tr.size(), "x": tr.getX(), "y": tr.getY(), "z": tr.getZ(),
            "t": [_ts(tr.getObs(i)) for i in range(tr.size())],
            "features": list(tr.getListAnalyticalFeatures()),
            "nfeat": [len(tr.getObs(i).features) for i in range(tr.size())]}


def _collinear(a, b, c):
    return (b[0] - a[0]) * (c[1] - a[1]) - (b[1] - a[1]) * (c[0] - a[0]) == 0


def _classes(pts, tol, mode, style):
    n = len(pts)
    T = [tuple(p) for p in pts]
    cls = ["dp" if mode == "DP" else "vw"]
    if n == 2:
        cls.append("n2")
    if n >= 9:
        cls.append("n_ge_9")
    if any(T[i] == T[i + 1] for i in range(n - 1)):
        cls.append("consecutive_duplicate")
    if n <= 200 and any(T[i] == T[j] for i in range(n) for j in range(i + 2, n)):
        cls.append("revisited_position")
    if n > 400:
        cls.append("track_of_400+_observations")
    if all(isinstance(c, int) for p in pts for c in p):
        cls.append("coordinates_held_as_python_ints")
    if n >= 3 and T[0] == T[-1]:
        cls.append("closed_loop")
    if len(set(T)) == 1:
        cls.append("all_identical")
    if any(_collinear(T[i], T[i + 1], T[i + 2]) for i in range(n - 2)):
        cls.append("collinear_run")
    for i in range(n - 2):
        a, b, c = T[i], T[i + 1], T[i + 2]
        if a != b and b != c and _collinear(a, b, c) and \
                (b[0] - a[0]) * (c[0] - b[0]) + (b[1] - a[1]) * (c[1] - b[1]) < 0:
            cls.append("backtracking_on_a_line")
            break
    ext = _extent(pts)
    if ext > 0 and tol <= 1e-4 * ext:
        cls.append("tol_far_below_extent")
    if tol >= 3 * max(ext, 1e-12):
        cls.append("tol_far_above_extent")
    if style == "spike":
        cls.append("spike")
    if style == "tiny":
        cls.append("extent_tiny")
    if style == "large":
        cls.append("extent_large")
    return cls


def _mode_const(mode):
    import importlib
    S = importlib.import_module("tracklib.algo.simplification")
    return S.MODE_SIMPLIFY_DOUGLAS_PEUCKER if mode == "DP" else S.MODE_SIMPLIFY_VISVALINGAM


def run_case(case, ctx):
    """The judged simplification, then -- as a call history on the same objects -- the same input track
    simplified again by the other algorithm with another tolerance, and the output simplified once more."""
    res, tr, out = _judge(case, ctx)
    if res["v"] != "held" or tr is None:
        return res
    other = "VW" if case["mode"] == "DP" else "DP"
    tol2 = case["tol"] * (4.0 if case.get("style") != "identical" else 1.0)
    pts_in = [[tr.getObs(i).position.getX(), tr.getObs(i).position.getY()] for i in range(tr.size())]
    if case["mode"] == "VW" and out is not None and out.size() >= 1 and len(case["pts"]) % 2 == 0:
        # aliasing: the simplified track belongs to the caller, who gives it a feature of its own (Visvalingam's output
        # holds its own observation objects); the input is then simplified again by the same algorithm
        M.call(out.createAnalyticalFeature, "__of_the_caller", 7.0)
        ctx.count("output_given_a_feature_by_the_caller")
        r1, _, _ = _judge({"pts": pts_in, "tol": tol2, "mode": "VW", "style": case.get("style"), "_nested": 1}, ctx, tr)
        if r1["v"] == "violated":
            r1["witness"]["history"] = ("Visvalingam again on the same input track after the caller gave the first OUTPUT a "
                                        "feature of its own")
            r1["sig"], r1["nt"] = res["sig"], res["nt"]
            return r1
    r2, _, _ = _judge({"pts": pts_in, "tol": tol2, "mode": other, "style": case.get("style"), "_nested": 1}, ctx, tr)
    if r2["v"] == "violated":
        r2["witness"]["history"] = "second simplify() on the same input track (first: %s, tol %r)" % (case["mode"], case["tol"])
        r2["sig"], r2["nt"] = res["sig"], res["nt"]
        return r2
    if out is not None and out.size() >= 2:
        pts_out = [[out.getObs(i).position.getX(), out.getObs(i).position.getY()] for i in range(out.size())]
        r3, _, _ = _judge({"pts": pts_out, "tol": case["tol"] * 0.5, "mode": other, "style": case.get("style"), "_nested": 1}, ctx, out)
        if r3["v"] == "violated":
            r3["witness"]["history"] = "simplify() applied to the output of an earlier simplify() (%s, tol %r)" % (case["mode"], case["tol"])
            r3["sig"], r3["nt"] = res["sig"], res["nt"]
            return r3
        res["cls"] = list(res["cls"]) + ["history_resimplified"]
        if out.size() >= 3:
            # ... and a PIECE of the output of an earlier simplification (it carries whatever that run left on it),
            # by both algorithms
            m_ = out.size()
            i_ = 1 if m_ >= 4 else 0
            j_ = m_ - 1 if i_ else m_ - 2
            piece = M.call(out.extract, i_, j_) if (len(case["pts"]) % 2) else M.call(lambda: out[i_:j_ + 1])
            if not M.is_raised(piece) and piece.size() == j_ - i_ + 1 and piece.size() >= 2:
                pts_pc = [[piece.getObs(k).position.getX(), piece.getObs(k).position.getY()] for k in range(piece.size())]
                for mode6 in (case["mode"], other):
                    r6, _, _ = _judge({"pts": pts_pc, "tol": case["tol"] * 2.0, "mode": mode6, "style": case.get("style"),
                                       "_nested": 1}, ctx, piece)
                    if r6["v"] == "violated":
                        r6["witness"]["history"] = ("simplify() on a piece (%d..%d) of the output of an earlier simplify() "
                                                    "(%s, tol %r)" % (i_, j_, case["mode"], case["tol"]))
                        r6["sig"], r6["nt"] = res["sig"], res["nt"]
                        return r6
                res["cls"] = list(res["cls"]) + ["history_piece_of_output"]
    # derived input in which the same observation OBJECTS sit at several positions: a lap repeated by t + t, a loop
    # closed by t + t.extract(0, 0) -- repeated positions by construction
    npts = len(case["pts"])
    if npts >= 2 and (npts + int(case["tol"] * 131)) % 4 == 0:
        base_t = gen.make_track([(p[0], p[1], 0.5 * i - 1.0) for i, p in enumerate(case["pts"])], _times(npts))
        if (npts + int(case["tol"] * 17)) % 2:
            al = M.call(lambda: base_t + base_t)
            pts_al = [list(p) for p in case["pts"]] * 2
            how_al = "t + t"
        else:
            al = M.call(lambda: base_t + base_t.extract(0, 0))
            pts_al = [list(p) for p in case["pts"]] + [list(case["pts"][0])]
            how_al = "t + t.extract(0, 0)"
        if not M.is_raised(al):
            for mode5 in (case["mode"], other):
                r5, _, _ = _judge({"pts": pts_al, "tol": case["tol"], "mode": mode5, "style": case.get("style"),
                                   "_nested": 1}, ctx, al)
                if r5["v"] == "violated":
                    r5["witness"]["history"] = "input built as %s (the same observation objects at several positions)" % how_al
                    r5["sig"], r5["nt"] = res["sig"], res["nt"]
                    return r5
            res["cls"] = list(res["cls"]) + ["aliased_input"]
    # portions and trimmed versions of an input track that has already been simplified (by both algorithms above)
    n = tr.size()
    if n >= 3:
        import random
        rng = random.Random(repr((case["pts"], case["tol"], case["mode"])))
        i = rng.randrange(0, n - 1)
        j = rng.randrange(i + 1, n)
        if (i, j) == (0, n - 1):
            i = 1
        how = rng.choice(["extract", "slice", "trim"])
        if how == "extract":
            sub = M.call(tr.extract, i, j)
        elif how == "slice":
            sub = M.call(lambda: tr[i:j + 1])
        else:
            def _trim():
                c = tr.copy()
                for _ in range(n - 1 - j):
                    c.removeLastObs()
                for _ in range(i):
                    c.removeFirstObs()
                return c
            sub = M.call(_trim)
        if M.is_raised(sub) or sub.size() != j - i + 1:
            ctx.count("history_portion_unavailable")
            return res
        pts_sub = [[sub.getObs(k).position.getX(), sub.getObs(k).position.getY()] for k in range(sub.size())]
        for mode4, tol4 in ((case["mode"], tol2), (other, case["tol"])):
            r4, _, _ = _judge({"pts": pts_sub, "tol": tol4, "mode": mode4, "style": case.get("style"), "_nested": 1}, ctx, sub)
            if r4["v"] == "violated":
                r4["witness"]["history"] = ("simplify() on a portion (%s %d..%d) of an input track that was simplified before "
                                            "(first: %s, tol %r)" % (how, i, j, case["mode"], case["tol"]))
                r4["sig"], r4["nt"] = res["sig"], res["nt"]
                return r4
        res["cls"] = list(res["cls"]) + ["history_portion"]
    return res


def _judge(case, ctx, tr=None):
    def violated(*a, **k):
        return gen.violated(*a, **k), None, None

    def held(*a, **k):
        return gen.held(*a, **k), tr, out
    import importlib
    S = importlib.import_module("tracklib.algo.simplification")
    pts, tol, mode = case["pts"], case["tol"], case["mode"]
    n = len(pts)
    if n < 2 or not (tol > 0) or math.isinf(tol):
        return gen.ood("fewer than 2 fixes or non-positive tolerance"), None, None
    cls = _classes(pts, tol, mode, case.get("style"))
    sig = (mode, tol, tuple(tuple(p) for p in pts))
    nontrivial = n >= 3 and len({tuple(p) for p in pts}) >= 2
    ms = _times(n)
    if tr is None:
        tr = gen.make_track([(p[0], p[1], 0.5 * i - 1.0) for i, p in enumerate(pts)], ms)
        if (n + int(tol * 977)) % 4 == 2:
            tr, _how = gen.derive(tr, (pts, tol, mode))
        elif (n + int(tol * 977)) % 4 == 3 and n >= 2:
            # call history: the curvilinear abscissa (and a feature of the caller's) was computed when the coordinates
            # were still in kilometres; the caller then converted them to metres IN PLACE -- the features are stale, the
            # geometry to simplify is the one the track has now
            from tracklib.algo.cinematics import computeAbsCurv
            for i, p in enumerate(pts):
                tr.getObs(i).position.setX(p[0] / 1000.0)
                tr.getObs(i).position.setY(p[1] / 1000.0)
            r0 = M.call(computeAbsCurv, tr)
            M.call(tr.createAnalyticalFeature, "quality", [float(i % 4) for i in range(n)])
            for i, p in enumerate(pts):
                tr.getObs(i).position.setX(p[0])
                tr.getObs(i).position.setY(p[1])
            if not M.is_raised(r0):
                cls.append("features_computed_before_the_coordinates_were_rescaled_in_place")
    before = _snapshot(tr)
    src_obs = [tr.getObs(i) for i in range(n)]
    index_of = {t: i for i, t in enumerate(before["t"])}
    base = {"mode": mode, "tolerance": tol, "pts": pts}

    hk = (len(pts) * 7 + int(tol * 1000) + (3 if mode == "DP" else 0)) % 5
    if hk == 0 and case.get("style") is not None and not case.get("_nested"):
        # error path first: the same request on a track with an undefined coordinate cannot be honoured; what it
        # raises is not judged
        from tracklib.core.obs import Obs
        from tracklib.core.obs_coords import ENUCoords
        from tracklib.core.track import Track
        bad = Track()
        for i, tms_ in enumerate(ms[:3] if n >= 3 else ms):
            bad.addObs(Obs(ENUCoords(None if i == 1 else float(i), float(i), 0.0), gen.obstime_from_ms(tms_)))
        M.call(S.simplify, bad, tol, _mode_const(mode))
        ctx.count("rejected_request_before_valid_one")
    if hk == 1 and not case.get("_nested"):
        # alternative entry point: Network.simplify replaces the geometry of every edge by its simplification
        def via_network():
            from tracklib.core.network import Network, Node, Edge
            net = Network()
            e = Edge("e0", tr)
            closed = tuple(pts[0]) == tuple(pts[-1])          # a loop edge: the same node at both ends
            ns = Node("s", tr.getObs(0).position.copy())
            net.addEdge(e, ns, ns if closed else Node("t", tr.getObs(n - 1).position.copy()))
            net.simplify(tol, _mode_const(mode))
            return net.EDGES["e0"].geom
        out = M.call(via_network)
        cls.append("via_network_simplify")
    else:
        out = M.call(S.simplify, tr, tol, _mode_const(mode))
    ctx.monitor("returns")
    if M.is_raised(out):
        return violated(dict(base, what="simplify() failed", kind="raised", raised=out), sig, nontrivial, cls)

    ctx.monitor("input_unchanged")
    after = _snapshot(tr)
    # the property speaks of the observations; a feature column left on the input (e.g. a cache) is an event, not a verdict
    if before["features"] != after["features"] or before["nfeat"] != after["nfeat"]:
        ctx.count("input_feature_table_changed")
    changed = [k for k in ("n", "x", "y", "z", "t") if before[k] != after[k]]
    if changed or any(tr.getObs(i) is not src_obs[i] for i in range(min(n, tr.size()))):
        return violated(dict(base, what="simplify() changed its input track", kind="input_changed",
                             changed=changed or ["observation identity/order"]), sig, nontrivial, cls)

    m = M.call(out.size)
    if M.is_raised(m):
        return violated(dict(base, what="simplify() did not return a track", kind="not_a_track", got=repr(out)[:200]),
                        sig, nontrivial, cls)
    ctx.monitor("subsequence_with_ends")
    idx = []
    aliased = len(index_of) < n          # the same observation sits at several positions (t + t, a closed loop by +)
    if aliased:
        # observations cannot be told apart by their timestamp: an order-preserving embedding of the output into
        # the input is searched for, its first / last elements pinned on the input's first / last positions
        key_in = [(before["t"][i], before["x"][i], before["y"][i], before["z"][i]) for i in range(n)]
        key_out = []
        for j in range(m):
            pj = out.getObs(j).position
            key_out.append((_ts(out.getObs(j)), pj.getX(), pj.getY(), pj.getZ()))
        if m >= 1 and key_out[0] == key_in[0]:
            idx.append(0)
        elif m >= 1:
            idx.append(-1)
        ptr = 1
        for j in range(1, m - 1):
            while ptr < n - 1 and key_in[ptr] != key_out[j]:
                ptr += 1
            if ptr >= n - 1:
                return violated(dict(base, what="the output is not a subsequence of the input in its original order "
                                                "(a fix repeated, foreign or out of order)", kind="not_subsequence",
                                     aliased_input=True), sig, nontrivial, cls)
            idx.append(ptr)
            ptr += 1
        if m >= 2:
            idx.append(n - 1 if key_out[-1] == key_in[-1] and (not idx or idx[-1] < n - 1) else -2)
    for j in range(m if not aliased else 0):
        i = index_of.get(_ts(out.getObs(j)))
        if i is None:
            return violated(dict(base, what="the output holds a fix that is not an input observation",
                                 kind="foreign_fix", position=j, timestamp=_ts(out.getObs(j))), sig, nontrivial, cls)
        idx.append(i)
    if aliased and idx and idx[-1] == -2:
        return violated(dict(base, what="the last observation is missing from the output", kind="last_missing",
                             kept_indices=idx, aliased_input=True), sig, nontrivial, cls)
    if not aliased and any(idx[j] >= idx[j + 1] for j in range(m - 1)):
        return violated(dict(base, what="the output is not a subsequence of the input in its original order "
                                        "(a fix repeated or out of order)", kind="not_subsequence", kept_indices=idx),
                        sig, nontrivial, cls)
    if not idx or idx[0] != 0:
        return violated(dict(base, what="the first observation is missing from the output", kind="first_missing",
                             kept_indices=idx), sig, nontrivial, cls)
    if idx[-1] != n - 1:
        return violated(dict(base, what="the last observation is missing from the output", kind="last_missing",
                             kept_indices=idx), sig, nontrivial, cls)

    ctx.monitor("kept_fixes_unchanged")
    for j, i in enumerate(idx):
        p = out.getObs(j).position
        if (p.getX(), p.getY(), p.getZ()) != (before["x"][i], before["y"][i], before["z"][i]):
            return violated(dict(base, what="a kept fix was moved", kind="moved", input_index=i,
                                 got=[p.getX(), p.getY(), p.getZ()],
                                 expected=[before["x"][i], before["y"][i], before["z"][i]]), sig, nontrivial, cls)

    if mode == "DP":
        ctx.monitor("dp.error_bound")
        P = list(zip(before["x"], before["y"]))
        poly = [P[i] for i in idx]
        worst = (-1.0, None)
        for i in range(n):
            d = geom.point_polyline_dist(P[i], poly)
            if d > worst[0]:
                worst = (d, i)
        if worst[0] > tol + 1e-9:
            return violated(dict(base, what="Douglas-Peucker: an input fix lies farther than the tolerance from the "
                                            "simplified polyline", kind="error_bound", kept_indices=idx,
                                 input_index=worst[1], distance=worst[0]), sig, nontrivial, cls)
    if m < n:
        cls.append("dropped_some")
    else:
        cls.append("kept_all")
    if m == 2 and n > 2:
        cls.append("only_ends_kept")
    return held(sig, nontrivial, cls)


def _tri(a, b, c):
    return 0.5 * abs((b[0] - a[0]) * (c[1] - b[1]) - (c[0] - b[0]) * (b[1] - a[1]))


def _vw_eliminates_all_interior(pts, tol):
    """Classification aid only (never a verdict): does smallest-area-first
    elimination with threshold tol^2 remove every interior fix?"""
    P = list(pts)
    while len(P) > 2:
        areas = [_tri(P[i - 1], P[i], P[i + 1]) for i in range(1, len(P) - 1)]
        k = min(range(len(areas)), key=areas.__getitem__)
        if not (areas[k] <= tol * tol):
            return False
        del P[k + 1]
    return True


def classify(case, witness):
    """Mechanisms of the two C16 defects already fixed in /repo (status
    'fixed' in known_findings.json, so nothing is suppressed; this only labels
    replays).  Predicates over the input: the mode and the shape of the track."""
    if not isinstance(witness, dict) or case.get("kind") != "simp":
        return None
    pts = [tuple(p) for p in case["pts"]]
    n = len(pts)
    tol = case["tol"]
    raised = witness.get("raised")
    if isinstance(raised, M.Raised):
        text = raised.brief()
    elif isinstance(raised, dict):
        text = str(raised.get("raised"))
    else:
        text = str(raised)
    kind = witness.get("kind")
    if case["mode"] == "DP" and kind == "raised" and "ZeroDivisionError" in text \
            and any(pts[i] == pts[j] for i in range(n) for j in range(i + 2, n)):
        return "C16:dp-zero-length-chord"          # a chord of zero length can be formed (revisit / closed loop)
    if case["mode"] == "VW" and (kind == "first_missing" or (kind == "raised" and "IndexError" in text)):
        # the first fix carries the wrapped-around area (last, first, second): it is eliminated when that area is
        # within the tolerance; the track is emptied when every interior area is within the tolerance
        if n == 2 or _tri(pts[-1], pts[0], pts[1]) <= tol * tol or _vw_eliminates_all_interior(pts, tol):
            return "C16:visvalingam-endpoints"
    return None


# floors for the call-history workloads added in session 3 (a run in which they were silently skipped is inconclusive)
_floors_base = floors
_FLOORS_EXTRA = {'classes': {'features_computed_before_the_coordinates_were_rescaled_in_place': 2000, 'history_portion': 5000, 'history_resimplified': 5000,
                             'coordinates_held_as_python_ints': 500, 'track_of_400+_observations': 60}}


def floors(tier):
    f = _floors_base(tier)
    for kind, d in _FLOORS_EXTRA.items():
        f.setdefault(kind, {}).update(d)
    return f
