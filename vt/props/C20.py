"""C20 -- projecting a point on a segment / polyline / track returns the nearest
point (DESIGN.md section 4, C20).

Driven: the real tracklib.util.geometry.proj_segment / proj_polyligne and
tracklib.algo.mapping.mapOnTrack (single coordinate and Track variant).
Oracle (vt/oracles/geom.py, stdlib only): the returned point lies on the
segment / polyline, the returned distance equals |query - point| and the
independently computed (exact rational) minimum distance, the returned leg
index carries the point -- all within 1e-9 * scale.
"""
from __future__ import annotations

import math

from vt import gen, monitor as M
from vt.gen import held, violated, ood
from vt.oracles import geom as G

PROP = "C20"
RULE = ("one case = one segment or polyline (2..8 vertices; coordinates lattice / halves / 1-6 decimals / many-decimal reals / "
        "projected-map magnitudes; legs vertical, near-vertical (|dx| = 1e-6..1e-13 |dy|), horizontal, near-horizontal, oblique, "
        "zero-length) with 4..6 query points (beside a leg, beyond its ends, on it, at a vertex, far away, random nearby), pushed "
        "through proj_segment, proj_polyligne, mapOnTrack(coord) or mapOnTrack(track). Distinct = distinct (function, geometry, "
        "queries). Non-trivial = the geometry has a leg of non-zero length and for at least one query the nearest point is the "
        "interior foot on a leg (not a vertex).")
ASSUMPTIONS = ["fractions.Fraction arithmetic and math.hypot/sqrt are correct (minimum distance is computed exactly in rationals)",
               "tolerance 1e-9 * max(1, largest coordinate magnitude of geometry and query)",
               "a polyline whose legs all have zero length, and proj_segment on a zero-length segment, are degenerate: out of domain",
               "legs shorter than 1e-16 (skipped by proj_polyligne as zero-length) are not generated"]
CASE_LIMIT_S = 20.0

KF_VERTICAL = "C20:vertical-segment"


def mechanism(a, b):
    """Known-finding id whose input predicate the leg [a, b] satisfies, or
    None.  The only open finding: an exactly vertical leg (x1 == x2)."""
    if a[0] == b[0] and a[1] != b[1]:
        return KF_VERTICAL
    return None


ORIENT = ["oblique", "vertical", "horizontal", "near-vertical", "near-horizontal"]
QKINDS = ["beside", "beyond", "on", "vertex", "far", "near"]
CKINDS = ["lattice", "half", "dec", "real", "map", "pyint", "tiny", "mm_map"]


# --------------------------------------------------------------------------
def chunks(tier, seed):
    mult = 1 if tier == "quick" else 8
    out = []
    for k in range(12):
        out.append({"kind": "seg", "key": "seg%d" % k, "n": 2500 * mult})
    for k in range(8):
        out.append({"kind": "poly", "key": "poly%d" % k, "n": 1500 * mult})
    for k in range(4):
        out.append({"kind": "track", "key": "track%d" % k, "n": 700 * mult})
    for k in range(4):
        out.append({"kind": "tracks", "key": "tracks%d" % k, "n": 500 * mult})
    return out


def floors(tier):
    m = 1 if tier == "quick" else 8
    return {"monitors": {"proj_segment.nearest": 50000 * m, "proj_polyligne.nearest": 20000 * m,
                         "proj_polyligne.index_carries_point": 20000 * m,
                         "mapOnTrack.nearest": 5000 * m, "mapOnTrack.index_carries_point": 5000 * m,
                         "mapOnTrack(track).nearest": 3000 * m},
            "classes": {"leg:vertical": 2000 * m, "leg:near-vertical": 2000 * m, "leg:horizontal": 2000 * m,
                        "leg:near-horizontal": 2000 * m, "leg:oblique": 5000 * m, "leg:zero": 1000 * m,
                        "q:beside": 5000 * m, "q:beyond": 5000 * m, "q:on": 5000 * m, "q:vertex": 5000 * m,
                        "q:far": 5000 * m,
                        "fn:proj_segment": 10000 * m, "fn:proj_polyligne": 5000 * m, "fn:mapOnTrack": 1000 * m,
                        "fn:mapOnTrack(track)": 1000 * m,
                        "coords:lattice": 1000 * m, "coords:real": 1000 * m,
                        "judged-clean:vertical-free": 10000 * m},
            "distinct_nontrivial": 20000 * m}


def setup(ctx):
    import tracklib.util.geometry  # noqa: F401  (fail early if the tree is unusable)
    import tracklib.algo.mapping   # noqa: F401


# --------------------------------------------------------------------------
# generators
def _coord(rng, ck):
    if ck == "pyint":
        return rng.randint(-20, 20)          # coordinates held as Python ints
    if ck == "lattice":
        return float(rng.randint(-20, 20))
    if ck == "half":
        return rng.randint(-40, 40) / 2.0
    if ck == "dec":
        return round(rng.uniform(-100, 100), rng.choice([1, 2, 3, 6]))
    if ck == "map":
        return rng.choice([650000.0, 6860000.0]) + round(rng.uniform(0, 2000), rng.choice([0, 2, 3]))
    if ck == "tiny":
        # degrees (or kilometres) loaded as local coordinates: everything happens within a few 1e-5 of a unit
        return rng.uniform(-0.05, 0.05)
    if ck == "mm_map":
        # projected map coordinates (offsets of 1e5..1e7) with legs of millimetres to centimetres
        return rng.choice([650000.0, 6860000.0]) + rng.uniform(0, 2000)
    return rng.uniform(-1000, 1000)


def _delta(rng, ck):
    """non-zero coordinate increment of the chunk's coordinate kind"""
    while True:
        if ck == "pyint":
            d = rng.randint(-12, 12)
        elif ck == "lattice":
            d = float(rng.randint(-12, 12))
        elif ck == "half":
            d = rng.randint(-24, 24) / 2.0
        elif ck == "dec":
            d = round(rng.uniform(-60, 60), rng.choice([1, 2, 3, 6]))
        elif ck == "map":
            d = round(rng.uniform(-300, 300), rng.choice([0, 2, 3]))
        elif ck == "tiny":
            d = rng.choice([-1, 1]) * rng.uniform(2e-6, 9e-5)
        elif ck == "mm_map":
            d = rng.choice([-1, 1]) * rng.uniform(5e-4, 2e-2)
        else:
            d = rng.uniform(-400, 400)
        if d != 0.0:
            return d


def _next_vertex(rng, ck, p, o):
    x, y = p
    for _ in range(20):
        if o == "zero":
            return (x, y)
        if o == "vertical":
            q = (x, y + _delta(rng, ck))
        elif o == "horizontal":
            q = (x + _delta(rng, ck), y)
        elif o == "near-vertical":
            dy = _delta(rng, ck)
            r = 10.0 ** (-rng.randint(6, 13)) * rng.uniform(0.2, 1.0)
            q = (x + abs(dy) * r * rng.choice([-1, 1]), y + dy)
        elif o == "near-horizontal":
            dx = _delta(rng, ck)
            r = 10.0 ** (-rng.randint(6, 13)) * rng.uniform(0.2, 1.0)
            q = (x + dx, y + abs(dx) * r * rng.choice([-1, 1]))
        else:
            q = (x + _delta(rng, ck), y + _delta(rng, ck))
        if q != (x, y):
            return q
    return (x + 1.0, y + 1.0)


def _query(rng, ck, pts, qk):
    """one query point of kind qk relative to a random non-degenerate leg"""
    legs = [i for i in range(len(pts) - 1) if pts[i] != pts[i + 1]]
    i = rng.choice(legs)
    (x1, y1), (x2, y2) = pts[i], pts[i + 1]
    dx, dy = x2 - x1, y2 - y1
    L = math.hypot(dx, dy)
    nx, ny = -dy / L, dx / L
    if qk == "beside":
        t = rng.choice([rng.uniform(0, 1), 0.5, 0.25, rng.uniform(0, 0.02), rng.uniform(0.98, 1)])
        off = rng.choice([rng.uniform(-2, 2) * L, rng.uniform(-1, 1), 1.0, -0.5, rng.uniform(-1e-3, 1e-3)])
        return (x1 + t * dx + off * nx, y1 + t * dy + off * ny)
    if qk == "beyond":
        t = rng.choice([rng.uniform(-2, -0.01), rng.uniform(1.01, 3), -0.5, 1.5])
        off = rng.choice([rng.uniform(-2, 2) * L, 0.0, rng.uniform(-1, 1)])
        return (x1 + t * dx + off * nx, y1 + t * dy + off * ny)
    if qk == "on":
        if rng.random() < 0.4:
            return ((x1 + x2) / 2.0, (y1 + y2) / 2.0)          # exact for lattice / half coordinates
        t = rng.choice([rng.uniform(0, 1), 0.25, 0.75, 0.125])
        return (x1 + t * dx, y1 + t * dy)
    if qk == "vertex":
        return rng.choice(pts)
    if qk == "far":
        s = rng.choice([1e3, 1e4, 1e5])
        return (x1 + rng.uniform(-s, s) + rng.choice([-s, s]), y1 + rng.uniform(-s, s))
    # "near": a random point of the same coordinate kind in the neighbourhood
    if ck in ("lattice", "half", "dec", "pyint"):
        return (_coord(rng, ck), _coord(rng, ck))
    return (x1 + _delta(rng, ck), y1 + _delta(rng, ck))


def _orient_weights(kind):
    if kind == "seg":
        return ORIENT, [36, 14, 14, 18, 18]
    return ORIENT + ["zero"], [40, 10, 10, 12, 12, 16]


def cases(chunk):
    rng = gen.rng_for(PROP, chunk)
    kind = chunk["kind"]
    names, weights = _orient_weights(kind)
    for it in range(chunk["n"]):
        ck = rng.choice(CKINDS)
        p = (_coord(rng, ck), _coord(rng, ck))
        if kind == "seg":
            if it % 500 == 499:
                pts = [p, p]                                   # degenerate: counted out of domain
            else:
                pts = [p, _next_vertex(rng, ck, p, rng.choices(names, weights)[0])]
        else:
            n = rng.randint(2, 8)
            if it % 60 == 31:
                n = rng.choice([65, 66, 129, 200, 500, 1000])   # larger scale: polylines of dozens to a thousand vertices
            # in half of the polylines no leg is axis-aligned, so that the
            # polyline logic is judged without interference of the open findings
            clean = rng.random() < 0.5
            pts = [p]
            for _ in range(n - 1):
                if clean:
                    o = rng.choices(["oblique", "near-horizontal", "zero"], [70, 12, 18])[0]
                else:
                    o = rng.choices(names, weights)[0]
                pts.append(_next_vertex(rng, ck, pts[-1], o))
            if it % 400 == 399:
                pts = [p] * n                                  # all legs zero: out of domain
        Q = []
        if any(pts[i] != pts[i + 1] for i in range(len(pts) - 1)):
            kinds = list(QKINDS)
            rng.shuffle(kinds)
            for qk in kinds[:rng.randint(4, 6)]:
                q = _query(rng, ck, pts, qk)
                if ck == "pyint" and kind == "tracks":
                    q = (int(round(q[0])), int(round(q[1])))       # the query track holds ints too
                Q.append([q[0], q[1], qk])
        else:
            Q.append([p[0] + 1.0, p[1] + 2.0, "near"])
        yield {"kind": kind, "ck": ck, "X": [v[0] for v in pts], "Y": [v[1] for v in pts], "Q": Q}


# --------------------------------------------------------------------------
# oracle
def _finite(v):
    return isinstance(v, (int, float)) and not isinstance(v, bool) and math.isfinite(v)


def _tol(pts, q):
    s = 1.0
    for p in pts:
        s = max(s, abs(p[0]), abs(p[1]))
    s = max(s, abs(q[0]), abs(q[1]))
    return 1e-9 * s


def judge(pts, q, d, px, py, idx=None, want_idx=False):
    """None when (d, (px, py), idx) is a correct projection of q on the
    polyline pts, otherwise a description of what is wrong."""
    try:
        d, px, py = float(d), float(px), float(py)
    except (TypeError, ValueError):
        return "result is not numeric"
    if not (math.isfinite(d) and math.isfinite(px) and math.isfinite(py)):
        return "result is not finite"
    tol = _tol(pts, q)
    off = G.point_polyline_dist((px, py), pts)
    if off > tol:
        return "returned point is %.3g away from the polyline" % off
    dqp = math.hypot(q[0] - px, q[1] - py)
    if abs(dqp - d) > tol:
        return "returned distance %.17g differs from |query - point| = %.17g" % (d, dqp)
    dmin = G.point_polyline_dist_exact(q, pts)
    if abs(d - dmin) > tol:
        return "returned distance %.17g differs from the minimum distance %.17g" % (d, dmin)
    if want_idx:
        try:
            ok = int(idx) == idx and 0 <= int(idx) <= len(pts) - 2
        except (TypeError, ValueError):
            ok = False
        if not ok:
            return "returned index %r is not a leg index" % (idx,)
        i = int(idx)
        offi = G.point_segment_dist((px, py), pts[i], pts[i + 1])
        if offi > tol:
            return "returned leg %d does not carry the returned point (%.3g away)" % (i, offi)
    return None


def _pts(case):
    return list(zip(case["X"], case["Y"]))


def _leg_classes(pts):
    return [G.orientation_class(pts[i], pts[i + 1]) for i in range(len(pts) - 1)]


# --------------------------------------------------------------------------
# which leg is responsible?  (used by classify; a predicate over the input)
def _per_leg(pts, q):
    """real proj_segment on every non-degenerate leg, judged by the per-leg
    oracle.  -> list of (i, class, result | None, exc_type | None, problem)"""
    from tracklib.util.geometry import proj_segment
    out = []
    for i in range(len(pts) - 1):
        a, b = pts[i], pts[i + 1]
        if a == b:
            continue
        cls = G.orientation_class(a, b)
        try:
            r = proj_segment([a[0], a[1], b[0], b[1]], q[0], q[1])
            exc = None
            prob = judge([a, b], q, r[0], r[1], r[2])
        except (M.CaseTimeout, KeyboardInterrupt):
            raise
        except BaseException as e:  # noqa
            r, exc, prob = None, type(e).__name__, "raised " + type(e).__name__
        out.append((i, cls, r, exc, prob))
    return out


def _reference_selection(perleg):
    """What a correct 'minimum over the legs, first best wins' gives when fed
    with tracklib's own per-leg answers: ('raise', type) or ('value', d, x, y, i)."""
    best = None
    for i, cls, r, exc, prob in perleg:
        if exc is not None:
            return ("raise", exc)
        if best is None or r[0] < best[1]:
            best = ("value", r[0], r[1], r[2], i)
    return best


def _same(a, b):
    try:
        return float(a) == float(b)
    except (TypeError, ValueError):
        return False


def classify_query(case, qi, got, raised_type):
    """Known-finding id for one failing query, or None.

    The failure is attributed to the open finding (exactly vertical leg) only
    if (1) the real proj_segment is wrong on at least one leg, (2) every leg on
    which it is wrong is exactly vertical (x1 == x2), and (3) the polyline-level
    answer actually observed is exactly what a correct minimum-over-legs gives
    from tracklib's own per-leg answers -- i.e. the polyline / mapOnTrack logic
    itself did nothing wrong.  Everything else stays a violation."""
    pts = _pts(case)
    q = case["Q"][qi][:2]
    perleg = _per_leg(pts, q)
    wrong = [(i, mechanism(pts[i], pts[i + 1])) for i, cls, r, exc, prob in perleg if prob]
    if not wrong:
        return None
    if any(mech is None for i, mech in wrong):
        return None
    ref = _reference_selection(perleg)
    if ref is None:
        return None
    if ref[0] == "raise":
        if raised_type != ref[1]:
            return None
    else:
        if raised_type is not None or got is None:
            return None
        if not (_same(got[0], ref[1]) and _same(got[1], ref[2]) and _same(got[2], ref[3])):
            return None
        if case["kind"] != "seg":
            if len(got) < 4 or not _same(got[3], ref[4]):
                return None
    return KF_VERTICAL


def _raised_type(w):
    r = w.get("raised")
    if r is None:
        return None
    if isinstance(r, M.Raised):
        return r.type
    if isinstance(r, dict):
        return str(r.get("raised", "")).split(":")[0]
    return str(r).split(":")[0]


def classify(case, witness):
    if not isinstance(witness, dict) or witness.get("qi") is None:
        return None
    hg = witness.get("history_geometry")
    if isinstance(hg, dict):            # the failing projection was made on the moved geometry
        case = dict(case, X=list(hg["X"]), Y=list(hg["Y"]))
        if hg.get("Q"):
            case["Q"] = [list(q) for q in hg["Q"]]
    if witness.get("what", "").startswith("mapOnTrack(track) output"):
        return None
    try:
        return classify_query(case, int(witness["qi"]), witness.get("got"), _raised_type(witness))
    except (M.CaseTimeout, KeyboardInterrupt):
        raise
    except Exception:
        return None


# --------------------------------------------------------------------------
def _make_track(pts):
    from tracklib.core.obs_coords import ENUCoords
    from tracklib.core.obs import Obs
    from tracklib.core.obs_time import ObsTime
    from tracklib.core.track import Track
    tr = Track()
    for k, p in enumerate(pts):
        tr.addObs(Obs(ENUCoords(p[0], p[1], 0.0), ObsTime(1970, 1, 1, 0, 0, k % 60, 0)))
    return tr


def _call_single(kind, case, pts, q, track):
    """-> (got tuple | None, Raised | None)"""
    if kind == "seg":
        from tracklib.util.geometry import proj_segment
        r = M.call(proj_segment, [pts[0][0], pts[0][1], pts[1][0], pts[1][1]], q[0], q[1])
        if M.is_raised(r):
            return None, r
        return (r[0], r[1], r[2]), None
    if kind == "poly":
        from tracklib.util.geometry import proj_polyligne
        r = M.call(proj_polyligne, list(case["X"]), list(case["Y"]), q[0], q[1])
        if M.is_raised(r):
            return None, r
        return (r[0], r[1], r[2], r[3]), None
    from tracklib.core.obs_coords import ENUCoords
    from tracklib.algo.mapping import mapOnTrack
    qobj = ENUCoords(q[0], q[1], 0.0)
    r = M.call(mapOnTrack, qobj, track)
    if M.is_raised(r):
        return None, r
    try:
        got = (r[1], r[0].getX(), r[0].getY(), r[2])
        # aliasing the other way round: the caller goes on using ITS query coordinate (moves it to the next position);
        # the point handed back for the earlier query must stay where it was
        qobj.setX(qobj.getX() + 977.5)
        qobj.setY(qobj.getY() - 311.25)
        if (r[0].getX(), r[0].getY()) != (got[1], got[2]):
            return ("the point handed back moved when the caller moved its own query coordinate afterwards (was %r, is %r)"
                    % ((got[1], got[2]), (r[0].getX(), r[0].getY())), None, None, None), None
        # aliasing: the coordinate handed back belongs to the caller, who moves it (the queries that follow on the
        # same reference track are judged against the polyline as it was built)
        M.scribble(r[0])
        return got, None
    except Exception as e:  # malformed result
        return ("malformed: %r" % (r,), None, None, None), None


FN = {"seg": "proj_segment", "poly": "proj_polyligne", "track": "mapOnTrack", "tracks": "mapOnTrack(track)"}


def run_case(case, ctx):
    """The judged projections; then, for the Track front ends, a call history on the same objects: the reference
    track is edited in place (same number of fixes, other positions) and the same queries are projected again."""
    res, track = _run(case, ctx, None)
    if res["v"] != "held" or track is None or case["kind"] not in ("track", "tracks"):
        return res
    if (len(case["X"]) + len(case["Q"])) % 2:
        for i in range(track.size()):
            pos = track.getObs(i).position
            pos.setX(pos.getX() + 3.0)
            pos.setY(2.0 * pos.getY() - 1.0)
    else:
        # the vertices are moved through references the caller obtained EARLIER (before the last projection), not
        # through the track's accessors at the time of the move
        from tracklib.core.obs_coords import ENUCoords as _E
        from tracklib.algo.mapping import mapOnTrack as _map
        refs = [o.position for o in track.getObsList()]
        M.call(_map, _E(case["Q"][0][0], case["Q"][0][1], 0.0), track)
        for pos in refs:
            pos.setX(pos.getX() + 3.0)
            pos.setY(2.0 * pos.getY() - 1.0)
        ctx.count("reference_moved_through_earlier_references")
    # where the vertices are now is computed from where they were, not read back through the track's accessors
    case2 = dict(case, X=[x + 3.0 for x in case["X"]], Y=[2.0 * y - 1.0 for y in case["Y"]])
    q2 = None
    if case["kind"] == "tracks" and _LAST_OUT[0] is not None and len(case["Q"]) % 2 == 0:
        # derived object as the query: the track returned by the first mapping (it already carries the distance and
        # segment features of that mapping), or a copy / an extract of it, is mapped on the moved reference
        o1 = _LAST_OUT[0]
        m1 = o1.size()
        if m1 == len(case["Q"]) and m1 >= 1:
            pick = (m1 + len(case["X"])) % 3
            q2 = o1 if pick == 0 else (o1.copy() if pick == 1 else o1.extract(0, m1 - 1))
            case2["Q"] = [[q2.getObs(i).position.getX(), q2.getObs(i).position.getY(), "near"] for i in range(m1)]
            ctx.count("query_track_is_the_output_of_an_earlier_mapping")
    res2, _ = _run(case2, ctx, track, q2)
    if res2["v"] == "violated":
        res2["witness"]["history"] = "second projection on the same Track object after its fixes were moved in place"
        res2["witness"]["history_geometry"] = {"X": case2["X"], "Y": case2["Y"], "Q": case2["Q"]}
        res2["sig"], res2["nt"] = res["sig"], res["nt"]
        return res2
    if res2["v"] == "held":
        res["cls"] = list(res["cls"]) + ["history_reference_edited_in_place"]
    return res


_LAST_OUT = [None]      # the Track returned by the last mapOnTrack(track, reference) call of _run


def _run(case, ctx, given_track, query_track=None):
    def violated(*a, **k):
        return gen.violated(*a, **k), None

    def held(*a, **k):
        return gen.held(*a, **k), track

    def ood(*a, **k):
        return gen.ood(*a, **k), None
    kind = case["kind"]
    pts = _pts(case)
    Q = case["Q"]
    fn = FN[kind]
    legcls = _leg_classes(pts)
    if all(c == "zero" for c in legcls):
        return ood("degenerate: every leg has zero length", ["fn:" + fn, "leg:zero"])
    cls = ["fn:" + fn, "coords:" + case["ck"]] + sorted(set("leg:" + c for c in legcls)) \
        + sorted(set("q:" + q[2] for q in Q))
    if len(pts) >= 65:
        cls.append("polyline_of_65+_vertices")
    sig = (kind, tuple(case["X"]), tuple(case["Y"]), tuple((q[0], q[1]) for q in Q))
    want_idx = kind != "seg"

    nontrivial = False
    for q in Q:
        t = G.point_polyline(q[:2], pts)[3]
        if 0.0 < t < 1.0:
            nontrivial = True
            break

    results = []          # per query: (got, raised)
    track = None
    if kind in ("track", "tracks"):
        track = given_track
        if track is None and (len(pts) + int(abs(pts[0][0]) * 8)) % 3 == 0:
            # error path first: a projection on the reference when it holds a single fix cannot be honoured; what it
            # raises is not judged.  The reference then receives its other fixes and the valid requests follow on
            # the same Track object.
            from tracklib.core.obs_coords import ENUCoords
            from tracklib.algo.mapping import mapOnTrack
            full = _make_track(pts)
            track = _make_track(pts[:1])
            M.call(mapOnTrack, ENUCoords(Q[0][0], Q[0][1], 0.0), track)
            M.call(mapOnTrack, _make_track([q[:2] for q in Q]), track)
            for i in range(1, len(pts)):
                track.addObs(full.getObs(i))
            cls.append("after_requests_that_failed")
        elif track is None:
            track = _make_track(pts)
            if (len(pts) + len(Q)) % 3 == 1:
                track, _how = gen.derive(track, (case["X"], case["Y"]))
    snap = None
    if track is not None:
        snap = (list(track.getX()), list(track.getY()))
    whole_raised = None
    if kind == "tracks":
        from tracklib.algo.mapping import mapOnTrack
        qtrack = query_track if query_track is not None else _make_track([q[:2] for q in Q])
        out = M.call(mapOnTrack, qtrack, track)
        _LAST_OUT[0] = None if M.is_raised(out) else out
        if M.is_raised(out):
            whole_raised = out
            # which query makes it raise?  the same code path, one coordinate at a time
            for q in Q:
                results.append(_call_single("track", case, pts, q[:2], track))
            if not any(r[1] is not None for r in results):
                return violated({"fn": fn, "qi": None, "what": "mapOnTrack(track) output: the Track variant raised although "
                                 "no single query does", "raised": out, "leg_classes": legcls}, sig, nontrivial, cls)
        else:
            try:
                n_out = len(out)
                for j in range(len(Q)):
                    pos = out[j].position
                    results.append(((out["dist", j], pos.getX(), pos.getY(), out["edge", j]), None))
                if n_out != len(Q):
                    raise ValueError("%d projections for %d queries" % (n_out, len(Q)))
                if query_track is None and len(Q) % 2 == 0:
                    # aliasing: the mapped track belongs to the caller, who moves its points; one more projection on
                    # the same reference track follows and is judged against the polyline as it was built
                    for j in range(n_out):
                        M.scribble(out[j].position)
                    Q = list(Q) + [Q[0]]
                    results.append(_call_single("track", case, pts, Q[0][:2], track))
                    ctx.count("mapped_track_modified_by_the_caller")
            except (M.CaseTimeout, KeyboardInterrupt):
                raise
            except Exception as e:
                return violated({"fn": fn, "qi": None, "what": "mapOnTrack(track) output is malformed: %r" % (e,),
                                 "leg_classes": legcls}, sig, nontrivial, cls)
    else:
        for q in Q:
            results.append(_call_single(kind, case, pts, q[:2], track))

    failures = []
    for qi, (q, (got, raised)) in enumerate(zip(Q, results)):
        ctx.monitor(fn + ".nearest")
        if want_idx:
            ctx.monitor(fn + ".index_carries_point")
        if raised is not None:
            prob = "raised " + raised.brief()
        elif got[1] is None:
            prob = str(got[0])
        else:
            prob = judge(pts, q[:2], got[0], got[1], got[2], got[3] if want_idx else None, want_idx)
        if prob:
            d, p, leg, t = G.point_polyline(q[:2], pts)
            extra_q = qi >= len(case["Q"])          # the projection repeated after the caller modified the first results
            qi = qi if not extra_q else 0
            if extra_q:
                prob += " (the same query projected once more after the caller moved the points returned by the first call)"
            w = {"fn": fn, "qi": qi, "q": q[:2], "qkind": q[2], "what": prob,
                 "got": list(got) if got is not None and raised is None else None,
                 "raised": raised,
                 "expected": {"min_distance": G.point_polyline_dist_exact(q[:2], pts), "nearest_point": list(p),
                              "a_leg_carrying_it": leg},
                 "leg_classes": legcls}
            kf = classify_query(case, qi, w["got"], raised.type if raised is not None else None)
            w["classified"] = kf
            w["legs_where_proj_segment_is_wrong"] = [(i, c) for i, c, r, e, pb in _per_leg(pts, q[:2]) if pb]
            failures.append((kf, w))
    if track is not None:
        ctx.monitor("mapOnTrack.reference_track_unchanged")
        if (list(track.getX()), list(track.getY())) != snap:
            ctx.count("reference_track_modified")
    if not any(mechanism(pts[i], pts[i + 1]) for i in range(len(pts) - 1)):
        cls.append("judged-clean:vertical-free")
    if failures:
        new = [w for kf, w in failures if kf is None]
        w = new[0] if new else failures[0][1]
        w["failing_queries"] = len(failures)
        return violated(w, sig, nontrivial, cls)
    return held(sig, nontrivial, cls)


# floors for the call-history workloads added in session 3 (a run in which they were silently skipped is inconclusive)
_floors_base = floors
_FLOORS_EXTRA = {'classes': {'coords:tiny': 2000, 'coords:mm_map': 2000, 'history_reference_edited_in_place': 1000, 'coords:pyint': 3000,
                             'polyline_of_65+_vertices': 200}}


def floors(tier):
    f = _floors_base(tier)
    for kind, d in _FLOORS_EXTRA.items():
        f.setdefault(kind, {}).update(d)
    return f
