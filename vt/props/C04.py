"""C04 -- sequence operations select exactly the designated observations
(DESIGN.md section 4, C04).

Each observation carries a unique id feature, a unique position and an
ms-exact timestamp; a 20-line list model says which ids every operation must
return; snapshots say the source did not move.
"""
from __future__ import annotations

import itertools

from vt import gen, monitor as M
from vt.gen import held, violated, ood

PROP = "C04"
RULE = ("tracks of every size 0..n (n=7 quick, 10 thorough; plus sizes 15..129 around powers of two for the insertion dichotomy) x timestamp patterns {increasing, duplicates, all equal, reversed, "
        "shuffled, year-end straddling}; per (track, operation) case ALL arguments are enumerated: every insertion instant "
        "before/between/equal/after, every extract(i,j), every pair of span bounds incl. reversed and empty, every k for %, >, <, "
        "every boolean pattern of length 1..4, every index subset for removeObsList (random order), plus chains of chronological "
        "insertions. Distinct = (operation, timestamp rank pattern, size); non-trivial = size >= 2 and the operation has at "
        "least two different possible outcomes over its enumerated arguments.")
ASSUMPTIONS = ["observations are identified by a unique id feature and unique position written by the harness",
               "stable order among equal timestamps is not demanded of sort() or chronological insertion",
               "'+' is judged only between tracks with the same feature table (the property says 'carried over')"]
EXHAUSTIVE = {"quick": "all arguments of each operation for every generated track of size <= 7",
              "thorough": "all arguments of each operation for every generated track of size <= 10 (removeObsList subsets for size <= 8, sampled above)"}
SOFT_MONITORS = ['getInsertionIndex.keeps_sorted']      # contracts on private helpers: diagnostics, see vt/runner.py
CASE_LIMIT_S = 60.0

OPS = ["sort", "insert", "insert_chain", "insert_alternate", "extract", "span", "add", "mod_int", "mod_pattern", "gt", "lt",
       "remove_list", "remove_one", "pop", "history", "history", "slice", "sort_radix", "remove_ends", "derived_edit", "aliased_removal"]

BASES = [gen.ms_from_fields(2021, 6, 15, 12, 0, 0, 0),
         gen.ms_from_fields(2019, 12, 31, 23, 59, 58, 0),     # year end
         gen.ms_from_fields(2020, 2, 28, 23, 59, 59, 500),    # leap day
         gen.ms_from_fields(1970, 1, 1, 0, 0, 0, 0),
         gen.ms_from_fields(2021, 3, 28, 2, 59, 57, 0)]       # an hour that does not exist in many local time zones


def chunks(tier, seed):
    nmax = 7 if tier == "quick" else 10
    out = []
    nrand = 30 if tier == "quick" else 300
    for n in range(0, nmax + 1):
        parts = 2 if n < 5 else (4 if tier == "quick" else 16)
        for part in range(parts):
            out.append({"n": n, "nrand": nrand, "part": part, "key": "n%d.%d" % (n, part), "parts": parts})
    # the hand-rolled dichotomy: sizes around powers of two, insertion ops only
    for n in ([15, 16, 17, 31, 32, 33] if tier == "quick" else [15, 16, 17, 31, 32, 33, 63, 64, 65, 127, 128, 129]):
        out.append({"n": n, "nrand": 4 if tier == "quick" else 12, "part": 0, "parts": 1, "key": "big%d" % n,
                    "ops": ["insert", "insert_chain", "sort", "lt", "gt"]})
    # larger scale: hundreds / thousands of observations (arguments sampled, always with the boundary ones)
    for n in ([201, 260, 640] if tier == "quick" else [201, 260, 640, 1025, 3000]):
      for part in range(6):
        out.append({"n": n, "nrand": 2, "part": part, "parts": 6, "key": "scale%d.%d" % (n, part), "scale": 1,
                    "ops": ["sort", "insert", "extract", "span", "add", "mod_int", "mod_pattern", "gt", "lt",
                            "remove_list", "remove_one", "pop", "slice", "sort_radix", "remove_ends"]})
    return out


def floors(tier):
    return {"monitors": {"getInsertionIndex.keeps_sorted": 1000, "model.ids": 5000, "source.unchanged": 5000,
                         "span.given_as_a_track": 1500},
            "classes": {"op:" + o: 20 for o in set(OPS)} | {"size:0": 5, "size:1": 10, "size:2": 10, "size:4": 10,
                                                        "pattern:duplicates": 50, "pattern:all_equal": 20,
                                                        "pattern:reversed": 20,
                                                        "track_of_hundreds_of_observations": 100, "timestamps_carrying_a_time_zone_label": 400},
            "distinct_nontrivial": 100}


# --------------------------------------------------------------------------
_installed = False


def setup(ctx):
    """Contract on the real dichotomy: on a sorted track the returned index
    keeps the track sorted."""
    global _installed
    if _installed:
        return
    from tracklib.core.track import Track
    orig = Track.__dict__["_Track__getInsertionIndex"]

    def post(a, k, result):
        self = a[0]
        ts = a[1] if len(a) > 1 else k["timestamp"]
        T = [o.timestamp for o in self.getObsList()]
        ms = [gen.obstime_to_ms(t) for t in T]
        if any(ms[i] > ms[i + 1] for i in range(len(ms) - 1)):
            M.CTX.count("getInsertionIndex.on_unsorted_track")
            return None
        x = gen.obstime_to_ms(ts)
        if not isinstance(result, int) or isinstance(result, bool) and len(ms) > 1:
            # bool is returned for N == 1 ((a < b) * 1 is int) -- accept ints only
            try:
                result = int(result)
            except Exception:
                return "index %r is not an integer" % (result,)
        if not (0 <= result <= len(ms)):
            return "index %r outside 0..%d" % (result, len(ms))
        if any(v > x for v in ms[:result]) or any(v < x for v in ms[result:]):
            return "index %d for instant %d breaks the order of %r" % (result, x, ms)
        return None

    Track._Track__getInsertionIndex = M.wrap_post(orig, post, "getInsertionIndex.keeps_sorted")
    _installed = True


# --------------------------------------------------------------------------
def patterns(n, rng, nrand):
    """(name, list of ms offsets) -- deterministic families plus random ones."""
    out = []
    inc = [i * 1000 for i in range(n)]
    out.append(("increasing", inc))
    if n >= 2:
        out.append(("reversed", inc[::-1]))
        out.append(("all_equal", [5000] * n))
        out.append(("irregular", [0] + sorted(rng.sample(range(1, 10 ** 7), n - 1))))
        dup = sorted(rng.choice(range(0, max(1, n // 2) * 1000 + 1, 1000)) for _ in range(n))
        out.append(("duplicates", dup))
        for _ in range(nrand):
            kind = rng.choice(["shuffled", "duplicates", "dup_shuffled", "ms_steps", "ms_shuffled", "fields_shuffled"])
            if kind == "shuffled":
                v = inc[:]
                rng.shuffle(v)
            elif kind == "duplicates":
                v = sorted(rng.randrange(0, n) * 1000 for _ in range(n))
            elif kind == "dup_shuffled":
                v = [rng.randrange(0, n) * 1000 for _ in range(n)]
            elif kind == "ms_shuffled":
                v = [rng.randrange(0, 3000) for _ in range(n)]
                kind = "shuffled"
            elif kind == "fields_shuffled":
                # instants that differ in one calendar field at a time (ms, s, min, h, day, month, year), in any order
                units = [1, 1000, 60000, 3600000, 86400000, 31 * 86400000, 366 * 86400000]
                v = [sum(rng.choice(units) * rng.randrange(0, 3) for _ in range(rng.randrange(1, 4))) for _ in range(n)]
                kind = "shuffled"
            else:
                v = sorted(rng.randrange(0, 3000) for _ in range(n))
            out.append((kind if kind != "ms_steps" else "duplicates" if len(set(v)) < n else "increasing", v))
    return out


def cases(chunk):
    rng = gen.rng_for(PROP, chunk)
    n = chunk["n"]
    idx = 0
    for pname, offs in patterns(n, rng, chunk["nrand"]):
        base = rng.choice(BASES)
        if pname in ("reversed", "all_equal") and rng.random() < 0.5:
            base = BASES[1]
        times = [base + o for o in offs]
        for op in chunk.get("ops", OPS):
            idx += 1
            if idx % chunk["parts"] != chunk["part"]:
                continue
            c = {"op": op, "pattern": pname, "times": times, "rs": rng.randrange(10 ** 9)}
            if chunk.get("scale"):
                c["limit_x"] = 3
            yield c


# --------------------------------------------------------------------------
def build(times, start_id=0, with_second_feature=True):
    """Track whose observation i has id feature start_id+i, position (100+id, -id, id/2)."""
    tr = gen.make_track([(100.0 + start_id + i, -(start_id + i) * 1.0, (start_id + i) / 2.0) for i in range(len(times))],
                        times_ms=list(times))
    if len(times) == 0:
        return tr      # tracklib refuses to create a feature on an empty track
    if _ZONE[0]:
        tr.setTimeZone(_ZONE[0])
    tr.createAnalyticalFeature("id", [float(start_id + i) for i in range(len(times))])
    if with_second_feature:
        tr.createAnalyticalFeature("w", [1000.0 + 7 * (start_id + i) for i in range(len(times))])
    return tr


# the time-zone LABEL of the timestamps (Track.setTimeZone): part of "its own timestamp"; the selecting operations are
# run on tracks labelled +2 / -5 / +1 for two fifths of the cases (ObsTime ==, < and str() ignore the label)
_ZONE = [0]
ZONED_OPS = ("sort", "extract", "span", "mod_int", "mod_pattern", "gt", "lt", "remove_list", "remove_one", "pop", "slice",
             "sort_radix", "remove_ends")


def obs_tuple(o):
    return (o.position.getX(), o.position.getY(), o.position.getZ(), gen.obstime_fields(o.timestamp),
            tuple(o.features), getattr(o.timestamp, "zone", None))


def snapshot(tr):
    return ([id(o) for o in tr.getObsList()], [obs_tuple(o) for o in tr.getObsList()],
            list(tr.getListAnalyticalFeatures()))


def expected_tuple(i, ms):
    return (100.0 + i, -i * 1.0, i / 2.0, gen.fields_from_ms(ms), (float(i), 1000.0 + 7 * i), _ZONE[0])


class Judge:
    def __init__(self, case, ctx):
        self.case = case
        self.ctx = ctx
        self.problem = None
        self.outcomes = set()
        self.empty_source = len(case["times"]) == 0

    def fail(self, what, **kw):
        if self.problem is None:
            d = {"what": what, "op": self.case["op"], "times": self.case["times"]}
            d.update(kw)
            self.problem = d
        return False

    def check_result(self, res, exp_ids, times_by_id, args, any_order_within_equal=False, features=("id", "w")):
        """res: a Track returned by tracklib; exp_ids: ids the model designates (in order)."""
        self.ctx.monitor("model.ids")
        if M.is_raised(res):
            return self.fail("operation raised", args=args, raised=res)
        try:
            obs = list(res.getObsList())
        except Exception as e:  # not a track
            return self.fail("operation did not return a track", args=args, got=repr(res)[:200])
        got = []
        for o in obs:
            if len(o.features) < 1:
                return self.fail("returned observation lost its features", args=args)
            got.append(int(o.features[0]))
        if got != list(exp_ids):
            return self.fail("wrong observations selected", args=args, got_ids=got, expected_ids=list(exp_ids))
        for o, i in zip(obs, got):
            if obs_tuple(o) != expected_tuple(i, times_by_id[i]):
                return self.fail("a returned observation does not carry its own position/timestamp/features",
                                 args=args, obs_id=i, got=obs_tuple(o), expected=expected_tuple(i, times_by_id[i]))
        lst = M.call(res.getListAnalyticalFeatures)
        if self.empty_source:
            features = ()
        if M.is_raised(lst) or list(lst) != list(features):
            return self.fail("feature table not carried over", args=args, got=lst, expected=list(features))
        if got:
            col = M.call(res.getAnalyticalFeature, "w")
            if M.is_raised(col) or [float(v) for v in col] != [1000.0 + 7 * i for i in got]:
                return self.fail("feature read by name on the result is wrong", args=args, got=col)
        self.outcomes.add(tuple(got))
        return True

    def check_source(self, tr, snap, args):
        self.ctx.monitor("source.unchanged")
        if snapshot(tr) != snap:
            return self.fail("source track was modified", args=args)
        return True


def pick_args(rng, seq, big, k=24):
    """seq itself for small tracks; for large ones its first two, last two and k sampled elements (in order)."""
    seq = list(seq)
    if not big or len(seq) <= k + 4:
        return seq
    idx = sorted(set([0, 1, len(seq) - 2, len(seq) - 1] + rng.sample(range(len(seq)), k)))
    return [seq[i] for i in idx]


def run_case(case, ctx):
    from tracklib.core.obs import Obs
    from tracklib.core.obs_coords import ENUCoords
    import random
    op = case["op"]
    times = case["times"]
    n = len(times)
    rng = random.Random(case["rs"])
    J = Judge(case, ctx)
    tid = {i: times[i] for i in range(n)}
    order = sorted(range(n), key=lambda i: times[i])
    is_sorted = all(times[i] <= times[i + 1] for i in range(n - 1))
    big = n > 150
    cls = ["op:" + op, "size:%d" % n if not big else "size:150+", "pattern:" + case["pattern"]]
    if big:
        cls.append("track_of_hundreds_of_observations")
    rank = tuple(sorted(set(times)).index(t) for t in times)
    sig = (op, rank)
    _ZONE[0] = [0, 2, 0, -5, 0, 1, 0, 0, 2, 0][(n + case["rs"]) % 10] if op in ZONED_OPS and not big else 0
    if _ZONE[0]:
        cls.append("timestamps_carrying_a_time_zone_label")

    def T():
        return build(times)

    if op == "sort":
        tr = T()
        r = M.call(tr.sort)
        ctx.monitor("model.ids")
        if M.is_raised(r):
            J.fail("sort raised", raised=r)
        else:
            obs = tr.getObsList()
            got = [int(o.features[0]) for o in obs]
            ms = [times[i] for i in got]
            if sorted(got) != list(range(n)):
                J.fail("sort lost or duplicated observations", got_ids=got)
            elif any(ms[i] > ms[i + 1] for i in range(n - 1)):
                J.fail("sort result is not in non-decreasing time order", got_ids=got, got_times=ms)
            elif any(obs_tuple(o) != expected_tuple(i, times[i]) for o, i in zip(obs, got)):
                J.fail("sort changed an observation", got_ids=got)
            elif list(tr.getListAnalyticalFeatures()) != (["id", "w"] if n else []):
                J.fail("sort changed the feature table")
            J.outcomes.add(tuple(got))
            J.outcomes.add(tuple(range(n)))

    elif op == "insert_alternate":
        # two independent time-sorted tracks of the same size receive index-less insertions in turn (A, B, A, B ...):
        # each must stay sorted and hold exactly its own observations
        st = sorted(times)
        A_ = build(st)
        B_ = build([t + 86400000 * 3 + 500 for t in st], start_id=1000)
        span = (st[-1] - st[0] + 2000) if st else 2000
        lo = st[0] if st else BASES[0]
        for k in range(6):
            for which, trk, shift in (("A", A_, 0), ("B", B_, 86400000 * 3 + 500)):
                c = lo + shift + rng.randrange(-1000, span)
                if c < 0:
                    continue
                new = Obs(ENUCoords(-1.0, -1.0, -1.0), gen.obstime_from_ms(c))
                new.features = [-1.0 - k, -1.0]
                r = M.call(trk.insertObs, new)
                ctx.monitor("model.ids")
                ms = [gen.obstime_to_ms(o.timestamp) for o in trk.getObsList()]
                if M.is_raised(r) or any(ms[i] > ms[i + 1] for i in range(len(ms) - 1)) or \
                        sum(1 for o in trk.getObsList() if o is new) != 1:
                    J.fail("two sorted tracks receiving chronological insertions in turn: track %s is no longer sorted "
                           "(or the insertion failed)" % which, args={"round": k, "instant": c}, got_times=ms[:40],
                           raised=r if M.is_raised(r) else None)
                    break
            if J.problem:
                break
        J.outcomes.add(("alternate", n))

    elif op in ("insert", "insert_chain"):
        st = sorted(times)
        if op == "insert":
            cand = set()
            for t in st:
                cand.update([t - 1, t, t + 1])
            for a, b in zip(st, st[1:]):
                cand.add((a + b) // 2)
            if st:
                cand.update([st[0] - 86400000 * 400, st[-1] + 86400000 * 400, st[0] - 1000, st[-1] + 1000])
            else:
                cand.add(BASES[0])
            cand = pick_args(rng, sorted(c for c in cand if c >= 0), big)
            for c in cand:
                tr = build(st)
                new = Obs(ENUCoords(-1.0, -1.0, -1.0), gen.obstime_from_ms(c))
                new.features = [-1.0, -1.0]
                r = M.call(tr.insertObs, new)
                ctx.monitor("model.ids")
                if M.is_raised(r):
                    J.fail("insertObs raised", args={"instant": c}, raised=r)
                    break
                obs = tr.getObsList()
                ms = [gen.obstime_to_ms(o.timestamp) for o in obs]
                ids = [int(o.features[0]) for o in obs]
                if len(obs) != n + 1 or sum(1 for o in obs if o is new) != 1:
                    J.fail("insertObs did not add exactly the new observation", args={"instant": c}, got_ids=ids)
                    break
                if [i for i in ids if i >= 0] != list(range(n)):
                    J.fail("insertObs disturbed the existing observations", args={"instant": c}, got_ids=ids)
                    break
                if any(ms[i] > ms[i + 1] for i in range(n)):
                    J.fail("track no longer sorted after chronological insertion", args={"instant": c},
                           got_times=ms, got_ids=ids)
                    break
                J.outcomes.add(ids.index(-1))
        else:
            # history: build a track only by chronological insertions, in the given (arbitrary) order
            from tracklib.core.track import Track
            tr = Track()
            for k, t in enumerate(times):
                o = Obs(ENUCoords(100.0 + k, -k * 1.0, k / 2.0), gen.obstime_from_ms(t))
                o.features = [float(k), 1000.0 + 7 * k]
                r = M.call(tr.insertObs, o)
                ctx.monitor("model.ids")
                if M.is_raised(r):
                    J.fail("insertObs raised during a chain of insertions", args={"step": k}, raised=r)
                    break
                ms = [gen.obstime_to_ms(x.timestamp) for x in tr.getObsList()]
                ids = [int(x.features[0]) for x in tr.getObsList()]
                if sorted(ids) != list(range(k + 1)):
                    J.fail("chain of insertions lost or duplicated an observation", args={"step": k}, got_ids=ids)
                    break
                if any(ms[i] > ms[i + 1] for i in range(len(ms) - 1)):
                    J.fail("chain of chronological insertions produced an unsorted track", args={"step": k},
                           got_times=ms, got_ids=ids)
                    break
            J.outcomes.add(tuple(int(x.features[0]) for x in tr.getObsList()))
            J.outcomes.add(tuple(range(n)))

    elif op == "extract":
        tr = T()
        snap = snapshot(tr)
        for i in pick_args(rng, range(n), big, 8):
            for j in pick_args(rng, range(i, n), big, 6):
                res = M.call(tr.extract, i, j)
                if not J.check_result(res, range(i, j + 1), tid, {"i": i, "j": j}):
                    break
                if not J.check_source(tr, snap, {"i": i, "j": j}):
                    break
            if J.problem:
                break
        if n == 0:
            return ood("extract on an empty track has no valid index", cls)

    elif op == "span":
        tr = T()
        snap = snapshot(tr)
        cand = set()
        for t in times:
            cand.update([t - 1, t, t + 1])
        if not times:
            cand.add(BASES[0])
        cand.update([min(cand) - 10 ** 9 if min(cand) > 10 ** 9 else 0, max(cand) + 10 ** 9])
        cand = sorted(c for c in cand if c >= 0)
        if len(cand) > 14:
            cand = sorted(set(rng.sample(cand, 12) + [cand[0], cand[-1]]))
        for a in cand:
            for b in cand:
                lo, hi = min(a, b), max(a, b)
                exp = [i for i in range(n) if lo <= times[i] <= hi]
                res = M.call(tr.extractSpanTime, gen.obstime_from_ms(a), gen.obstime_from_ms(b))
                if a > b:
                    ctx.count("span_reversed_bounds")
                if not exp:
                    ctx.count("span_empty_result")
                if not J.check_result(res, exp, tid, {"tini": a, "tfin": b}):
                    break
                if not J.check_source(tr, snap, {"tini": a, "tfin": b}):
                    break
                if (a + 3 * b + n) % 4 == 0:
                    # the span given as ANOTHER TRACK (documented special case): from its first to its last
                    # observation's instant, whichever of the two is the earlier (the other track may be in reverse
                    # or in no particular order -- reversed bounds designate the same span)
                    mids = [lo + (hi - lo) * k // 3 for k in (2, 1)] if (a + b) % 3 == 0 else []
                    other = build([a] + mids + [b], start_id=500, with_second_feature=False)
                    snap_o = snapshot(other)
                    res = M.call(tr.extractSpanTime, other)
                    ctx.monitor("span.given_as_a_track")
                    if a > b:
                        ctx.count("span_given_as_a_track_in_reverse_order")
                    if not J.check_result(res, exp, tid, {"span_track_first": a, "span_track_last": b}):
                        break
                    if not J.check_source(tr, snap, {"span_track_first": a, "span_track_last": b}):
                        break
                    if snapshot(other) != snap_o:
                        J.fail("the track given as a span was modified by extractSpanTime",
                               args={"span_track_first": a, "span_track_last": b})
                        break
            if J.problem:
                break

    elif op == "add":
        for m in sorted(set([0, 1, 2, n])):
            if (m == 0) != (n == 0):
                # one side empty: the feature table of the sum is not settled (counted out of domain), but the sum
                # must hold the other side's observations in order, and belongs to the caller: trimming it or
                # appending to it must not change the non-empty source
                from tracklib.core.track import Track as _T
                src = T() if m == 0 else build([BASES[2] + 777 * k for k in range(m)], start_id=n)
                snap_src = snapshot(src)
                res = M.call((lambda: src + _T()) if (n + m) % 2 else (lambda: _T() + src))
                ctx.monitor("source.unchanged")
                if M.is_raised(res) or [id(o) for o in res.getObsList()] != snap_src[0]:
                    if M.is_raised(res) or [obs_tuple(o)[:4] for o in res.getObsList()] != [x[:4] for x in snap_src[1]]:
                        J.fail("a sum with an empty track does not hold the other operand's observations in order",
                               args={"len_a": n, "len_b": m}, raised=res if M.is_raised(res) else None)
                        break
                M.call(res.removeFirstObs)
                M.call(res.addObs, Obs(ENUCoords(-1.0, -1.0, -1.0), gen.obstime_from_ms(BASES[0])))
                if snapshot(src) != snap_src:
                    J.fail("source track was modified when the caller trimmed / extended the sum of it and an empty track",
                           args={"len_a": n, "len_b": m})
                    break
                ctx.out_of_domain("add: feature tables differ (one side empty)")
                continue
            t2 = [BASES[2] + 777 * k for k in range(m)]
            a = T()
            b = build(t2, start_id=n)
            sa, sb = snapshot(a), snapshot(b)
            tid2 = dict(tid)
            tid2.update({n + k: t2[k] for k in range(m)})
            res = M.call(lambda: a + b)
            if not J.check_result(res, list(range(n)) + list(range(n, n + m)), tid2, {"len_b": m}):
                break
            if not (J.check_source(a, sa, {"len_b": m, "which": "left"}) and
                    J.check_source(b, sb, {"len_b": m, "which": "right"})):
                break

    elif op == "mod_int":
        tr = T()
        snap = snapshot(tr)
        for k in pick_args(rng, range(1, n + 3), big):
            res = M.call(lambda: tr % k)
            if not J.check_result(res, list(range(0, n, k)), tid, {"k": k}):
                break
            if not J.check_source(tr, snap, {"k": k}):
                break

    elif op == "mod_pattern":
        tr = T()
        snap = snapshot(tr)
        for L in range(1, 5):
            for pat in itertools.product([False, True], repeat=L):
                variants = [list(pat)]
                if L <= 2:
                    variants.append([1 if p else 0 for p in pat])
                for pv in variants:
                    res = M.call(lambda: tr % pv)
                    exp = [i for i in range(n) if pat[i % L]]
                    if not J.check_result(res, exp, tid, {"pattern": [bool(p) for p in pat]}):
                        break
                    if not J.check_source(tr, snap, {"pattern": list(pat)}):
                        break
                if J.problem:
                    break
            if J.problem:
                break

    elif op in ("gt", "lt"):
        tr = T()
        snap = snapshot(tr)
        for k in pick_args(rng, range(0, 2 * n + 3), big, 30):
            if op == "gt":
                res = M.call(lambda: tr > k)
                exp = list(range(min(k, n), n))
            else:
                res = M.call(lambda: tr < k)
                exp = list(range(0, max(n - k, 0)))
            if not J.check_result(res, exp, tid, {"k": k}):
                break
            if not J.check_source(tr, snap, {"k": k}):
                break

    elif op == "remove_list":
        if n > 8:
            subsets = [sorted(rng.sample(range(n), rng.randrange(1, n + 1))) for _ in range(30 if big else 200)]
        else:
            subsets = [list(s) for r in range(1, n + 1) for s in itertools.combinations(range(n), r)]
        for s in subsets:
            tr = T()
            lst = list(s)
            rng.shuffle(lst)
            given = list(lst)
            r = M.call(tr.removeObsList, lst)
            exp = [i for i in range(n) if i not in set(s)]
            if M.is_raised(r):
                J.fail("removeObsList raised", args={"indices": given}, raised=r)
                break
            if not J.check_result(tr, exp, tid, {"indices": given}):
                break
        if n == 0:
            return ood("no index to remove on an empty track", cls)

    elif op in ("remove_one", "pop"):
        for i_ in pick_args(rng, range(2 * n), big):
            # every index, then every index spelt from the end (-1 = the last observation), as Python lists allow
            # and as the library itself uses it (removeObs(-2) in its synthetic generators)
            i = i_ % n
            given = i if i_ < n else i - n
            if given < 0:
                ctx.count("negative_index")
            tr = T()
            target = tr.getObs(i)
            if op == "remove_one":
                r = M.call(tr.removeObs, given) if i_ % 3 else M.call(tr.removeObsList, [given])
            else:
                r = M.call(tr.popObs, given)
                if not M.is_raised(r) and r is not target:
                    J.fail("popObs returned another observation", args={"index": given})
                    break
            if M.is_raised(r):
                J.fail(op + " raised", args={"index": given}, raised=r)
                break
            if not J.check_result(tr, [j for j in range(n) if j != i], tid, {"index": given}):
                break
        if n == 0:
            return ood("no index to remove on an empty track", cls)
    elif op == "slice":
        # index extraction through item access: track[a:b] and track[a:b:c] follow Python's slice semantics
        tr = T()
        snap = snapshot(tr)
        if n == 0:
            return ood("slice of an empty track carries no feature table", cls)
        bounds = [None] + list(range(-n - 1, n + 2))
        if big:
            bounds = [None] + pick_args(rng, range(-n - 1, n + 2), big, 10)
        for a in bounds:
            for b in bounds:
                for c in ((None,) if n > 6 else (None, 2, 3, -1)):
                    sl = slice(a, b, c)
                    exp = list(range(n))[sl]
                    if not exp:
                        ctx.count("slice_empty_result")
                        continue       # an empty result carries no feature table (tracklib refuses features on empty tracks)
                    res = M.call(lambda: tr[sl])
                    if not J.check_result(res, exp, tid, {"slice": [a, b, c]}):
                        break
                    if not J.check_source(tr, snap, {"slice": [a, b, c]}):
                        break
                if J.problem:
                    break
            if J.problem:
                break

    elif op == "sort_radix":
        # the second time sort of the API (documented for years 1970..2069)
        tr = T()
        r = M.call(tr.sortRadix)
        ctx.monitor("model.ids")
        if M.is_raised(r):
            J.fail("sortRadix raised", raised=r)
        else:
            obs = tr.getObsList()
            got = [int(o.features[0]) for o in obs]
            ms = [times[i] for i in got]
            if sorted(got) != list(range(n)):
                J.fail("sortRadix lost or duplicated observations", got_ids=got)
            elif any(ms[i] > ms[i + 1] for i in range(n - 1)):
                J.fail("sortRadix result is not in non-decreasing time order", got_ids=got, got_times=ms)
            elif any(obs_tuple(o) != expected_tuple(i, times[i]) for o, i in zip(obs, got)):
                J.fail("sortRadix changed an observation", got_ids=got)
            elif list(tr.getListAnalyticalFeatures()) != (["id", "w"] if n else []):
                J.fail("sortRadix changed the feature table")
            J.outcomes.add(tuple(got))
            J.outcomes.add(tuple(range(n)))

    elif op == "remove_ends":
        if n == 0:
            return ood("no observation to remove on an empty track", cls)
        # removeFirstObs / removeLastObs chains: every word over {F, L} up to the track's size
        for L in range(1, min(n, 4) + 1):
            for word in itertools.product("FL", repeat=L):
                tr = T()
                lo_, hi_ = 0, n
                r = None
                for w in word:
                    r = M.call(tr.removeFirstObs if w == "F" else tr.removeLastObs)
                    if M.is_raised(r):
                        break
                    if w == "F":
                        lo_ += 1
                    else:
                        hi_ -= 1
                if M.is_raised(r):
                    J.fail("removeFirstObs/removeLastObs raised", args={"word": "".join(word)}, raised=r)
                    break
                if not J.check_result(tr, list(range(lo_, hi_)), tid, {"word": "".join(word)},
                                      features=("id", "w")):
                    break
            if J.problem:
                break

    elif op == "derived_edit":
        # history across two tracks: a derived track is given a further feature; the source must still list and
        # return exactly its own feature table (a derived track must not share the table object with its source)
        if n == 0:
            return ood("an empty track carries no feature table", cls)
        kinds = ["extract", "span", "add", "mod", "pattern", "gt", "lt", "slice"]
        for kd in kinds:
            tr = T()
            other = build([BASES[2] + 777 * k for k in range(2)], start_id=n)
            if kd == "extract":
                res = M.call(tr.extract, 0, n - 1 - (1 if n > 1 else 0))
            elif kd == "span":
                res = M.call(tr.extractSpanTime, gen.obstime_from_ms(min(times)), gen.obstime_from_ms(max(times)))
            elif kd == "add":
                res = M.call(lambda: tr + other)
            elif kd == "mod":
                res = M.call(lambda: tr % 2)
            elif kd == "pattern":
                res = M.call(lambda: tr % [True, False, True])
            elif kd == "gt":
                res = M.call(lambda: tr > (1 if n > 1 else 0))
            elif kd == "lt":
                res = M.call(lambda: tr < (1 if n > 1 else 0))
            else:
                res = M.call(lambda: tr[0:n])
            ctx.monitor("model.ids")
            if M.is_raised(res):
                J.fail("operation raised", args={"derive": kd}, raised=res)
                break
            r2 = M.call(res.createAnalyticalFeature, "extra", 5.0)
            if M.is_raised(r2):
                J.fail("creating a feature on a derived track raised", args={"derive": kd}, raised=r2)
                break
            ctx.monitor("source.unchanged")
            lst = M.call(tr.getListAnalyticalFeatures)
            if M.is_raised(lst) or list(lst) != ["id", "w"]:
                J.fail("source track was modified: a feature created on the derived track is listed by the source",
                       args={"derive": kd}, got=lst, expected=["id", "w"])
                break
            ok = True
            for name, expv in (("id", [float(i) for i in range(n)]), ("w", [1000.0 + 7 * i for i in range(n)])):
                col = M.call(tr.getAnalyticalFeature, name)
                if M.is_raised(col) or [float(v) for v in col] != expv:
                    ok = J.fail("source track was modified: its features no longer read back after a feature was "
                                "created on a derived track", args={"derive": kd, "feature": name}, got=col)
                    break
            if not ok:
                break
            again = M.call(lambda: tr % 1)
            if M.is_raised(again) or list(again.getListAnalyticalFeatures()) != ["id", "w"] or \
                    [int(o.features[0]) for o in again.getObsList()] != list(range(n)):
                J.fail("a selection on the source after a derived track was edited does not carry the source's table",
                       args={"derive": kd}, got=again if M.is_raised(again) else list(again.getListAnalyticalFeatures()))
                break
            if kd == "add":
                lst2 = M.call(other.getListAnalyticalFeatures)
                if M.is_raised(lst2) or list(lst2) != ["id", "w"]:
                    J.fail("right operand of + was modified by a feature created on the sum", got=lst2)
                    break
            J.outcomes.add(kd)

    elif op == "aliased_removal":
        # derived tracks in which the SAME observation object sits at several positions (a closed loop made by
        # a + a.extract(0,0), a lap repeated by a + a, a + a % 2): removal by index designates positions, not objects
        if n == 0:
            return ood("no observation to remove on an empty track", cls)
        for shape in ("close_loop", "twice", "plus_every_other"):
            for pick in range(3):
                a_ = T()
                if shape == "close_loop":
                    tr = M.call(lambda: a_ + a_.extract(0, 0))
                elif shape == "twice":
                    tr = M.call(lambda: a_ + a_)
                else:
                    tr = M.call(lambda: a_ + (a_ % 2))
                if M.is_raised(tr):
                    J.fail("building the derived track raised", args={"shape": shape}, raised=tr)
                    break
                objs = list(tr.getObsList())
                m = len(objs)
                if pick == 0:
                    idx = [0]
                    r = M.call(tr.removeFirstObs)
                elif pick == 1:
                    idx = [m - 1]
                    r = M.call(tr.popObs, m - 1)
                else:
                    idx = sorted(set([rng.randrange(m), rng.randrange(m)]))
                    r = M.call(tr.removeObsList, list(idx))
                ctx.monitor("model.ids")
                if M.is_raised(r):
                    J.fail("removal raised on a track holding the same observation object twice",
                           args={"shape": shape, "indices": idx}, raised=r)
                    break
                exp = [id(o) for k, o in enumerate(objs) if k not in set(idx)]
                got = [id(o) for o in tr.getObsList()]
                if got != exp:
                    J.fail("removal by index on a track holding the same observation object at several positions did "
                           "not leave exactly the other positions", args={"shape": shape, "indices": idx},
                           got_positions=[objs.index(o) if o in objs else None for o in tr.getObsList()],
                           expected_size=len(exp), got_size=len(got))
                    break
                J.outcomes.add((shape, tuple(idx)))
            if J.problem:
                break

    elif op == "history":
        # call histories: list mutations of every kind interleaved with sort() and chronological insertion
        tr = T()
        model = [(i, times[i]) for i in range(n)]          # (id, ms) in track order
        next_id = [n]
        span = (max(times) - min(times) + 5000) if times else 5000
        lo = (min(times) if times else BASES[0])

        def new_obs():
            k = next_id[0]
            next_id[0] += 1
            ms = max(0, lo + rng.randrange(-2000, span))
            if model and rng.random() < 0.3:
                ms = rng.choice(model)[1]                  # duplicate timestamp
            o = Obs(ENUCoords(100.0 + k, -k * 1.0, k / 2.0), gen.obstime_from_ms(ms))
            o.features = [float(k), 1000.0 + 7 * k] if n else []
            tid[k] = ms
            return k, ms, o

        steps = []
        for _ in range(rng.randrange(4, 13)):
            kinds = ["add", "insert_at", "sort", "sort"]
            if model:
                kinds += ["setitem", "setitem", "setobs", "remove", "pop", "rejected_remove"]
            if all(model[i][1] <= model[i + 1][1] for i in range(len(model) - 1)):
                kinds += ["insert_chrono", "insert_chrono"]
            kd = rng.choice(kinds)
            steps.append(kd)
            if kd == "add":
                k, ms, o = new_obs()
                r = M.call(tr.addObs, o)
                model.append((k, ms))
            elif kd == "insert_at":
                k, ms, o = new_obs()
                i = rng.randrange(0, len(model) + 1)
                r = M.call(tr.insertObs, o, i)
                model.insert(i, (k, ms))
            elif kd in ("setitem", "setobs"):
                k, ms, o = new_obs()
                i = rng.randrange(len(model))
                if kd == "setitem":
                    def _set(i=i, o=o):
                        tr[i] = o
                    r = M.call(_set)
                else:
                    r = M.call(tr.setObs, i, o)
                model[i] = (k, ms)
            elif kd == "remove":
                i = rng.randrange(len(model))
                r = M.call(tr.removeObs, i)
                del model[i]
            elif kd == "rejected_remove":
                # error path: a removal request that cannot be honoured (an index beyond the end next to a valid
                # one, or the same index twice).  Whether it raises or reports, what it leaves must still be a
                # sequence of the track's own observations in their order; the model follows what is there.
                i = rng.randrange(len(model))
                bad = [i, len(model) + rng.randrange(1, 50)] if rng.random() < 0.6 else [i, i]
                before_objs = list(tr.getObsList())
                M.call(tr.removeObsList, bad)
                ctx.count("rejected_removal_request")
                now = M.call(lambda: list(tr.getObsList()))
                pos = {id(o): k for k, o in enumerate(before_objs)}
                if M.is_raised(now) or any(id(o) not in pos for o in now) or \
                        any(pos[id(a)] >= pos[id(b)] for a, b in zip(now, now[1:])):
                    J.fail("after a removal request that was rejected the track no longer holds (a sub-sequence of) its "
                           "own observations", args={"steps": steps, "request": bad},
                           got=repr(now)[:300])
                    break
                keep = [pos[id(o)] for o in now]
                model = [model[k] for k in keep]
                r = None
            elif kd == "pop":
                i = rng.randrange(len(model))
                r = M.call(tr.popObs, i)
                del model[i]
            elif kd == "insert_chrono":
                k, ms, o = new_obs()
                r = M.call(tr.insertObs, o)
                if not M.is_raised(r):
                    got = [(int(x.features[0]) if x.features else -1) for x in tr.getObsList()] if n else None
                    ms_now = [gen.obstime_to_ms(x.timestamp) for x in tr.getObsList()]
                    ctx.monitor("model.ids")
                    if len(ms_now) != len(model) + 1 or any(ms_now[i] > ms_now[i + 1] for i in range(len(ms_now) - 1)):
                        J.fail("chronological insertion into a sorted track left it unsorted (or changed its size)",
                               args={"steps": steps, "instant": ms}, got_times=ms_now)
                        break
                    pos = [i for i, x in enumerate(tr.getObsList()) if x is o]
                    if len(pos) != 1:
                        J.fail("chronological insertion did not add exactly the new observation", args={"steps": steps})
                        break
                    model.insert(pos[0], (k, ms))
            elif kd == "sort":
                r = M.call(tr.sort)
                if not M.is_raised(r):
                    ms_now = [gen.obstime_to_ms(x.timestamp) for x in tr.getObsList()]
                    ctx.monitor("model.ids")
                    if any(ms_now[i] > ms_now[i + 1] for i in range(len(ms_now) - 1)):
                        J.fail("after sort() the track is not in non-decreasing time order", args={"steps": steps},
                               got_times=ms_now)
                        break
                    if sorted(ms_now) != sorted(m for _, m in model):
                        J.fail("sort() lost or duplicated observations", args={"steps": steps})
                        break
                    if n:
                        ids = [int(x.features[0]) for x in tr.getObsList()]
                        if sorted(ids) != sorted(k for k, _ in model) or any(tid[i] != m for i, m in zip(ids, ms_now)):
                            J.fail("sort() changed which observation carries which timestamp", args={"steps": steps})
                            break
                        model = [(i, tid[i]) for i in ids]
                    else:
                        model = sorted(model, key=lambda km: km[1])
            if M.is_raised(r):
                J.fail("operation raised during a call history", args={"steps": steps}, raised=r)
                break
            # the track must hold exactly the model's observations in the model's order
            ms_now = [gen.obstime_to_ms(x.timestamp) for x in tr.getObsList()]
            if ms_now != [m for _, m in model]:
                J.fail("track content differs from the list model after a call history", args={"steps": steps},
                       got_times=ms_now, expected_times=[m for _, m in model])
                break
            J.outcomes.add(tuple(ms_now))
        # after the history: the selecting operations must designate observations of the track as it is NOW
        if not J.problem and model:
            m = len(model)
            ids_now = [k for k, _ in model]
            snap = snapshot(tr)

            def ids_of(res):
                return [int(round(o.position.getX() - 100.0)) for o in res.getObsList()]
            for _ in range(6):
                kd = rng.choice(["extract", "span", "mod", "gt", "lt", "slice"])
                if kd == "extract":
                    i = rng.randrange(m)
                    j = rng.randrange(i, m)
                    res, exp, args = M.call(tr.extract, i, j), ids_now[i:j + 1], {"extract": [i, j]}
                elif kd == "span":
                    a, b = rng.choice(model)[1], rng.choice(model)[1]
                    lo2, hi2 = min(a, b), max(a, b)
                    res = M.call(tr.extractSpanTime, gen.obstime_from_ms(a), gen.obstime_from_ms(b))
                    exp, args = [k for k, t in model if lo2 <= t <= hi2], {"span": [a, b]}
                elif kd == "mod":
                    k = rng.randrange(1, m + 2)
                    res, exp, args = M.call(lambda: tr % k), ids_now[::k], {"mod": k}
                elif kd == "gt":
                    k = rng.randrange(0, m + 2)
                    res, exp, args = M.call(lambda: tr > k), ids_now[k:], {"gt": k}
                elif kd == "lt":
                    k = rng.randrange(0, m + 2)
                    res, exp, args = M.call(lambda: tr < k), ids_now[:max(m - k, 0)], {"lt": k}
                else:
                    a, b = rng.randrange(-m, m + 1), rng.randrange(-m, m + 1)
                    res, exp, args = M.call(lambda: tr[a:b]), ids_now[a:b], {"slice": [a, b]}
                ctx.monitor("model.ids")
                args["steps"] = steps
                if M.is_raised(res):
                    J.fail("selection after a call history raised", args=args, raised=res)
                    break
                got = M.call(ids_of, res)
                if M.is_raised(got) or got != exp:
                    J.fail("selection after a call history designates the wrong observations", args=args,
                           got_ids=got, expected_ids=exp)
                    break
                if snapshot(tr) != snap:
                    J.fail("selection after a call history modified the source track", args=args)
                    break
        sig = (op, rank, tuple(steps))
    else:
        raise M.HarnessError("unknown op " + op)

    if J.problem:
        return violated(J.problem, sig, True, cls)
    return held(sig, n >= 2 and len(J.outcomes) >= 2, cls)


def classify(case, witness):
    return None
