"""C06 -- network shortest distances are true minima over permitted walks
(DESIGN.md section 4, C06).

Deciding step: the real Network.shortest_distance / all_shortest_distances /
prepare + prepared_shortest_distance are run on enumerated and random directed
multigraphs and every reported value is compared with Floyd-Warshall over the
permitted arcs (vt/oracles/graphs.py, stdlib only).  While the searches run,
two runtime monitors sit on the real code: priority_dict.pop_smallest (popped
priorities never decrease, no key settled twice, popped key carried the minimum)
and a Dijkstra certificate evaluated after every run_routing_forward.
"""
from __future__ import annotations

import os
import random

from vt import gen, monitor as M
from vt.gen import held, violated
from vt.oracles import graphs as G

PROP = "C06"
RULE = ("exhaustive part: every multigraph (multiset of (stored source, stored target, weight, orientation)) with 1..3 nodes, "
        "0..2 edges (quick) / 0..3 edges (thorough), weights {0,1,2}, orientations {two-way, direct, reverse}, self-loops, "
        "parallel edges and isolated nodes included; sampled part: random 3-edge tiny graphs and random multigraphs with "
        "2..12 nodes / 0..40 edges, weights {0,0.5,1,2,2.5,3}, in eight styles (mixed, sparse, dense, two parts joined one-way, "
        "one-way, zero-heavy, parallel-heavy, ring). Per graph, on ONE network object and in shuffled order: every ordered pair "
        "(s,t) incl. s=t through shortest_distance(s,t) (ids and Node objects), every source through the list form, "
        "all_shortest_distances for cut-offs equal to / between / above the exact distances and without cut-off, and "
        "prepare(cut)+prepared_shortest_distance on fresh networks. Distinct = distinct (node count, edge list) signature; "
        "non-trivial = at least one ordered pair s!=t is reachable.")
ASSUMPTIONS = ["Floyd-Warshall over the permitted arcs (stdlib floats; all weights are dyadic so sums are exact) is the reference",
               "weights are non-negative and the routing mode is the default Dijkstra mode (the property's domain)",
               "the list form may mark an unreachable node with the documented 1e300 instead of a negative number; "
               "prepared_shortest_distance may answer a pair outside the table with the documented 1e300"]
EXHAUSTIVE = {"quick": "all 4 161 multigraphs with <= 3 nodes and <= 2 edges over weights {0,1,2} x 3 orientations, all ordered pairs, "
                       "all cut-offs equal to and midway between the exact distances",
              "thorough": "all 104 643 multigraphs with <= 3 nodes and <= 3 edges over weights {0,1,2} x 3 orientations, all ordered "
                          "pairs, all cut-offs equal to and midway between the exact distances"}
SOFT_MONITORS = ['pop_smallest.monotone_no_double_settle', 'pop_smallest.returns_minimum_present_key']      # contracts on private helpers: diagnostics, see vt/runner.py
CASE_LIMIT_S = 40.0

PAIR = "distance.pair_vs_floyd_warshall"
LIST = "distance.list_vs_floyd_warshall"
TABLE = "table.exact_keys_and_values"
PREP = "prepared.vs_floyd_warshall"


def chunks(tier, seed):
    out = []
    if tier == "quick":
        for k in range(6):
            out.append({"kind": "tiny", "max_edges": 2, "shard": k, "of": 6, "key": "tiny%d" % k})
        for k in range(6):
            out.append({"kind": "tiny_sample", "n": 250, "key": "tiny3s%d" % k})
        for k in range(18):
            out.append({"kind": "rand", "n": 60, "key": "rand%d" % k})
        for k in range(4):
            out.append({"kind": "big", "n": 1, "size": [200, 260, 330, 520][k], "key": "big%d" % k})
    else:
        for k in range(12):
            out.append({"kind": "big", "n": 1 if k % 4 < 3 else 1, "size": [200, 260, 330, 520, 800, 1200][k % 6], "key": "big%d" % k})
        for k in range(30):
            out.append({"kind": "tiny", "max_edges": 3, "shard": k, "of": 30, "key": "tiny%d" % k})
        for k in range(30):
            out.append({"kind": "rand", "n": 400, "key": "rand%d" % k})
    return out


def floors(tier):
    q = tier == "quick"
    return {"monitors": {PAIR: 50000, LIST: 5000, TABLE: 5000, PREP: 5000,
                         G.POP_MONITOR: 100000, G.POP_MIN_MONITOR: 100000, G.CERT_MONITOR: 50000},
            "classes": {"self_loop": 200, "parallel_edges": 200, "parallel_diff_weight": 100, "zero_weight": 200,
                        "orient_two_way": 200, "orient_direct": 200, "orient_reverse": 200,
                        "unreachable_pair": 200, "isolated_node": 50, "tie": 100, "zero_distance_pair": 100,
                        "cut_equal": 500, "cut_below_some": 500, "cut_below_every_distance": 300, "cut_above_all": 500, "cut_default": 500,
                        "nodes_10_to_12": 50 if q else 500, "edges_25_to_40": 30 if q else 300,
                        "network_of_hundreds_of_nodes": 4, "edges_reweighted_in_place": 300, "cut_given_as_numpy.int64": 100,
                        "cut_given_as_numpy.float32": 100, "cut_given_as_int": 100},
            "distinct_nontrivial": 2000 if q else 50000}


def setup(ctx):
    # VT_C06_MONITORS=0 is for validating the API-level oracle on its own (the floors then make the run inconclusive)
    if os.environ.get("VT_C06_MONITORS", "1") != "0":
        G.install_pop_monitor()
        G.install_forward_certificate()


# --------------------------------------------------------------------------
def _all_cuts(D):
    """Every distinct exact distance, every midpoint between consecutive ones,
    and one value above all of them."""
    ds = G.distinct_distances(D)
    cuts = list(ds)
    for a, b in zip(ds, ds[1:]):
        cuts.append((a + b) / 2.0)
    cuts.append(ds[-1] + 0.5)
    cuts.append(ds[0] - 0.5)            # below the smallest exact distance (0, a node to itself): nothing is within it
    return sorted(cuts)


def _some_cuts(rng, D):
    ds = G.distinct_distances(D)
    mids = [(a + b) / 2.0 for a, b in zip(ds, ds[1:])]
    cuts = {ds[-1] + 1.0, ds[-1]}
    for v in rng.sample(ds, min(3, len(ds))):
        cuts.add(v)
    for v in rng.sample(mids, min(2, len(mids))):
        cuts.add(v)
    if rng.random() < 0.3:
        cuts.add(0)
    if rng.random() < 0.2:
        cuts.add(ds[0] - rng.choice([0.25, 0.5, 1.0]))
    return sorted(cuts)


def cases(chunk):
    rng = gen.rng_for(PROP, chunk)
    kind = chunk["kind"]
    if kind == "tiny":
        for i, (n, comb) in enumerate(G.tiny_space(3, chunk["max_edges"], G.W3)):
            if i % chunk["of"] == chunk["shard"]:
                yield {"kind": "tiny", "n": n, "edges": [list(c) for c in comb], "ord": i}
    elif kind == "tiny_sample":
        for j in range(chunk["n"]):
            n = rng.choice([2, 3, 3, 3])
            types = G.edge_types(n, G.W3)
            comb = sorted(rng.choice(types) for _ in range(3))
            yield {"kind": "tiny", "n": n, "edges": [list(c) for c in comb], "ord": rng.randrange(1 << 30)}
    elif kind == "rand":
        for j in range(chunk["n"]):
            if j % 5 == 0:
                spec = G.random_graph(rng, nmin=10, nmax=12, mmax=40)
            else:
                spec = G.random_graph(rng, nmin=2, nmax=12, mmax=40)
            D = G.floyd_warshall(spec["n"], G.arcs(spec))
            cuts = _some_cuts(rng, D)
            prep = [rng.choice(cuts)]
            if rng.random() < 0.5:
                prep.append(None)
            yield {"kind": "rand", "g": spec, "cuts": cuts, "prep": prep, "ord": rng.randrange(1 << 30)}
    elif kind == "big":
        # larger scale: hundreds of nodes, thousands of edges (requests sampled)
        for j in range(chunk["n"]):
            n = chunk["size"]
            spec = G.big_graph(rng, n, rng.choice([4, 8, 10]) * n)
            yield {"kind": "big", "g": spec, "ord": rng.randrange(1 << 30), "limit_x": 3}
    else:
        raise M.HarnessError("unknown chunk kind %r" % kind)


# --------------------------------------------------------------------------
def _spell(cut, key):
    """The same cut-off held in another numeric type (an element of a numpy array, a Python int): same value."""
    import numpy as np
    if cut is None or cut >= 1e299:
        return cut, None
    k = key % 5
    if float(cut).is_integer():
        if k == 1:
            return int(cut), "int"
        if k == 2:
            return np.int64(int(cut)), "numpy.int64"
    with np.errstate(all="ignore"):
        f32_ok = float(np.float32(cut)) == float(cut)
    if k == 3 and f32_ok:
        return np.float32(cut), "numpy.float32"
    if k == 4:
        return np.float64(cut), "numpy.float64"
    return cut, None


def _spec_of(case):
    if case["kind"] == "tiny":
        spec = G.tiny_spec(case["n"], [tuple(e) for e in case["edges"]], geom=False)
    else:
        spec = case["g"]
    if case["ord"] % 4 == 1:
        # realistic magnitudes: some weights of millions (metres on a long-distance network) next to weights of a few
        # units, so that competing walks differ by a tiny fraction of their length
        spec = dict(spec)
        edges = []
        for k, e in enumerate(spec["edges"]):
            e = list(e)
            if (k + case["ord"]) % 3 == 0:
                e[2] = e[2] + 2000000.0
            edges.append(e)
        spec["edges"] = edges
        spec["map_scale"] = True
    return spec


def _cut_classes(cut, ds):
    if cut is None:
        return ["cut_default"]
    out = []
    if any(cut == d for d in ds):
        out.append("cut_equal")
    if any(d > cut for d in ds):
        out.append("cut_below_some")
    if all(d < cut for d in ds):
        out.append("cut_above_all")
    if cut == 0:
        out.append("cut_zero")
    if all(d > cut for d in ds):
        out.append("cut_below_every_distance")
    return out


def _expected_table(D, ids, cut):
    n = len(ids)
    exp = {}
    for s in range(n):
        for t in range(n):
            d = D[s][t]
            if d != G.INF and (cut is None or d <= cut):
                exp[(ids[s], ids[t])] = d
    return exp


def _check_table(tbl, D, ids, cut, what):
    if M.is_raised(tbl):
        return {"what": what + " raised", "cut": cut, "raised": tbl}
    if not isinstance(tbl, dict):
        return {"what": what + " did not yield a table", "cut": cut, "got": repr(tbl)[:200]}
    exp = _expected_table(D, ids, cut)
    missing = sorted(k for k in exp if k not in tbl)
    extra = sorted(k for k in tbl if k not in exp)
    if missing:
        k = missing[0]
        return {"what": what + ": pair within the cut-off is missing from the table", "cut": cut, "pair": k,
                "true_distance": exp[k], "n_missing": len(missing)}
    if extra:
        k = extra[0]
        i, j = ids.index(k[0]) if k[0] in ids else -1, ids.index(k[1]) if k[1] in ids else -1
        td = D[i][j] if i >= 0 and j >= 0 else None
        return {"what": what + ": table holds a pair whose true distance exceeds the cut-off (or is unreachable)",
                "cut": cut, "pair": k, "table_value": tbl[k], "true_distance": td, "n_extra": len(extra)}
    for k, d in exp.items():
        v = tbl[k]
        if not isinstance(v, (int, float)) or v != v or not G.close(v, d):
            return {"what": what + ": wrong distance in the table", "cut": cut, "pair": k, "table_value": v,
                    "true_distance": d}
    return None


def run_case(case, ctx):
    spec = _spec_of(case)
    n = spec["n"]
    D = G.floyd_warshall(n, G.arcs(spec))
    ds = G.distinct_distances(D)
    cls = G.graph_classes(spec, D)
    if n >= 10:
        cls.add("nodes_10_to_12")
    if len(spec["edges"]) >= 25:
        cls.add("edges_25_to_40")
    if case["kind"] == "tiny":
        cuts = _all_cuts(D)
        prep = [cuts[len(cuts) // 2], ds[-1], None] if case["ord"] % 2 == 0 else [cuts[(len(cuts) - 1) // 2]]
        tag = "t"
    elif case["kind"] == "big":
        brng = random.Random(case["ord"] + 3)
        if n <= 350:
            cuts = sorted(set(brng.sample(ds, min(2, len(ds))) + [ds[len(ds) // 3] + 0.25]))
        else:
            cuts = [ds[len(ds) // 8] + (0.25 if case["ord"] % 2 else 0)]
        prep = [ds[len(ds) // 6]] if case["ord"] % 2 and n <= 350 else []
        tag = "b"
        cls.add("network_of_hundreds_of_nodes")
    else:
        cuts = list(case["cuts"])
        prep = list(case["prep"])
        tag = "r"
    for c in cuts + [None]:
        cls.update(_cut_classes(c, ds))
    sig = G.sig_of(spec, tag)
    nt = "reachable_pair" in cls

    def bad(w):
        w["graph"] = {"n": n, "edges": [e[:4] for e in spec["edges"]]}
        return violated(w, sig, nt, sorted(cls))

    net, ids, nodes, _e = G.build_network(spec, random.Random(case["ord"] + 1) if case["ord"] % 3 == 0 else None)
    if case["kind"] == "big":
        ops = [("pair", brng.randrange(n), brng.randrange(n)) for _ in range(80)]
        ops += [("list", brng.randrange(n), None) for _ in range(8)]
        ops += [("pair_cut", brng.randrange(n), brng.randrange(n)) for _ in range(30)]
        ops += [("fail", brng.randrange(n), brng.randrange(n)) for _ in range(2)]
        ops += [("table", c, None) for c in cuts] + ([("table", None, None)] if n <= 280 else [])
    else:
        ops = [("pair", s, t) for s in range(n) for t in range(n)]
        ops += [("list", s, None) for s in range(n)]
        ops += [("pair_cut", s, t) for s in range(n) for t in range(n) if (s * 7 + t * 3 + case["ord"]) % 3 == 0]
        ops += [("fail", s, (s + case["ord"]) % n) for s in range(n) if (s + case["ord"]) % 2 == 0]
        ops += [("table", c, None) for c in cuts] + [("table", None, None)]
    random.Random(case["ord"]).shuffle(ops)
    shared = {}
    for i, (op, a, b) in enumerate(ops):
        if op == "fail":
            # error path: a request that stops inside the search (cut=None cannot be compared; unknown identifier);
            # what it raises is not judged, the requests after it are
            if (a + i) % 2:
                M.call(net.shortest_distance, ids[a], ids[b], None)
            else:
                M.call(net.shortest_distance, ids[a], "no-such-node")
            ctx.count("failing_request")
            continue
        if op == "pair_cut":
            # a pair request bounded by a cut-off: the answer is only promised when the true distance is within it;
            # otherwise the request is a degenerate call whose leftovers must not reach later requests
            s, t = a, b
            d = D[s][t]
            cut = random.Random(case["ord"] * 1000 + i).choice(ds + [x - 0.25 for x in ds] + [x + 0.25 for x in ds] + [0.0])
            cut_given, tname = _spell(cut, case["ord"] + i)
            if tname:
                cls.add("cut_given_as_" + tname)
                ctx.count("cut_given_in_another_numeric_type")
            r = M.call(net.shortest_distance, ids[s], ids[t], cut_given)
            ctx.count("pair_request_with_cut")
            if d != G.INF and d <= cut:
                ctx.monitor(PAIR)
                if M.is_raised(r) or not isinstance(r, (int, float)) or not G.close(r, d):
                    return bad({"what": "shortest_distance(s,t,cut) with the true distance within the cut-off is not the "
                                        "minimum over permitted walks", "s": ids[s], "t": ids[t], "cut": cut, "got": r,
                                "true_distance": d, "call_index": i})
            continue
        if op == "pair":
            s, t = a, b
            if i % 5 == 4:
                # the documented output_dict option, with a dictionary shared by the requests of this case (filled
                # by whatever earlier request used it, all_shortest_distances included)
                r = M.call(net.shortest_distance, ids[s], ids[t], 1e300, shared)
                ctx.count("pair_request_with_output_dict")
            elif i % 7 == 3:
                # Node objects of the caller's own making (same id and position, not the instances the network keeps)
                from tracklib.core.network import Node
                from tracklib.core.obs_coords import ENUCoords
                r = M.call(net.shortest_distance, Node(ids[s], ENUCoords(spec["pos"][s][0], spec["pos"][s][1], 0)),
                           Node(ids[t], ENUCoords(spec["pos"][t][0], spec["pos"][t][1], 0)))
                ctx.count("pair_request_with_foreign_node_objects")
            elif i % 3 == 0:
                r = M.call(net.shortest_distance, nodes[s], nodes[t])
            else:
                r = M.call(net.shortest_distance, ids[s], ids[t])
            ctx.monitor(PAIR)
            d = D[s][t]
            if M.is_raised(r):
                return bad({"what": "shortest_distance(s,t) raised", "s": ids[s], "t": ids[t], "true_distance": d,
                            "raised": r, "call_index": i})
            if not isinstance(r, (int, float)) or r != r:
                return bad({"what": "shortest_distance(s,t) returned no number", "s": ids[s], "t": ids[t], "got": repr(r)})
            if d == G.INF:
                if not r < 0:
                    return bad({"what": "no permitted walk exists but a non-negative distance is reported",
                                "s": ids[s], "t": ids[t], "got": r, "call_index": i})
            else:
                if r < 0:
                    return bad({"what": "negative sentinel reported although a permitted walk exists",
                                "s": ids[s], "t": ids[t], "got": r, "true_distance": d, "call_index": i})
                if not G.close(r, d):
                    return bad({"what": "reported distance is not the minimum over permitted walks",
                                "s": ids[s], "t": ids[t], "got": r, "true_distance": d, "call_index": i})
        elif op == "list":
            s = a
            r = M.call(net.shortest_distance, ids[s])
            ctx.monitor(LIST)
            if M.is_raised(r):
                return bad({"what": "shortest_distance(s) raised", "s": ids[s], "raised": r, "call_index": i})
            order = M.call(net.getNodesId)
            if M.is_raised(order) or not isinstance(r, list) or len(r) != n or list(order) != ids:
                return bad({"what": "shortest_distance(s) did not return one value per node", "s": ids[s],
                            "got": repr(r)[:300], "node_order": repr(order)[:300]})
            for t in range(n):
                d, v = D[s][t], r[t]
                if d == G.INF:
                    if not (v < 0 or v >= 1e299):
                        return bad({"what": "list form gives a finite distance for an unreachable node", "s": ids[s],
                                    "t": ids[t], "got": v, "call_index": i})
                elif not (v == v and G.close(v, d)):
                    return bad({"what": "list form distance is not the minimum over permitted walks", "s": ids[s],
                                "t": ids[t], "got": v, "true_distance": d, "call_index": i})
            # aliasing: the lists handed back belong to the caller, who may empty or reorder them
            M.scribble(order)
            M.scribble(r)
            ctx.count("returned_lists_modified_by_the_caller")
        else:
            cut = a
            if cut is None and i % 2 == 0:
                tbl = M.call(net.all_shortest_distances, 1e300, shared)
                if not M.is_raised(tbl) and tbl is not shared:
                    return bad({"what": "all_shortest_distances did not return the dictionary it was given"})
                if not M.is_raised(tbl):
                    tbl = {k: v for k, v in tbl.items()}
            elif cut is None:
                tbl = M.call(net.all_shortest_distances)
            else:
                cut_given, tname = _spell(cut, case["ord"] + i)
                if tname:
                    cls.add("cut_given_as_" + tname)
                    ctx.count("cut_given_in_another_numeric_type")
                tbl = M.call(net.all_shortest_distances, cut_given)
            ctx.monitor(TABLE)
            w = _check_table(tbl, D, ids, cut, "all_shortest_distances")
            if w:
                w["call_index"] = i
                return bad(w)
            if not M.is_raised(tbl) and tbl is not shared:
                M.scribble(tbl)                  # the table belongs to the caller too
    # derived object: a sub-network extracted from this network (it re-uses the parent's node and edge objects) is
    # queried, then the parent again; each must answer for ITS graph
    if n >= 2 and case["ord"] % 3 == 2:
        hr = random.Random(case["ord"] + 7)
        s0 = hr.randrange(n)
        cutv = hr.choice([d for d in ds] + [1e300]) + 0.25
        sub = M.call(net.sub_network, ids[s0], cutv, "TOPOLOGIC", False)
        if not M.is_raised(sub):
            V = [v for v in range(n) if D[s0][v] != G.INF and D[s0][v] <= cutv]
            sub_spec = {"n": n, "pos": spec.get("pos"), "edges": [e for e in spec["edges"] if e[0] in V and e[1] in V]}
            Dsub = G.floyd_warshall(n, G.arcs(sub_spec))
            Vsub = sorted({e[0] for e in sub_spec["edges"]} | {e[1] for e in sub_spec["edges"]})   # nodes the sub-network holds
            pairs = [(a, b) for a in Vsub for b in Vsub]
            hr.shuffle(pairs)
            for (a, b) in pairs[:12]:
                r = M.call(sub.shortest_distance, ids[a], ids[b])
                ctx.monitor("sub_network.pair_vs_floyd_warshall")
                d = Dsub[a][b]
                ok = (not M.is_raised(r)) and isinstance(r, (int, float)) and ((r < 0) if d == G.INF else (r >= 0 and G.close(r, d)))
                if not ok:
                    return bad({"what": "distance on a sub-network (extracted from this network, sharing its node objects) "
                                        "is not the minimum over the permitted walks of the sub-network", "source_of_extraction": ids[s0],
                                "cut": cutv, "s": ids[a], "t": ids[b], "got": r, "true_distance_in_sub_network": d})
                a2, b2 = hr.randrange(n), hr.randrange(n)
                r = M.call(net.shortest_distance, ids[a2], ids[b2])
                d = D[a2][b2]
                ok = (not M.is_raised(r)) and isinstance(r, (int, float)) and ((r < 0) if d == G.INF else (r >= 0 and G.close(r, d)))
                if not ok:
                    return bad({"what": "distance on the parent network, asked between requests on a sub-network extracted "
                                        "from it, is not the minimum over permitted walks", "s": ids[a2], "t": ids[b2],
                                "got": r, "true_distance": d})
            cls.add("sub_network_queried")
    # the caller re-weights the edges of THIS network in place (Edge.weight is how weights are given: lengths replaced
    # by travel times, a closed street made expensive) and goes on asking, first from the source of the last request
    if 2 <= n <= 40 and len(spec["edges"]) >= 1 and case["ord"] % 3 == 1:
        hr = random.Random(case["ord"] + 13)
        s0 = hr.randrange(n)
        M.call(net.shortest_distance, ids[s0], ids[hr.randrange(n)])
        W = [e[2] for e in spec["edges"]]
        W2 = (W[1:] + W[:1]) if len(set(W)) > 1 else [w + 1.0 + k for k, w in enumerate(W)]
        spec2 = dict(spec)
        spec2["edges"] = [tuple(e[:2]) + (w2,) + tuple(e[3:]) for e, w2 in zip(spec["edges"], W2)]
        for eid, w2 in zip(_e, W2):
            net.EDGES[eid].weight = w2
        D2 = G.floyd_warshall(n, G.arcs(spec2))
        pairs = [(s0, t) for t in range(n)] + [(hr.randrange(n), hr.randrange(n)) for _ in range(8)]
        for qi, (a, b) in enumerate(pairs[:14]):
            if qi % 2 and shared:
                # ... through the documented output_dict option, with the dictionary that the requests made BEFORE the
                # weights were changed have filled (the successive use the documentation describes)
                r = M.call(net.shortest_distance, ids[a], ids[b], 1e300, shared)
                ctx.count("request_after_reweighting_with_the_output_dict_filled_before")
            else:
                r = M.call(net.shortest_distance, ids[a], ids[b])
            ctx.monitor("reweighted_in_place.pair_vs_floyd_warshall")
            d = D2[a][b]
            ok = (not M.is_raised(r)) and isinstance(r, (int, float)) and ((r < 0) if d == G.INF else (r >= 0 and G.close(r, d)))
            if not ok:
                w = bad({"what": "distance asked after the caller changed the weights of the network's edges in place is "
                                 "not the minimum over permitted walks for the weights as they are now",
                         "s": ids[a], "t": ids[b], "got": r, "true_distance_now": d, "true_distance_before": D[a][b],
                         "weights_now": W2})
                return w
        cls.add("edges_reweighted_in_place")
        D, spec = D2, spec2               # what the "again" request below is judged against
    # prepare / prepared_shortest_distance on fresh networks (DISTANCES accumulates by design)
    for cut in prep:
        net2, ids2, nodes2, _e2 = G.build_network(spec)
        if cut is None:
            r = M.call(net2.prepare, verbose=False)
        else:
            cut_given, tname = _spell(cut, case["ord"] + 2)
            if tname:
                cls.add("cut_given_as_" + tname)
            r = M.call(net2.prepare, cut_given, False)
        if M.is_raised(r):
            return bad({"what": "prepare raised", "cut": cut, "raised": r})
        ctx.monitor(TABLE)
        w = _check_table(net2.DISTANCES, D, ids2, cut, "prepare")
        if w:
            return bad(w)
        for s in (range(n) if n <= 40 else random.Random(case["ord"]).sample(range(n), 12)):
            for t in (range(n) if n <= 40 else random.Random(case["ord"] + s).sample(range(n), 12)):
                d = D[s][t]
                inside = d != G.INF and (cut is None or d <= cut)
                if (s + t) % 2:
                    has = M.call(net2.has_prepared_shortest_distance, nodes2[s], nodes2[t])
                    v = M.call(net2.prepared_shortest_distance, nodes2[s], nodes2[t])
                else:
                    has = M.call(net2.has_prepared_shortest_distance, ids2[s], ids2[t])
                    v = M.call(net2.prepared_shortest_distance, ids2[s], ids2[t])
                ctx.monitor(PREP)
                if M.is_raised(has) or M.is_raised(v):
                    return bad({"what": "prepared_shortest_distance raised", "cut": cut, "s": ids2[s], "t": ids2[t],
                                "raised": v if M.is_raised(v) else has})
                if bool(has) != inside:
                    return bad({"what": "has_prepared_shortest_distance disagrees with 'true distance <= cut-off'",
                                "cut": cut, "s": ids2[s], "t": ids2[t], "got": has, "true_distance": d})
                if inside:
                    if not (v == v and G.close(v, d)):
                        return bad({"what": "prepared distance is not the minimum over permitted walks", "cut": cut,
                                    "s": ids2[s], "t": ids2[t], "got": v, "true_distance": d})
                elif not (v < 0 or v >= 1e299):
                    return bad({"what": "prepared distance given for a pair beyond the cut-off / unreachable", "cut": cut,
                                "s": ids2[s], "t": ids2[t], "got": v, "true_distance": d})
    res = held(sig, nt, sorted(cls))

    def again():
        # the same Network object, asked again after another case (another network) was built and queried
        hr = random.Random(case["ord"] + 11)
        for _ in range(6):
            s, t = hr.randrange(n), hr.randrange(n)
            r = M.call(net.shortest_distance, ids[s], ids[t])
            d = D[s][t]
            ok = (not M.is_raised(r)) and isinstance(r, (int, float)) and ((r < 0) if d == G.INF else (r >= 0 and G.close(r, d)))
            if not ok:
                return {"what": "shortest_distance(s,t) on a network that was queried before, asked again after ANOTHER "
                                "network was built and queried in between, is not the minimum over permitted walks",
                        "s": ids[s], "t": ids[t], "got": r, "true_distance": d,
                        "graph": {"n": n, "edges": [e[:4] for e in spec["edges"]]}}
        return None
    if n <= 40:
        res["again"] = again
    return res


def classify(case, witness):
    return None
