"""C09 -- hidden-Markov decoding returns a maximum-likelihood state sequence
(DESIGN.md section 4, C09).

Every model is pushed through the real ``HMM.estimate``; the oracle enumerates
all candidate sequences (exact arithmetic: dyadic floats for the three-value
exhaustive family, ``fractions.Fraction`` elsewhere; Fraction-exact Viterbi
when there are more than 50 000 sequences) and compares

  * membership : the state written for epoch k is one of S(track, k);
  * optimality : the joint likelihood of the written sequence equals the maximum
                 over all candidate sequences (1e-12 relative) when that
                 maximum is positive;
  * last cost  : ``hmm_cost`` at the last epoch equals -log(maximum) (1e-9);
  * log mode   : the same model supplied as logarithms (log(p + 1e-300), the
                 floor tracklib itself applies) decodes to a sequence of the
                 same optimal likelihood and cost.

Which of several optimal sequences is returned is left free.  Models whose
every sequence has likelihood 0 are judged for membership only.

The DP tables TAB_VAL / TAB_MRK are read from the frame of ``estimate`` at its
return event (sys.settrace) for *diagnostics only*: a tie-cell counter and a
label in the witness; never a verdict.
"""
from __future__ import annotations

import hashlib
import json
import math
from fractions import Fraction

from vt import gen, monitor as M
from vt.gen import held, violated, ood

PROP = "C09"
RULE = ("models = (per-epoch candidate lists, observation symbols, likelihood tables). Exhaustive family: every model with "
        "T<=3 epochs and 1..2 candidates per epoch (all count vectors) whose P and Q entries range over {0, 0.5, 1}, "
        "enumerated in blocks of 729, plus the zero-free set {0.25, 0.5, 1} on the smaller count vectors (strided on the "
        "larger); sampled family: T=1..8, 1..5 candidates per epoch drawn as ordered subsets of a "
        "6-label universe (counts differ per epoch), stationary tables (setStationarity(True), same list each epoch) and "
        "per-epoch tables, value sets {0,.5,1}, {.25,.5,1}, k/8 up to 2 (unnormalised), 20-bit random reals with injected "
        "zeros, sparse (half zeros); each model is decoded with likelihoods and again with logarithms. "
        "Distinct = distinct model (hash of states, symbols and tables) resp. distinct block; non-trivial = at least two "
        "candidate sequences, positive optimum and at least one non-optimal sequence (a wrong answer is possible).")
ASSUMPTIONS = ["the enumeration oracle's arithmetic is exact (dyadic floats / Fractions); -log(best) is taken with math.log",
               "likelihoods stay above e^-600 when positive, so tracklib's documented 1e-300 floor cannot reorder "
               "positive-likelihood sequences (models violating this are out of domain)",
               "callbacks S, Q, P are pure functions of their documented arguments"]
EXHAUSTIVE = {"quick": "all models with T<=3, S<=2 over {0,0.5,1} for every count vector except (2,2,2) "
                       "(392 241 models); (2,2,2) is strided 1/27 (177 147 of 4 782 969); {0.25,0.5,1}: all models with at most "
                       "9 table entries",
              "thorough": "all 5 175 210 models with T<=3 epochs, 1..2 candidates per epoch, P and Q entries in {0,0.5,1}; "
                          "{0.25,0.5,1}: all models except count vector (2,2,2)"}
CASE_LIMIT_S = 60.0

THREE = [0.0, 0.5, 1.0]
QUARTER = [0.25, 0.5, 1.0]
VALSETS = {"three": THREE, "quarter": QUARTER}
BLOCK = 729
FLOOR = 1e-300
ENUM_LIMIT = 50000

MODE_NAMES = {"scalar": 0, "2d": 1}


# --------------------------------------------------------------------------
# oracle (written from the definition of joint likelihood, not from the DP)
def enum_best(p, q, counts):
    """All S_0*...*S_{T-1} joint likelihoods by prefix extension.
    Returns (best, number of optimal sequences, number of sequences)."""
    layer = [(l, p[0][l]) for l in range(counts[0])]
    for k in range(1, len(counts)):
        pk = p[k]
        qk = q[k - 1]
        rng_l = range(counts[k])
        new = []
        for m, v in layer:
            qm = qk[m]
            for l in rng_l:
                new.append((l, v * qm[l] * pk[l]))
        layer = new
    best = max(v for _, v in layer)
    nbest = sum(1 for _, v in layer if v == best)
    return best, nbest, len(layer)


def viterbi_exact(p, q, counts):
    """Max-product recursion on exact numbers, with the number of optimal
    sequences.  Used beyond ENUM_LIMIT sequences and as a self-check."""
    val = [p[0][l] for l in range(counts[0])]
    cnt = [1] * counts[0]
    for k in range(1, len(counts)):
        nv, nc = [], []
        for l in range(counts[k]):
            cand = [val[m] * q[k - 1][m][l] for m in range(counts[k - 1])]
            b = max(cand)
            c = sum(cnt[m] for m in range(counts[k - 1]) if cand[m] == b)
            nv.append(b * p[k][l])
            nc.append(c)
        val, cnt = nv, nc
    best = max(val)
    nbest = sum(c for v, c in zip(val, cnt) if v == best)
    n = 1
    for c in counts:
        n *= c
    return best, nbest, n


def seq_likelihood(p, q, idx):
    v = p[0][idx[0]]
    for k in range(1, len(idx)):
        v = v * q[k - 1][idx[k - 1]][idx[k]] * p[k][idx[k]]
    return v


def neg_log(v):
    """-log of a positive exact number (float or Fraction)."""
    if isinstance(v, Fraction):
        return -(math.log(v.numerator) - math.log(v.denominator))
    return -math.log(v)


# --------------------------------------------------------------------------
class Model:
    """Decoded case: candidate lists, symbols, user-style callbacks and the
    effective per-epoch tables p[k][l], q[k][m][l] the oracle works on."""

    def __init__(self):
        self.states = None
        self.obs = None
        self.stationary = False
        self.P = None          # P(s, ysym, k) -> float likelihood
        self.Q = None          # Q(s1, s2, k) -> float likelihood
        self.outside = 0       # callback evaluated outside the documented sets (diagnostic)

    def tables(self, num):
        T = len(self.states)
        p = [[num(self.P(s, self.obs[k], k)) for s in self.states[k]] for k in range(T)]
        q = [[[num(self.Q(s1, s2, k)) for s2 in self.states[k + 1]] for s1 in self.states[k]]
             for k in range(T - 1)]
        return p, q


def model_from_tables(states, obs, stationary, Pt, Qt):
    """Pt/Qt are indexed by label: stationary Pt[s][y], Qt[a][b]; otherwise
    Pt[k][s][y], Qt[k][a][b] (total over the label universe and all epochs)."""
    mdl = Model()
    mdl.states, mdl.obs, mdl.stationary = states, obs, stationary

    def P(s, y, k):
        try:
            if k < 0:
                raise IndexError
            return Pt[s][y] if stationary else Pt[k][s][y]
        except (IndexError, TypeError):
            mdl.outside += 1
            return 1.0

    def Q(s1, s2, k):
        try:
            if k < 0:
                raise IndexError
            return Qt[s1][s2] if stationary else Qt[k][s1][s2]
        except (IndexError, TypeError):
            mdl.outside += 1
            return 1.0
    mdl.P, mdl.Q = P, Q
    return mdl


def model_from_compact(counts, p, q):
    """Exhaustive family: labels are positions 0..c_k-1, one symbol per epoch,
    tables given per epoch for exactly the candidate states."""
    mdl = Model()
    mdl.states = [list(range(c)) for c in counts]
    mdl.obs = [k % 2 for k in range(len(counts))]
    T = len(counts)

    def P(s, y, k):
        if 0 <= k < T and 0 <= s < counts[k] and y == mdl.obs[k]:
            return p[k][s]
        mdl.outside += 1
        return 1.0

    def Q(s1, s2, k):
        if 0 <= k < T - 1 and 0 <= s1 < counts[k] and 0 <= s2 < counts[k + 1]:
            return q[k][s1][s2]
        mdl.outside += 1
        return 1.0
    mdl.P, mdl.Q = P, Q
    return mdl


# --------------------------------------------------------------------------
def _cand(mdl, states):
    """The epoch's candidate states in the container the case uses: a list (default), or another sequence a state
    function may just as well return -- a tuple, a numpy array, a range (for consecutive labels)."""
    c = getattr(mdl, "container", None)
    if c == "tuple":
        return tuple(states)
    if c == "ndarray":
        import numpy as np
        return np.array(states)
    if c == "range" and list(states) == list(range(states[0], states[0] + len(states))):
        return range(states[0], states[0] + len(states))
    return states


def _sym(y):
    """Observation symbol from what tracklib hands to P: the scalar feature
    value, or the Coords object built in the 2-D observation mode."""
    if hasattr(y, "getX"):
        return int(round(y.getX()))
    return int(round(y))


_LAST_HMM = []          # [HMM object, track, observation name(s), mode] of the last decode_with_tracklib call


def decode_with_tracklib(mdl, log, mode="scalar", verbose=0, ctor=False, trace=None, rawlog=False):
    """Run the real HMM.estimate.  Returns (inference, cost) or M.Raised."""
    from tracklib.algo.dynamics import HMM
    T = len(mdl.states)
    tr = gen.make_track([(float(mdl.obs[k]), float(k), 0.0) for k in range(T)])
    tr.createAnalyticalFeature("sym", [float(v) for v in mdl.obs])
    states = mdl.states

    def S(track, k):
        return _cand(mdl, states[k])

    if log and not rawlog:
        def Qf(s1, s2, k, track):
            return math.log(mdl.Q(s1, s2, k) + FLOOR)

        def Pf(s, y, k, track):
            return math.log(mdl.P(s, _sym(y), k) + FLOOR)
    else:
        def Qf(s1, s2, k, track):
            return mdl.Q(s1, s2, k)

        def Pf(s, y, k, track):
            return mdl.P(s, _sym(y), k)

    if ctor:
        h = HMM(S, Qf, Pf, log=log, stationarity=mdl.stationary)
    else:
        h = HMM()
        h.setStates(S)
        h.setTransitionModel(Qf)
        h.setObservationModel(Pf)
        h.setLog(log)
        h.setStationarity(mdl.stationary)
    obsname = "sym" if mode == "scalar" else ["x", "y"]
    if mode == "scalar" and (T + int(sum(mdl.obs))) % 5 == 2:
        # two-level workflow: the observations of this model are the labels an EARLIER decoding left on the track, under
        # the very names estimate() writes its results to
        tr.createAnalyticalFeature("hmm_inference", [float(v) for v in mdl.obs])
        tr.createAnalyticalFeature("hmm_cost", [3.5] * T)
        obsname = "hmm_inference"
        M.CTX.count("observations_are_the_results_of_an_earlier_decoding")
    _LAST_HMM[:] = [h, tr, obsname, mode]
    if trace is not None:
        with M.capture_locals([HMM.estimate.__code__], ["TAB_VAL", "TAB_MRK"], trace):
            r = M.call(h.estimate, tr, obsname, mode=MODE_NAMES[mode], verbose=verbose)
    else:
        r = M.call(h.estimate, tr, obsname, mode=MODE_NAMES[mode], verbose=verbose)
    if M.is_raised(r):
        return r
    inf = M.call(lambda: (list(tr["hmm_inference"]), list(tr["hmm_cost"])))
    return inf


def decode_rerun(mdl_a, mdl_b, log, how, mode="scalar"):
    """Call history on ONE HMM object and ONE track object: estimate() with the candidate lists of mdl_a, then the
    candidates are changed to those of mdl_b (same tables, same number of epochs) -- either through setStates() or
    by editing, in place, the track feature that the state function reads -- and estimate() is run again.
    Returns the second run's (inference, cost) or M.Raised."""
    from tracklib.algo.dynamics import HMM
    T = len(mdl_a.states)
    tr = gen.make_track([(float(mdl_a.obs[k]), float(k), 0.0) for k in range(T)])
    tr.createAnalyticalFeature("sym", [float(v) for v in mdl_a.obs])
    tr.createAnalyticalFeature("grp", [0.0] * T)
    tables = [mdl_a.states, mdl_b.states]

    def S_a(track, k):
        return tables[int(track["grp", k])][k] if how == "track_edit" else mdl_a.states[k]

    def S_b(track, k):
        return mdl_b.states[k]

    if log:
        def Qf(s1, s2, k, track):
            return math.log(mdl_a.Q(s1, s2, k) + FLOOR)

        def Pf(s, y, k, track):
            return math.log(mdl_a.P(s, _sym(y), k) + FLOOR)
    else:
        def Qf(s1, s2, k, track):
            return mdl_a.Q(s1, s2, k)

        def Pf(s, y, k, track):
            return mdl_a.P(s, _sym(y), k)
    h = HMM(S_a, Qf, Pf, log=log, stationarity=mdl_a.stationary)
    obsname = "sym" if mode == "scalar" else ["x", "y"]
    # error path first: decoding requests that are rejected (the track has no feature of that name), with and
    # without the log argument of estimate(); what they raise is not judged
    M.call(h.estimate, tr, "no_such_feature", True, MODE_NAMES[mode], 0)
    M.call(h.estimate, tr, "no_such_feature", not log, MODE_NAMES[mode], 0)
    M.CTX.count("rejected_estimate_before_valid_one")
    r = M.call(h.estimate, tr, obsname, mode=MODE_NAMES[mode], verbose=0)
    if M.is_raised(r):
        return r
    first = M.call(lambda: (list(tr["hmm_inference"]), list(tr["hmm_cost"])))
    if how == "first_run_only":
        return first
    if how == "track_edit":
        for k in range(T):
            tr["grp", k] = 1.0
    else:
        h.setStates(S_b)
    r = M.call(h.estimate, tr, obsname, mode=MODE_NAMES[mode], verbose=0)
    if M.is_raised(r):
        return r
    return M.call(lambda: (list(tr["hmm_inference"]), list(tr["hmm_cost"])))


def decode_on_track(mdl, tr, log=False):
    """estimate() of a fresh HMM for mdl on the given track object (which carries the 'sym' feature)."""
    from tracklib.algo.dynamics import HMM

    def S(track, k):
        return _cand(mdl, mdl.states[k])

    def Qf(s1, s2, k, track):
        v = mdl.Q(s1, s2, k)
        return math.log(v + FLOOR) if log else v

    def Pf(s, y, k, track):
        v = mdl.P(s, _sym(y), k)
        return math.log(v + FLOOR) if log else v
    h = HMM(S, Qf, Pf, log=log, stationarity=mdl.stationary)
    r = M.call(h.estimate, tr, "sym", mode=MODE_NAMES["scalar"], verbose=0)
    if M.is_raised(r):
        return r
    return M.call(lambda: (list(tr["hmm_inference"]), list(tr["hmm_cost"])))


def judge(mdl, out, p, q, best, ctx, tag):
    """Compare one decoding with the oracle.  None or a witness dict."""
    T = len(mdl.states)
    if M.is_raised(out):
        return {"what": "%s: estimate raised on an in-domain model" % tag, "raised": out}
    inf, cost = out
    ctx.monitor("membership")
    if len(inf) != T:
        return {"what": "%s: %d states written for %d epochs" % (tag, len(inf), T), "inference": inf}
    idx = []
    for k in range(T):
        s = inf[k]
        try:
            ok = s in mdl.states[k]
        except Exception:
            ok = False
        if not ok:
            return {"what": "%s: state written at epoch %d is not one of that epoch's candidates" % (tag, k),
                    "epoch": k, "assigned": s, "candidates": mdl.states[k], "inference": inf}
        idx.append(mdl.states[k].index(s))
    if best == 0:
        return None
    ctx.monitor("optimal_likelihood")
    got = seq_likelihood(p, q, idx)
    if not (got == best or abs(float(got) - float(best)) <= 1e-12 * float(best)):
        return {"what": "%s: assigned sequence is not a maximum-likelihood sequence" % tag,
                "inference": inf, "assigned_indices": idx, "likelihood_of_assigned": float(got),
                "maximum_likelihood": float(best), "hmm_cost": cost}
    ctx.monitor("last_epoch_cost")
    want = neg_log(best)
    c = cost[T - 1]
    if not isinstance(c, (int, float)) or not M.feq(c, want, 1e-9, 1e-9):
        return {"what": "%s: cost recorded at the last epoch differs from -log(maximum likelihood)" % tag,
                "hmm_cost_last": c, "expected": want, "inference": inf, "hmm_cost": cost}
    return None


def tie_diagnostics(mdl, trace, log):
    """Diagnostics from the captured DP tables: (#cells whose minimum over
    predecessors is attained more than once, #cells whose back-pointer is not
    an argmin).  Never a verdict."""
    if not trace or "TAB_VAL" not in trace[-1]:
        return 0, 0
    VAL, MRK = trace[-1]["TAB_VAL"], trace[-1].get("TAB_MRK")
    ties = bad = 0
    try:
        for k in range(1, len(mdl.states)):
            for l, s2 in enumerate(mdl.states[k]):
                vals = []
                for m, s1 in enumerate(mdl.states[k - 1]):
                    vals.append(-math.log(mdl.Q(s1, s2, k - 1) + FLOOR) + VAL[k - 1][m])
                b = min(vals)
                if sum(1 for v in vals if v == b) > 1:
                    ties += 1
                if MRK is not None and vals[MRK[k][l]] > b + 1e-9 * max(1.0, abs(b)):
                    bad += 1
    except Exception:
        return ties, bad
    return ties, bad


# --------------------------------------------------------------------------
# exhaustive family
def count_vectors(maxT=3, maxS=2):
    out = []
    for T in range(1, maxT + 1):
        def rec(pref):
            if len(pref) == T:
                out.append(list(pref))
                return
            for c in range(1, maxS + 1):
                rec(pref + [c])
        rec([])
    return out


def n_entries(counts):
    return sum(counts) + sum(counts[k] * counts[k + 1] for k in range(len(counts) - 1))


def compact_from_index(counts, idx, vals):
    nv = len(vals)
    p, q = [], []
    for c in counts:
        row = []
        for _ in range(c):
            idx, d = divmod(idx, nv)
            row.append(vals[d])
        p.append(row)
    for k in range(len(counts) - 1):
        mat = []
        for _ in range(counts[k]):
            row = []
            for _ in range(counts[k + 1]):
                idx, d = divmod(idx, nv)
                row.append(vals[d])
            mat.append(row)
        q.append(mat)
    return p, q


def exh_blocks(tier):
    """[(counts, lo, hi, stride, valset)] covering the exhaustive families:
    {0,.5,1} completely (quick: (2,2,2) strided), and the zero-free set
    {.25,.5,1} (every model has a positive optimum, many ties) on the count
    vectors with at most 9 (quick) / 11 (thorough) table entries plus a
    strided pass over the larger ones."""
    out = []
    for vs in ("three", "quarter"):
        for counts in count_vectors():
            ne = n_entries(counts)
            total = 3 ** ne
            stride = 1
            if vs == "three":
                if tier == "quick" and counts == [2, 2, 2]:
                    stride = 27
            else:
                if tier == "quick" and ne > 9:
                    stride = 27 if ne <= 11 else 729
                if tier == "thorough" and ne > 11:
                    stride = 27
            span = BLOCK * stride
            lo = 0
            while lo < total:
                out.append((counts, lo, min(total, lo + span), stride, vs))
                lo += span
    return out


# --------------------------------------------------------------------------
NCH_EXH = {"quick": 16, "thorough": 32}
NCH_RND = {"quick": 16, "thorough": 32}
N_RND = {"quick": 390, "thorough": 5000}
FAMILIES = ["three", "quarter", "grid8", "real", "sparse", "three", "grid8", "loglik"]


def chunks(tier, seed):
    out = []
    for k in range(NCH_EXH[tier]):
        out.append({"kind": "exh", "shard": k, "of": NCH_EXH[tier], "key": "exh%d" % k})
    for k in range(NCH_RND[tier]):
        out.append({"kind": "rnd", "shard": k, "key": "rnd%d" % k, "n": N_RND[tier],
                    "family": FAMILIES[k % len(FAMILIES)]})
    for k in range(4 if tier == "quick" else 16):
        out.append({"kind": "rnd", "shard": k, "key": "wide%d" % k, "n": 4 if tier == "quick" else 12, "family": "wide"})
    return out


def floors(tier):
    big = tier == "thorough"
    k = 8 if big else 1
    return {"monitors": {"membership": 500000 * k, "optimal_likelihood": 120000 * k, "last_epoch_cost": 120000 * k,
                         "log_mode_same_cost": 100000 * k, "rerun_same_objects": 500 * k,
                         "loglik.optimal_sum": 300 * k},
            "classes": {"exhaustive_block": 700 * k, "exh_three": 700 * k, "exh_quarter": 60 * k, "ties": 300, "zeros": 1000, "all_zero": 100,
                        "unique_optimum": 500, "unequal_counts": 1500, "stationary": 500, "per_epoch": 1500,
                        "T=1": 50, "T>=6": 500, "single_candidate_epoch": 500, "unnormalised_gt1": 300,
                        "obs_2d": 500, "five_candidates": 300, "viterbi_oracle": 3 if not big else 50},
            "counters": {"models_judged": 500000 * k, "models_with_ties": 20000 * k, "models_all_zero": 20000 * k,
                         "diag_tie_cells": 1000, "oracle_selfcheck": 1000},
            "distinct_nontrivial": 4000}


def _value(rng, fam):
    if fam == "loglik":
        # the tables ARE log-likelihoods (what log mode is for): dyadic values from +3 (unnormalised) down to far
        # below log(1e-300) = -690.8, with ties
        u = rng.random()
        if u < 0.25:
            return float(rng.choice([0, -1, -3, -100, -690, -691, -700, -750, -800, -1000, -2000, 2, 3]))
        if u < 0.45:
            return -float(rng.randrange(650, 1200))
        if u < 0.7:
            return -float(rng.randrange(0, 10000))        # step costs of thousands (squared distances over variances)
        return -rng.randrange(0, 4000) / 4.0
    if fam == "three":
        return rng.choice(THREE)
    if fam == "quarter":
        return rng.choice([0.25, 0.5, 1.0])
    if fam == "grid8":
        return rng.randrange(0, 17) / 8.0
    if fam == "sparse":
        return rng.choice([0.0, 0.0, 0.5, 1.0])
    # "real": 20-bit random reals in (0, scale], zeros injected
    if rng.random() < 0.15:
        return 0.0
    return rng.randrange(1 << 10, (1 << 20) + 1) / float(1 << 20)


def gen_model(rng, fam):
    if fam == "wide":
        # larger scale: 65..110 candidate states per epoch (a dense road network around each fix), unnormalised
        # likelihoods up to 2 with zeros; judged against the exact max-product recursion
        T = rng.choice([2, 3, 4, 5])
        U = 112
        stationary = rng.random() < 0.5
        if stationary:
            lab = rng.sample(range(U), rng.randint(65, 110))
            states = [list(lab) for _ in range(T)]
        else:
            states = [rng.sample(range(U), rng.choice([rng.randint(65, 110), rng.randint(65, 110), rng.randint(3, 70)]))
                      for _ in range(T)]
        vf = rng.choice(["grid8", "real2", "real"])

        def v():
            if vf == "real2":
                return 0.0 if rng.random() < 0.1 else rng.randrange(1 << 10, (1 << 21) + 1) / float(1 << 20)
            return _value(rng, vf)
        Pt = [[v()] for _ in range(U)]
        Qt = [[v() for _ in range(U)] for _ in range(U)]
        if not stationary:
            Pt = [Pt] + [[[v()] for _ in range(U)] for _ in range(T - 1)]
            Qt = [Qt] + [[[v() for _ in range(U)] for _ in range(U)] for _ in range(T - 1)]
        return {"kind": "rnd", "family": fam, "T": T, "states": states, "obs": [0] * T, "stationary": stationary,
                "P": Pt, "Q": Qt, "mode": "scalar", "verbose": 0, "ctor": rng.random() < 0.5}
    T = rng.choice([1, 2, 2, 3, 3, 4, 4, 5, 5, 6, 6, 7, 8])
    U = 6
    Y = rng.choice([1, 2, 3])
    stationary = rng.random() < 0.35
    scale = 1.0
    if fam == "real" and rng.random() < 0.4:
        scale = rng.choice([2.0, 3.0, 0.5])
    smax = rng.choice([2, 3, 3, 4, 5, 5])
    if stationary:
        c = rng.randint(1, smax)
        lab = rng.sample(range(U), c)
        states = [list(lab) for _ in range(T)]
    else:
        states = []
        for k in range(T):
            c = rng.randint(1, smax)
            states.append(rng.sample(range(U), c))
    obs = [rng.randrange(Y) for _ in range(T)]

    def val():
        return _value(rng, fam) * scale
    if stationary:
        Pt = [[val() for _ in range(Y)] for _ in range(U)]
        Qt = [[val() for _ in range(U)] for _ in range(U)]
    else:
        Pt = [[[val() for _ in range(Y)] for _ in range(U)] for _ in range(T)]
        Qt = [[[val() for _ in range(U)] for _ in range(U)] for _ in range(T)]
    c = {"kind": "rnd", "family": fam, "T": T, "states": states, "obs": obs, "stationary": stationary,
         "P": Pt, "Q": Qt, "mode": rng.choice(["scalar", "scalar", "2d"]),
         "verbose": rng.choice([0, 0, 0, 0, 1, 2, 3]), "ctor": rng.random() < 0.5}
    if rng.random() < 0.25:
        c["container"] = rng.choice(["tuple", "ndarray", "range"])
    elif not stationary and T >= 3 and rng.random() < 0.3:
        # aliasing: the state function hands back ONE list object at every epoch (S = lambda track, k: CANDIDATES)
        # while the tables depend on the epoch
        c["states"] = [list(states[0]) for _ in range(T)]
        c["same_list_object"] = 1
    return c


def cases(chunk):
    rng = gen.rng_for(PROP, chunk)
    if chunk["kind"] == "exh":
        blocks = exh_blocks(chunk["tier"])
        for i in range(chunk["shard"], len(blocks), chunk["of"]):
            counts, lo, hi, stride, vs = blocks[i]
            yield {"kind": "exh", "counts": counts, "lo": lo, "hi": hi, "stride": stride, "vals": vs}
    else:
        for _ in range(chunk["n"]):
            yield gen_model(rng, chunk["family"])


# --------------------------------------------------------------------------
def setup(ctx):
    import tracklib.algo.dynamics  # noqa: F401  (import errors surface here, once)


def _is_nontrivial(best, nbest, nseq):
    return nseq >= 2 and best > 0 and nbest < nseq


def run_exh(case, ctx):
    counts = case["counts"]
    stride = case.get("stride", 1)
    vals = VALSETS[case.get("vals", "three")]
    sig = ("exh", case.get("vals", "three"), tuple(counts), case["lo"], case["hi"], stride)
    nt = False
    n = n_ties = n_zero = 0
    for idx in range(case["lo"], case["hi"], stride):
        p, q = compact_from_index(counts, idx, vals)
        mdl = model_from_compact(counts, p, q)
        best, nbest, nseq = enum_best(p, q, counts)       # dyadic floats: exact
        n += 1
        if best == 0:
            n_zero += 1
        elif nbest > 1:
            n_ties += 1
        if _is_nontrivial(best, nbest, nseq):
            nt = True
        trace = [] if idx % 81 == 0 else None
        out = decode_with_tracklib(mdl, False, trace=trace)
        w = judge(mdl, out, p, q, best, ctx, "likelihood mode")
        if w is None and idx % 4 == 0:
            out2 = decode_with_tracklib(mdl, True)
            ctx.monitor("log_mode_same_cost")
            w = judge(mdl, out2, p, q, best, ctx, "log mode")
        if trace is not None:
            t, b = tie_diagnostics(mdl, trace, False)
            ctx.count("diag_tie_cells", t)
            ctx.count("diag_backpointer_not_argmin", b)
        if w is not None:
            w.update({"counts": counts, "index": idx, "P": p, "Q": q, "sequences": nseq,
                      "optimal_sequences": nbest, "callback_calls_outside_documented_sets": mdl.outside})
            ctx.count("models_judged", n)
            return violated(w, sig, True, ["exhaustive_block"])
        if mdl.outside:
            ctx.count("callback_calls_outside_documented_sets", mdl.outside)
    ctx.count("models_judged", n)
    ctx.count("models_with_ties", n_ties)
    ctx.count("models_all_zero", n_zero)
    cls = ["exhaustive_block", "exh_" + case.get("vals", "three"), "T=%d" % len(counts)]
    if len(set(counts)) > 1:
        cls.append("exh_unequal_counts")
    return held(sig, nt, cls)


def run_loglik(case, ctx):
    """Models given directly as logarithms, decoded in log mode: the assigned sequence must attain the maximum SUM of
    log-likelihoods over all candidate sequences and the cost recorded at the last epoch must be minus that sum.
    Sums are exact (dyadic values)."""
    states, T = case["states"], case["T"]
    mdl = model_from_tables(states, case["obs"], case["stationary"], case["P"], case["Q"])
    counts = [len(x) for x in states]
    p, q = mdl.tables(Fraction)
    val = list(p[0])
    for k in range(1, T):
        val = [max(val[m] + q[k - 1][m][l] for m in range(counts[k - 1])) + p[k][l] for l in range(counts[k])]
    best = max(val)
    nseq = 1
    for c in counts:
        nseq *= c
    cls = ["loglik", "stationary" if case["stationary"] else "per_epoch"]
    flat = [v for row in p for v in row] + [v for mat in q for row in mat for v in row]
    if any(v < -691 for v in flat):
        cls.append("log_value_below_log_1e-300")
    if best < -691:
        cls.append("log_optimum_below_log_1e-300")
    if any(v > 0 for v in flat):
        cls.append("unnormalised_gt1")
    sig = "L" + hashlib.blake2b(json.dumps([states, case["obs"], case["stationary"], case["P"], case["Q"]],
                                           sort_keys=True).encode(), digest_size=8).hexdigest()
    ctx.count("models_judged")
    out = decode_with_tracklib(mdl, True, case["mode"], 0, case["ctor"], None, rawlog=True)
    ctx.monitor("loglik.optimal_sum")
    w = None
    if M.is_raised(out):
        w = {"what": "log mode (tables given as logarithms): estimate raised", "raised": out}
    else:
        inf, cost = out
        idx = []
        for k in range(T):
            if len(inf) != T or inf[k] not in states[k]:
                w = {"what": "log mode: state written at epoch %d is not one of that epoch's candidates" % k,
                     "inference": inf, "candidates": states}
                break
            idx.append(states[k].index(inf[k]))
        if w is None:
            got = p[0][idx[0]]
            for k in range(1, T):
                got += q[k - 1][idx[k - 1]][idx[k]] + p[k][idx[k]]
            if got != best:
                w = {"what": "log mode (tables given as logarithms): the assigned sequence does not attain the maximum "
                             "sum of log-likelihoods", "inference": inf, "log_likelihood_of_assigned": float(got),
                     "maximum_log_likelihood": float(best), "hmm_cost": cost}
            elif not M.feq(cost[T - 1], -float(best), 1e-9, 1e-9):
                w = {"what": "log mode: cost recorded at the last epoch differs from minus the maximum log-likelihood",
                     "hmm_cost_last": cost[T - 1], "expected": -float(best)}
    if w is not None:
        w.update({"counts": counts, "sequences": nseq, "P": p, "Q": q})
        return violated(w, sig, nseq >= 2, cls)
    return held(sig, nseq >= 2, cls)


def run_rnd(case, ctx):
    if case.get("family") == "loglik":
        return run_loglik(case, ctx)
    states = case["states"]
    T = case["T"]
    if T != len(states) or T < 1 or any(len(s) < 1 for s in states) or len(case["obs"]) != T:
        return ood("malformed model")
    if case.get("same_list_object"):
        states = [states[0]] * T            # one list object for every epoch
    mdl = model_from_tables(states, case["obs"], case["stationary"], case["P"], case["Q"])
    counts = [len(s) for s in states]
    p, q = mdl.tables(Fraction)
    nseq = 1
    for c in counts:
        nseq *= c
    cls = [case["family"], "stationary" if case["stationary"] else "per_epoch"]
    if case.get("container"):
        mdl.container = case["container"]
        cls.append("candidates_returned_as_" + case["container"])
    if case.get("same_list_object"):
        cls.append("one_candidate_list_object_for_every_epoch")
    wide = case["family"] == "wide"
    if wide:
        cls.append("more_than_64_candidates_per_epoch")
    if nseq <= ENUM_LIMIT:
        best, nbest, _ = enum_best(p, q, counts)
        if nseq <= 3000:
            vb, vn, _ = viterbi_exact(p, q, counts)
            if vb != best or (best > 0 and vn != nbest):
                raise M.HarnessError("oracle self-check failed: enumeration %r/%d vs exact Viterbi %r/%d"
                                     % (best, nbest, vb, vn))
            ctx.count("oracle_selfcheck")
    else:
        best, nbest, _ = viterbi_exact(p, q, counts)
        cls.append("viterbi_oracle")
    flat = [v for row in p for v in row] + [v for mat in q for row in mat for v in row]
    positive = [v for v in flat if v > 0]
    if best > 0 and neg_log(best) > 600:
        return ood("positive optimum below tracklib's documented 1e-300 floor")
    if positive and min(positive) < Fraction(1, 10 ** 200):
        return ood("positive likelihood not distinguishable from the 1e-300 floor")
    if any(v == 0 for v in flat):
        cls.append("zeros")
    if any(v > 1 for v in flat):
        cls.append("unnormalised_gt1")
    if best == 0:
        cls.append("all_zero")
        ctx.count("models_all_zero")
    elif nbest > 1:
        cls.append("ties")
        ctx.count("models_with_ties")
    else:
        cls.append("unique_optimum")
    if len(set(counts)) > 1:
        cls.append("unequal_counts")
    if 1 in counts:
        cls.append("single_candidate_epoch")
    if 5 in counts:
        cls.append("five_candidates")
    if T == 1:
        cls.append("T=1")
    if T >= 6:
        cls.append("T>=6")
    if case["mode"] == "2d":
        cls.append("obs_2d")
    if case["verbose"]:
        cls.append("verbose_output")
    sig = hashlib.blake2b(json.dumps([states, case["obs"], case["stationary"], case["P"], case["Q"]],
                                     sort_keys=True).encode(), digest_size=8).hexdigest()
    nt = _is_nontrivial(best, nbest, nseq)
    ctx.count("models_judged")

    trace = []
    out = decode_with_tracklib(mdl, False, case["mode"], case["verbose"], case["ctor"], trace)
    hmm0 = list(_LAST_HMM)
    w = judge(mdl, out, p, q, best, ctx, "likelihood mode")
    t, b = tie_diagnostics(mdl, trace, False)
    ctx.count("diag_tie_cells", t)
    ctx.count("diag_backpointer_not_argmin", b)
    if w is None:
        out2 = decode_with_tracklib(mdl, True, case["mode"], case["verbose"], not case["ctor"])
        ctx.monitor("log_mode_same_cost")
        w = judge(mdl, out2, p, q, best, ctx, "log mode")
        if w is None and best > 0 and not M.is_raised(out) and not M.is_raised(out2):
            # same optimal cost in both modes (each already equals -log(best) within 1e-9)
            if not M.feq(out[1][T - 1], out2[1][T - 1], 2e-9, 2e-9):
                w = {"what": "log mode and likelihood mode record different optimal costs",
                     "cost_likelihood_mode": out[1][T - 1], "cost_log_mode": out2[1][T - 1]}
    if w is None and int(sig[:4], 16) % 3 == 0 and not wide:
        # re-run history: same HMM object, same track object, other candidate lists (same tables, which are total
        # over the label universe); the second decoding is judged against the second model
        import random
        hr = random.Random(sig)
        U = 6
        if case["stationary"]:
            lab = hr.sample(range(U), hr.randint(1, 5))
            states2 = [list(lab) for _ in range(T)]
        else:
            states2 = [hr.sample(range(U), hr.randint(1, 5)) for _ in range(T)]
        if states2 != states:
            mdl2 = model_from_tables(states2, case["obs"], case["stationary"], case["P"], case["Q"])
            counts2 = [len(x) for x in states2]
            p2, q2 = mdl2.tables(Fraction)
            best2, nbest2, _ = viterbi_exact(p2, q2, counts2)
            if not (best2 > 0 and neg_log(best2) > 600):
                how = hr.choice(["setStates", "track_edit"])
                uselog = hr.random() < 0.3
                out0 = decode_rerun(mdl, mdl2, uselog, "first_run_only", case["mode"])
                w = judge(mdl, out0, p, q, best, ctx, "estimate() on an HMM object whose earlier requests were rejected")
                if w is not None:
                    w.update({"sequences": nseq, "counts": counts})
                    return violated(w, sig, nt, cls)
                out3 = decode_rerun(mdl, mdl2, uselog, how, case["mode"])
                ctx.monitor("rerun_same_objects")
                w = judge(mdl2, out3, p2, q2, best2, ctx, "second estimate() on the same HMM and track objects after the "
                                                         "candidate states were changed (%s)" % how)
                cls.append("history_rerun")
                if w is not None:
                    w.update({"first_run_states": states, "second_run_states": states2})
    if w is None and T >= 2 and int(sig[4:8], 16) % 3 == 0 and not wide:
        # derived objects: two portions of one parent track (extracts share the parent's observation objects) are
        # decoded one after the other, each with the part of the model that concerns it
        parent = gen.make_track([(float(case["obs"][k]), float(k), 0.0) for k in range(T)])
        parent.createAnalyticalFeature("sym", [float(v) for v in case["obs"]])
        cut = 1 + int(sig[8:12], 16) % (T - 1)
        parts = [(0, cut - 1), (cut, T - 1)]
        if int(sig[12:14], 16) % 2:
            parts.reverse()
        for (i0, i1) in parts:
            sub = M.call(parent.extract, i0, i1)
            if M.is_raised(sub):
                break
            st = states[i0:i1 + 1]
            ob = case["obs"][i0:i1 + 1]
            Pp = case["P"] if case["stationary"] else case["P"][i0:i1 + 1]
            Qq = case["Q"] if case["stationary"] else case["Q"][i0:i1 + 1]
            m2 = model_from_tables(st, ob, case["stationary"], Pp, Qq)
            c2 = [len(x) for x in st]
            p2, q2 = m2.tables(Fraction)
            b2, _nb2, _ = viterbi_exact(p2, q2, c2)
            if b2 > 0 and neg_log(b2) > 600:
                continue
            o2 = decode_on_track(m2, sub, False)
            ctx.monitor("portions_of_one_parent")
            w = judge(m2, o2, p2, q2, b2, ctx, "portion %d..%d of a parent track, decoded after/before its sibling" % (i0, i1))
            if w is not None:
                w.update({"portion": [i0, i1], "parts_order": parts})
                break
        cls.append("history_portions")
    if w is None and T >= 3 and int(sig[8:12], 16) % 4 == 0 and not wide:
        # derived observations: a closed circuit -- the track's last observation is a copy() of its first
        # (Track.loop(add=True)); the observed symbol of the last epoch is then written on it
        circ = gen.make_track([(float(case["obs"][k]), float(k), 0.0) for k in range(T - 1)])
        circ.createAnalyticalFeature("sym", [float(v) for v in case["obs"][:T - 1]])
        r_ = M.call(circ.loop, True)
        if not M.is_raised(r_) and circ.size() == T:
            M.call(circ.setObsAnalyticalFeature, "sym", T - 1, float(case["obs"][T - 1]))
            o4 = decode_on_track(mdl, circ, False)
            ctx.monitor("closed_circuit_last_is_a_copy_of_first")
            w = judge(mdl, o4, p, q, best, ctx, "a closed circuit (the last observation is a copy() of the first)")
            cls.append("closed_circuit")
    if w is not None:
        w.update({"sequences": nseq, "optimal_sequences": nbest, "counts": counts,
                  "diag_tie_cells": t, "diag_backpointer_not_argmin_cells": b,
                  "callback_calls_outside_documented_sets": mdl.outside})
        return violated(w, sig, nt, cls)
    if mdl.outside:
        ctx.count("callback_calls_outside_documented_sets", mdl.outside)
    res_ = held(sig, nt, cls)

    def again():
        # the same HMM object decodes the same track again after ANOTHER model (another HMM object) was decoded in
        # between
        h, tr0, obsname, mode0 = hmm0
        if obsname == "hmm_inference":
            # the observations were the labels of an earlier decoding, which the first estimate() has since replaced by
            # its own results: the caller puts the labels back before decoding again
            for k_ in range(T):
                tr0["hmm_inference", k_] = float(mdl.obs[k_])
        r = M.call(h.estimate, tr0, obsname, mode=MODE_NAMES[mode0], verbose=0)
        out_ = r if M.is_raised(r) else M.call(lambda: (list(tr0["hmm_inference"]), list(tr0["hmm_cost"])))
        w_ = judge(mdl, out_, p, q, best, ctx, "the first HMM object, decoding again after another model was decoded in between")
        if w_ is not None:
            w_.update({"counts": counts, "sequences": nseq})
        return w_
    if not wide and len(hmm0) == 4:
        res_["again"] = again
    return res_


def run_case(case, ctx):
    if case["kind"] == "exh":
        return run_exh(case, ctx)
    if case["kind"] == "rnd":
        return run_rnd(case, ctx)
    raise M.HarnessError("unknown case kind %r" % case.get("kind"))


def classify(case, witness):
    return None


# floors for the call-history workloads added in session 3 (a run in which they were silently skipped is inconclusive)
_floors_base = floors
_FLOORS_EXTRA = {'counters': {'observations_are_the_results_of_an_earlier_decoding': 400}, 'classes': {'history_rerun': 500, 'more_than_64_candidates_per_epoch': 12,
                             'candidates_returned_as_tuple': 100, 'closed_circuit': 300, 'one_candidate_list_object_for_every_epoch': 200, 'candidates_returned_as_ndarray': 100}}


def floors(tier):
    f = _floors_base(tier)
    for kind, d in _FLOORS_EXTRA.items():
        f.setdefault(kind, {}).update(d)
    return f
