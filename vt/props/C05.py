"""C05 -- linear resampling returns the piecewise-linear interpolant of the track
(DESIGN.md section 4, C05).

Observed at the API boundary only: Track.getX/Y/Z/getTimestamps and len() after
``Track.resample(...)`` / ``tracklib.algo.interpolation.resample(...)``.

Oracle (stdlib only, integer milliseconds + fractions): piecewise-linear
interpolation between the bracketing fixes found by bisection.  Timestamps are
built from calendar fields with integer milliseconds and the truth is re-read
through ``getTimestamps()`` and converted with the standard library.

Conditioning.  tracklib works with float seconds since 1970 (resolution
2.4e-7 s in 2020).  A requested instant is therefore known to the code only to
a few ulps (plus one ulp per accumulated step for numeric intervals), and a
weight computed on a leg of duration dt carries a relative error ulp/dt.  The
position tolerance is the stated 1e-6 m plus (local speed) x (that time
uncertainty); short legs are generated with small displacements so that the
tolerance stays tight where it matters.

The step derived by the ``npts=`` / ``factor=`` front ends is *observed* (a
recording wrapper on the real module-level ``resample``) and the result is
judged only on the interpolant property for that step.

Reading of the sentence.  "Returns exactly one observation for every requested
instant in (first, last]" is read as a description of the whole result: the
output holds those observations, in order, and nothing else.  A duplicated
instant in a list may yield one observation per occurrence or one in all (both
accepted).  For a numeric interval an instant within max(1e-6 s, accumulated
float drift) of the last timestamp may or may not be present.
"""
from __future__ import annotations

import bisect
import math
from fractions import Fraction

from vt import gen, monitor as M
from vt.gen import held, violated, ood

PROP = "C05"
RULE = ("random ENU tracks of 2..10 fixes (lattice / vehicle-like / wild positions, repeated positions, steps from 1 ms to "
        "hours, mid-year dates and dates straddling 31 Dec/1 Jan) x one request: temporal number (divides / does not divide / "
        "exceeds the duration), sorted list of instants (before, at, between, after, duplicates), reference track, spatial "
        "ds in {L/k, 0.999999 L/k, random, > L}, npts= and factor= front ends. Distinct = distinct (track, request). "
        "Non-trivial = the track has >= 3 fixes and at least one returned observation lies strictly inside a leg "
        "(weights different from 0 and 1).")
ASSUMPTIONS = ["harness timestamps are ms-exact and re-read through getTimestamps(); calendar.timegm is the calendar reference",
               "position tolerance 1e-6 m + local speed x time uncertainty of float epoch seconds (a few ulps, + one ulp per "
               "accumulated numeric step); timestamp tolerance 1 ms (tracklib truncates to the millisecond)",
               "spatial: abscissa k*ds located with 1e-9 m + 1e-12 L slack; where it falls on a zero-length leg any height / "
               "time between the two coincident fixes is accepted",
               "requests are sorted; intervals are > 0 and yield at most ~400 samples"]
CASE_LIMIT_S = 20.0
NCHUNK = 16

YEARS = [1971, 1999, 2000, 2016, 2019, 2020, 2023, 2024, 2037]
STEP_CHOICES = [1, 1, 2, 3, 10, 100, 999, 1000, 1000, 1001, 5000, 60000, 3600000]


def chunks(tier, seed):
    n = 2500 if tier == "quick" else 40000
    return [{"key": "r%d" % k, "n": n} for k in range(NCHUNK)]


def floors(tier):
    return {"monitors": {"temporal.count": 3000, "temporal.interpolant": 20000, "temporal.stamp": 20000,
                         "spatial.count": 3000, "spatial.first_fix": 3000, "spatial.interpolant": 20000,
                         "spatial.timestamps_nondecreasing": 3000,
                         "resample.delta_recorded": 10000, "readUnixTime.wellformed": 20000},
            "classes": {"T-num-divides": 300, "T-num-nondivides": 300, "T-num-exceeds": 100,
                        "T-list": 1000, "T-list-duplicates": 200, "T-list-at-fix": 300, "T-list-before": 200,
                        "T-list-after": 200, "T-track": 300,
                        "S-divides": 500, "S-near-divides": 300, "S-random": 300, "S-exceeds": 100,
                        "S-last-abscissa-rounds-above-L": 5,
                        "npts": 300, "factor": 300, "year-straddle": 2000, "repeated-position": 2000,
                        "step-1ms": 2000, "step-hours": 500, "fixes-2": 300, "fixes-10": 300,
                        "pre:abs_curv_then_edit": 1000, "pre:speed_and_abs_curv": 500, "pre:plain_features": 500},
            "distinct_nontrivial": 5000}


# --------------------------------------------------------------------------
# monitors installed on the real code
_seen_delta = []
_installed = False


def setup(ctx):
    global _installed
    if _installed:
        return
    # cross-cutting sanitizer: well-formed dates out of readUnixTime (DESIGN 3.2)
    from vt.props import C03
    C03.setup(ctx)
    from tracklib.algo import interpolation as I

    def pre(a, k):
        d = k["delta"] if "delta" in k else (a[1] if len(a) > 1 else None)
        _seen_delta.append(d)
        return None

    def post(tok, a, k, result):
        return None
    orig = I.resample
    wrapped = M.wrap_prepost(orig, pre, post, "resample.delta_recorded")
    n = M.patch_everywhere(orig, wrapped)
    if n < 2:
        raise M.HarnessError("resample rebinding touched %d bindings" % n)
    _installed = True


# --------------------------------------------------------------------------
# generators
def _gen_track(rng):
    n = rng.choice([2, 2, 3, 3, 4, 5, 6, 7, 8, 9, 10, 10])
    steps = []
    mode = rng.random()
    for _ in range(n - 1):
        if mode < 0.15:
            steps.append(1000)
        else:
            c = rng.choice(STEP_CHOICES + ["r5000", "rhours"])
            if c == "r5000":
                c = rng.randint(1, 5000)
            elif c == "rhours":
                c = rng.randint(1, 3 * 3600 * 1000)
            steps.append(c)
    total = sum(steps)
    y = rng.choice(YEARS)
    if rng.random() < 0.4:
        ny = gen.ms_from_fields(y + 1, 1, 1)
        base = ny - rng.randint(1, total)            # first < new year <= last
    else:
        base = gen.ms_from_fields(y, rng.randint(1, 12), rng.randint(1, 28), rng.randint(0, 23), rng.randint(0, 59),
                                  rng.randint(0, 59), rng.choice([0, 0, 1, 500, 999, rng.randint(0, 999)]))
    if rng.random() < 0.03:
        base = 0            # special value that is a regular value: the track starts at 01/01/1970 00:00:00.000
    tms = [base]
    for s in steps:
        tms.append(tms[-1] + s)
    style = rng.choice(["lattice", "vehicle", "vehicle", "wild", "small"])
    pts = []
    for i in range(n):
        if i > 0 and rng.random() < 0.2:
            p = list(pts[-1])
            if rng.random() < 0.5:
                p[2] = _coord(rng, style, 2)
            pts.append(p)
            continue
        if style == "lattice":
            if i == 0 or rng.random() < 0.3:
                p = [rng.randint(-5, 5), rng.randint(-5, 5), rng.randint(0, 3)]
            else:
                p = [pts[-1][0] + rng.choice([-3, -1, 0, 1, 2, 4]), pts[-1][1] + rng.choice([-4, -1, 0, 1, 3]),
                     rng.randint(0, 3)]
        elif style == "vehicle" and i > 0:
            reach = min(300.0, 0.01 + 30.0 * steps[i - 1] / 1000.0)
            p = [pts[-1][0] + rng.uniform(-reach, reach), pts[-1][1] + rng.uniform(-reach, reach),
                 pts[-1][2] + rng.uniform(-reach, reach) * 0.1]
        else:
            p = [_coord(rng, style, 0), _coord(rng, style, 1), _coord(rng, style, 2)]
        pts.append(p)
    return pts, tms


def _coord(rng, style, axis):
    if style == "lattice":
        return rng.randint(-5, 5) if axis < 2 else rng.randint(0, 3)
    if style == "small":
        return rng.uniform(-1, 1)
    return rng.uniform(-1000, 1000) if axis < 2 else rng.uniform(-50, 50)


def _len2d(pts):
    return sum(math.hypot(pts[i][0] - pts[i - 1][0], pts[i][1] - pts[i - 1][1]) for i in range(1, len(pts)))


def _instant_pool(rng, tms):
    first, last = tms[0], tms[-1]
    pool = [first - 1, first - 1000, first - rng.randint(1, 10 ** 7), first, first + 1, last - 1, last, last + 1,
            last + 1000, last + rng.randint(1, 10 ** 7)]
    for i, t in enumerate(tms):
        pool += [t, t, t - 1, t + 1]
        if i > 0:
            pool.append((tms[i - 1] + t) // 2)
            pool.append(rng.randint(tms[i - 1], t))
    for _ in range(4):
        pool.append(rng.randint(first, last))
    return [p for p in pool if p >= 0]


def _gen_request(rng, pts, tms):
    D = tms[-1] - tms[0]
    L = _len2d(pts)
    r = rng.random()
    entry = "method" if rng.random() < 0.7 else "func"
    if r < 0.30:
        sub = rng.random()
        if sub < 0.4:
            ks = [k for k in range(1, 13) if D % k == 0]
            k = rng.choice(ks)
            q = D // k
            delta = q // 1000 if (q % 1000 == 0 and rng.random() < 0.7) else q / 1000.0
        elif sub < 0.8:
            q = rng.uniform(max(D / 300.0, 1.0), D)
            if rng.random() < 0.5:
                q = max(1, int(q))
            delta = q / 1000.0
            if rng.random() < 0.2 and D >= 2000:
                delta = rng.randint(max(1, D // 300000), max(1, D // 1000))     # python int seconds
        else:
            delta = rng.choice([(D + 1) / 1000.0, 1.5 * D / 1000.0, (2 * D + 1000) / 1000.0, D // 1000 + 1])
        if D / (delta * 1000.0) > 400:
            delta = D / 1000.0 / rng.randint(100, 400)
        return {"mode": "T-num", "arg": delta, "entry": entry}
    if r < 0.50:
        pool = _instant_pool(rng, tms)
        m = rng.randint(1, 12)
        req = sorted(rng.choice(pool) for _ in range(m))
        return {"mode": "T-list", "arg": req, "entry": entry}
    if r < 0.58:
        pool = _instant_pool(rng, tms)
        m = rng.randint(1, 12)
        req = sorted(set(rng.choice(pool) for _ in range(m)))
        return {"mode": "T-track", "arg": req, "entry": entry}
    if r < 0.88:
        if L == 0:
            ds = rng.choice([1, 0.5, rng.uniform(0.01, 10)])
            return {"mode": "S", "arg": ds, "entry": entry, "sub": "zero-length"}
        sub = rng.random()
        if sub < 0.4:
            ds = L / rng.randint(1, 12)
            name = "divides"
            if float(L).is_integer() and rng.random() < 0.5:
                cand = [k for k in range(1, int(L) + 1) if int(L) % k == 0]
                ds = rng.choice(cand)
        elif sub < 0.6:
            ds = 0.999999 * L / rng.randint(1, 12)
            name = "near-divides"
        elif sub < 0.85:
            ds = rng.uniform(L / 200.0, L)
            if L >= 3 and rng.random() < 0.2:
                ds = rng.randint(1, int(L))
            name = "random"
        else:
            ds = rng.choice([L * 1.01, 2 * L, L + 1, int(L) + 1])
            name = "exceeds"
        if L / ds > 400:
            ds = L / rng.randint(100, 400)
        return {"mode": "S", "arg": ds, "entry": entry, "sub": name}
    which = rng.choice(["S-npts", "T-npts", "S-factor", "T-factor"])
    if which.endswith("npts"):
        return {"mode": which, "arg": rng.randint(1, 30), "entry": "method"}
    return {"mode": which, "arg": rng.choice([1, 2, 3, 0.5]), "entry": "method"}


def _gen_scale(rng):
    """A long track (hundreds / thousands of fixes) and a request for hundreds / thousands of instants or steps: a
    1 Hz list or reference track that starts before the track and may outlast it, a small numeric interval or step."""
    n = rng.choice([300, 700, 1500])
    steps = [1000 if rng.random() < 0.8 else rng.choice([500, 2000, 3000, 1, 250]) for _ in range(n - 1)]
    base = gen.ms_from_fields(2024, 5, 17, 8, rng.randint(0, 59), rng.randint(0, 59), rng.choice([0, 0, 250, 500]))
    tms = [base]
    for st in steps:
        tms.append(tms[-1] + st)
    pts = [[rng.uniform(-100, 100), rng.uniform(-100, 100), rng.uniform(0, 20)]]
    for i in range(1, n):
        reach = 0.01 + 15.0 * steps[i - 1] / 1000.0
        if rng.random() < 0.05:
            pts.append(list(pts[-1]))
        else:
            pts.append([pts[-1][0] + rng.uniform(-reach, reach), pts[-1][1] + rng.uniform(-reach, reach),
                        pts[-1][2] + rng.uniform(-1, 1)])
    D, L = tms[-1] - tms[0], _len2d(pts)
    mode = rng.choice(["T-list", "T-track", "T-track", "T-num", "S"])
    entry = "method" if rng.random() < 0.7 else "func"
    if mode in ("T-list", "T-track"):
        start = tms[0] - rng.randint(0, 100) * 1000 + rng.choice([0, 0, 137, 500])
        m = rng.choice([520, 900, 1700, 3000])
        req = [start + k * 1000 for k in range(m)]
        return pts, tms, {"mode": mode, "arg": req, "entry": entry, "scale": 1, "limit_x": 4}
    if mode == "T-num":
        return pts, tms, {"mode": mode, "arg": D / 1000.0 / rng.randint(600, 1900), "entry": entry, "scale": 1, "limit_x": 4}
    return pts, tms, {"mode": "S", "arg": L / rng.uniform(600, 1900), "entry": entry, "sub": "random", "scale": 1, "limit_x": 4}


def cases(chunk):
    rng = gen.rng_for(PROP, chunk)
    nscale = 3 if chunk["n"] <= 2500 else 12
    for _ in range(chunk["n"]):
        if _ % (chunk["n"] // nscale) == 5:
            pts, tms, req = _gen_scale(rng)
            c = {"pts": pts, "tms": tms}
            c.update(req)
            yield c
            continue
        pts, tms = _gen_track(rng)
        req = _gen_request(rng, pts, tms)
        c = {"pts": pts, "tms": tms}
        c.update(req)
        if req["mode"] in ("T-num", "S") and rng.random() < 0.15:
            # the interval / step held as a numpy scalar (taken out of an array)
            c["arg_type"] = "numpy.int64" if isinstance(req["arg"], int) else "numpy.float64"
        # call history before the resampling: the track may carry features computed on an earlier geometry
        r = rng.random()
        if r < 0.12:
            c["pre"] = "abs_curv_then_edit"
            c["pre_scale"] = rng.choice([0.5, 2.0, 3.0, 0.1])
        elif r < 0.20:
            c["pre"] = "speed_and_abs_curv"
        elif r < 0.26:
            c["pre"] = "plain_features"
        elif r < 0.34:
            c["pre"] = "retimed_in_place"
        yield c


# --------------------------------------------------------------------------
# reading results through the API
def _read(track):
    """(X, Y, Z, [epoch ms]) or Raised (malformed stamp -> ValueError)."""
    def rd():
        X, Y, Z = list(track.getX()), list(track.getY()), list(track.getZ())
        ms = [gen.obstime_to_ms(t) for t in track.getTimestamps()]
        if not (len(X) == len(Y) == len(Z) == len(ms) == len(track)):
            raise ValueError("coordinate / timestamp lists of different lengths")
        return X, Y, Z, ms
    return M.call(rd)


def _leg_speed(src, j):
    """max |d coordinate| / dt (m/s) on leg j-1 -> j."""
    X, Y, Z, T = src
    dt = (T[j] - T[j - 1]) / 1000.0
    return max(abs(X[j] - X[j - 1]), abs(Y[j] - Y[j - 1]), abs(Z[j] - Z[j - 1])) / dt


# --------------------------------------------------------------------------
# temporal oracle
def _expected_temporal(src, case, delta_used):
    """List of candidate expected sequences; each element (r_ms Fraction, unc_ms)."""
    T = src[3]
    first, last = T[0], T[-1]
    ulp_ms = math.ulp(last / 1000.0) * 1000.0
    mode = case["mode"]
    if mode in ("T-list", "T-track"):
        unc = 4 * ulp_ms
        E = [(Fraction(r), unc) for r in case["arg"] if first < r <= last]
        cands = [E]
        dd = []
        for e in E:
            if not dd or dd[-1][0] != e[0]:
                dd.append(e)
        if len(dd) != len(E):
            cands.append(dd)
        return cands
    d_ms = Fraction(delta_used) * 1000
    must, opt = [], []
    k = 1
    # Is the grid first + k*delta exact in double precision (whole / dyadic seconds)?  Then an instant that falls
    # exactly on the last timestamp IS requested and is "not after the last" for every way of computing the grid in
    # floats (repeated addition or multiplication), so it is required, not optional.
    t_float = first / 1000.0
    d_float = float(delta_used)
    exact = Fraction(t_float) == Fraction(first, 1000) and Fraction(d_float) == Fraction(delta_used)
    while True:
        r = first + k * d_ms
        if exact:
            t_next = t_float + d_float
            exact = Fraction(t_next) == Fraction(t_float) + Fraction(d_float) and \
                Fraction(first / 1000.0 + k * d_float) == Fraction(t_next)
            t_float = t_next
        drift = (4 + k) * ulp_ms
        eps = max(1e-3, drift)
        if r < last - eps:
            must.append((r, drift))
        elif r == last and exact and Fraction(last / 1000.0) == Fraction(last, 1000):
            must.append((r, drift))
            M.CTX.count("numeric_step_lands_exactly_on_last")
        elif r <= last + eps:
            opt.append((r, drift))
        else:
            break
        k += 1
        if k > 100000:
            raise M.HarnessError("interval too small for the duration")
    cands = [must]
    if opt:
        cands.append(must + opt[:1])
    return cands


def _check_temporal(src, out, cands, ctx):
    """None or witness.  Also returns whether some output is strictly interior."""
    X, Y, Z, T = src
    oX, oY, oZ, oT = out
    ctx.monitor("temporal.count")
    fit = [c for c in cands if len(c) == len(oT)]
    if not fit:
        return {"what": "wrong number of observations for the requested instants in (first, last]",
                "returned": len(oT), "accepted_counts": sorted(set(len(c) for c in cands)),
                "returned_ms_rel_first": [t - T[0] for t in oT][:20],
                "expected_ms_rel_first": [float(r - T[0]) for r, _ in cands[0]][:20]}, False
    E = fit[0]
    n = len(T)
    interior = False
    for i, (r, unc_ms) in enumerate(E):
        ctx.monitor("temporal.stamp")
        if abs(oT[i] - r) > 1 + unc_ms + 1e-9:
            return {"what": "observation not stamped with the requested instant to the millisecond", "index": i,
                    "stamp_ms_rel_first": oT[i] - T[0], "requested_ms_rel_first": float(r - T[0])}, interior
        j = bisect.bisect_left(T, r)
        j = min(max(j, 1), n - 1)
        w = float((r - T[j - 1]) / (T[j] - T[j - 1]))
        w = min(max(w, 0.0), 1.0)
        if 1e-9 < w < 1 - 1e-9:
            interior = True
        unc_s = unc_ms / 1000.0
        v = 0.0
        for jj in (j - 1, j, j + 1):
            if 1 <= jj <= n - 1 and T[jj - 1] - unc_ms <= r <= T[jj] + unc_ms:
                v = max(v, _leg_speed(src, jj))
        ctx.monitor("temporal.interpolant")
        for name, S, o in (("x", X, oX), ("y", Y, oY), ("z", Z, oZ)):
            exp = S[j - 1] + w * (S[j] - S[j - 1])
            tol = 1e-6 + v * unc_s + 1e-12 * max(abs(S[j - 1]), abs(S[j]))
            if not (abs(o[i] - exp) <= tol):
                return {"what": "%s is not the linear interpolation between the bracketing fixes" % name, "index": i,
                        "requested_ms_rel_first": float(r - T[0]), "bracket": [j - 1, j], "weight_fwd": w,
                        "got": o[i], "expected": exp, "tolerance": tol}, interior
    return None, interior


# --------------------------------------------------------------------------
# spatial oracle
def _check_spatial(src, out, ds, ctx, cls):
    X, Y, Z, T = src
    oX, oY, oZ, oT = out
    n = len(T)
    S = [0.0]
    for i in range(1, n):
        S.append(S[-1] + math.hypot(X[i] - X[i - 1], Y[i] - Y[i - 1]))
    L = S[-1]
    interior = False
    ctx.monitor("spatial.first_fix")
    if len(oT) < 1:
        return {"what": "spatial resampling returned no observation (the first fix is missing)"}, interior
    if not (abs(oX[0] - X[0]) <= 1e-9 and abs(oY[0] - Y[0]) <= 1e-9 and abs(oZ[0] - Z[0]) <= 1e-9 and oT[0] == T[0]):
        return {"what": "first returned observation is not the first fix",
                "got": [oX[0], oY[0], oZ[0], oT[0] - T[0]], "expected": [X[0], Y[0], Z[0], 0]}, interior
    # admissible sample counts
    ctx.monitor("spatial.count")
    q = L / ds
    okN = [N for N in range(max(0, int(q) - 2), int(q) + 3)
           if N * ds <= L * (1 + 1e-12) and (N + 1) * ds > L * (1 - 1e-12)]
    N = len(oT) - 1
    if N not in okN:
        return {"what": "wrong number of samples along the polyline", "returned_samples": N, "accepted": okN,
                "length_2d": L, "ds": ds}, interior
    if N >= 1 and N * ds > L:
        cls.add("S-last-abscissa-rounds-above-L")
    eps_s = 1e-9 + 1e-12 * L
    exp_t = [float(T[0])]
    for k in range(1, N + 1):
        s = min(k * ds, L)
        ctx.monitor("spatial.interpolant")
        accepted = False
        best = None
        for j in range(1, n):
            if not (S[j - 1] - eps_s <= s <= S[j] + eps_s):
                continue
            ell = S[j] - S[j - 1]
            dz = Z[j] - Z[j - 1]
            dt = T[j] - T[j - 1]
            if ell > 10 * eps_s:
                w = min(max((s - S[j - 1]) / ell, 0.0), 1.0)
                ex = X[j - 1] + w * (X[j] - X[j - 1])
                ey = Y[j - 1] + w * (Y[j] - Y[j - 1])
                ez = Z[j - 1] + w * dz
                et = T[j - 1] + w * dt
                tz = 1e-6 + abs(dz) / ell * 2 * eps_s + 1e-12 * max(abs(Z[j - 1]), abs(Z[j]))
                tt = 1.002 + dt / ell * 2 * eps_s
                dxy = math.hypot(oX[k] - ex, oY[k] - ey)
                ok = dxy <= 1e-6 + 1e-12 * max(abs(ex), abs(ey)) and abs(oZ[k] - ez) <= tz and abs(oT[k] - et) <= tt
                rec = {"leg": [j - 1, j], "weight_fwd": w, "expected": [ex, ey, ez, et - T[0]],
                       "tolerance": [1e-6, tz, tt]}
                if ok and 1e-9 < w < 1 - 1e-9:
                    interior = True
            else:
                # coincident fixes: any point of the (vertical) leg is "at" this abscissa
                ex, ey = X[j - 1], Y[j - 1]
                dxy = math.hypot(oX[k] - ex, oY[k] - ey)
                lo = min(max((oT[k] - 1.002 - T[j - 1]) / dt, 0.0), 1.0)
                hi = min(max((oT[k] + 1.002 - T[j - 1]) / dt, 0.0), 1.0)
                inside_t = T[j - 1] - 1.002 <= oT[k] <= T[j] + 1.002
                zlo = min(Z[j - 1] + lo * dz, Z[j - 1] + hi * dz)
                zhi = max(Z[j - 1] + lo * dz, Z[j - 1] + hi * dz)
                ok = dxy <= 1e-6 + ell and inside_t and zlo - 1e-6 <= oZ[k] <= zhi + 1e-6
                et = min(max(float(oT[k]), T[j - 1]), T[j])
                rec = {"leg": [j - 1, j], "zero_length_leg": True, "expected_xy": [ex, ey],
                       "z_range": [zlo, zhi], "t_range": [T[j - 1] - T[0], T[j] - T[0]]}
            if ok:
                accepted = True
                exp_t.append(et)
                break
            best = best or rec
        if not accepted:
            return {"what": "sample is not the point of the 2-D polyline at abscissa k*ds with linearly interpolated "
                            "height and timestamp", "k": k, "abscissa": s, "ds": ds, "length_2d": L,
                    "got": [oX[k], oY[k], oZ[k], oT[k] - T[0]], "nearest_candidate": best}, interior
    ctx.monitor("spatial.timestamps_nondecreasing")
    for k in range(1, len(oT)):
        if oT[k] < oT[k - 1]:
            if exp_t[k] - exp_t[k - 1] < 0.01:
                ctx.count("knife_edge_monotone_skipped")
                continue
            return {"what": "timestamps decrease along the resampled track", "k": k,
                    "stamps_ms_rel_first": [oT[k - 1] - T[0], oT[k] - T[0]]}, interior
    return None, interior


# --------------------------------------------------------------------------
def _classes(case, src_pts, tms):
    cls = set()
    n = len(tms)
    if n == 2:
        cls.add("fixes-2")
    if n == 10:
        cls.add("fixes-10")
    steps = [b - a for a, b in zip(tms, tms[1:])]
    if 1 in steps:
        cls.add("step-1ms")
    if any(s >= 3600000 for s in steps):
        cls.add("step-hours")
    if gen.fields_from_ms(tms[0])[0] != gen.fields_from_ms(tms[-1])[0]:
        cls.add("year-straddle")
    if any(src_pts[i][0] == src_pts[i - 1][0] and src_pts[i][1] == src_pts[i - 1][1] for i in range(1, n)):
        cls.add("repeated-position")
    if n >= 2 and src_pts[-1][0] == src_pts[-2][0] and src_pts[-1][1] == src_pts[-2][1]:
        cls.add("repeated-position-at-end")
    return cls


def run_case(case, ctx):
    from tracklib.algo import interpolation as I
    from tracklib.core.track import Track
    pts, tms, mode, arg = case["pts"], case["tms"], case["mode"], case["arg"]
    if len(pts) < 2 or any(b <= a for a, b in zip(tms, tms[1:])):
        return ood("needs >= 2 fixes with strictly increasing timestamps")
    pre = case.get("pre")
    if pre == "abs_curv_then_edit":
        # features computed on an earlier geometry, then the fixes are moved to their final positions
        from tracklib.algo.cinematics import computeAbsCurv
        k = case.get("pre_scale", 2.0)
        track = gen.make_track([(p[0] * k + 1.0, p[1] * k - 2.0, p[2]) for p in pts], tms)
        r0 = M.call(computeAbsCurv, track)
        if M.is_raised(r0):
            raise M.HarnessError("computeAbsCurv failed while preparing the case: %s" % r0.brief())
        for i, p in enumerate(pts):
            track.getObs(i).position.setX(p[0])
            track.getObs(i).position.setY(p[1])
            track.getObs(i).position.setZ(p[2])
    else:
        track = gen.make_track([tuple(p) for p in pts], tms)
        if pre == "speed_and_abs_curv":
            from tracklib.algo.cinematics import computeAbsCurv
            M.call(computeAbsCurv, track)
            M.call(track.estimate_speed)
        elif pre == "plain_features":
            track.createAnalyticalFeature("a", [float(i) for i in range(len(pts))])
            track.createAnalyticalFeature("idx2", 7.0)
        elif pre == "retimed_in_place":
            # call history: the track was logged with a clock one hour slow; its duration / order were looked at, then
            # the caller corrected the timestamps IN PLACE (public fields) to the instants of the case
            track = gen.make_track([tuple(p) for p in pts], [t - 3600000 for t in tms]) if tms[0] >= 3600000 else track
            M.call(track.duration)
            M.call(track.isSorted)
            for i, o in enumerate(track.getObsList()):
                t_ = o.timestamp
                t_.year, t_.month, t_.day, t_.hour, t_.min, t_.sec, t_.ms = gen.fields_from_ms(tms[i])
    if (len(pts) + int(tms[-1] // 1000)) % 4 == 1:
        # the track to resample is itself a derived object (copy, full extract, concatenation of two parts ...)
        track, _how = gen.derive(track, (tms, mode))
    zone_ = [0, 0, 2, 0, -5, 0, 0, 1][(len(pts) * 3 + int(tms[0] // 1000)) % 8]
    if zone_:
        # the timestamps carry a time-zone LABEL (Track.setTimeZone): the instants requested and the instants
        # returned are the same calendar fields whatever the label
        track.setTimeZone(zone_)
    src = _read(track)
    if M.is_raised(src):
        raise M.HarnessError("cannot re-read the generated track: %s" % src.brief())
    if src[3] != list(tms):
        raise M.HarnessError("generated timestamps are not what the API returns")
    cls = _classes(case, pts, tms)
    if zone_:
        cls.add("timestamps_carrying_a_time_zone_label")
    if pre:
        cls.add("pre:" + pre)
    sig = (tuple(tms), tuple(tuple(p) for p in pts), mode, repr(arg), case.get("entry"), pre)
    D = tms[-1] - tms[0]

    # ---- build the call
    temporal = mode.startswith("T")
    tl_mode = I.MODE_TEMPORAL if temporal else I.MODE_SPATIAL
    if mode == "T-num":
        if not (isinstance(arg, (int, float)) and not isinstance(arg, bool) and arg > 0):
            return ood("interval must be a positive number")
        if D / (arg * 1000.0) > 2000 and not case.get("scale"):
            return ood("interval yields more than 2000 samples")
        call_arg = arg
        q_ms = arg * 1000.0
        if abs(q_ms - round(q_ms)) < 1e-6 and round(q_ms) >= 1 and D % int(round(q_ms)) == 0:
            cls.add("T-num-divides")
        elif arg * 1000.0 > D:
            cls.add("T-num-exceeds")
        else:
            cls.add("T-num-nondivides")
        if isinstance(arg, int):
            cls.add("T-num-int")
    elif mode in ("T-list", "T-track"):
        req = list(arg)
        if any(b < a for a, b in zip(req, req[1:])):
            return ood("requested instants must be sorted")
        if mode == "T-list":
            call_arg = [gen.obstime_from_ms(r) for r in req]
            cls.add("T-list")
            if len(set(req)) != len(req):
                cls.add("T-list-duplicates")
            if any(r in tms for r in req):
                cls.add("T-list-at-fix")
            if any(r < tms[0] for r in req):
                cls.add("T-list-before")
            if any(r == tms[0] for r in req):
                cls.add("T-list-at-first")
            if any(r == tms[-1] for r in req):
                cls.add("T-list-at-last")
            if any(r > tms[-1] for r in req):
                cls.add("T-list-after")
        else:
            call_arg = gen.make_track([(float(i), -float(i), 0.0) for i in range(len(req))], req)
            cls.add("T-track")
    elif mode == "S":
        if not (isinstance(arg, (int, float)) and arg > 0):
            return ood("step must be a positive number")
        call_arg = arg
        cls.add("S-" + case.get("sub", "random"))
    elif mode in ("S-npts", "T-npts"):
        cls.add("npts")
    elif mode in ("S-factor", "T-factor"):
        cls.add("factor")
    else:
        raise M.HarnessError("unknown mode %r" % mode)

    if case.get("arg_type") and mode in ("T-num", "S"):
        import numpy as np
        call_arg = np.int64(arg) if case["arg_type"] == "numpy.int64" else np.float64(arg)
        cls.add("step_given_as_numpy_scalar")
    if case.get("scale"):
        cls.add("scale_hundreds_of_fixes_and_instants")
    # ---- alternative front end and error path: sample(track, instant) is temporal linear resampling on one instant.
    # An instant inside the range is judged; instants outside the range are requests that cannot be honoured
    # (whatever they do is not judged) -- the resampling below runs on the same track object afterwards.
    hkey = (tms[0] // 7 + len(pts) * 13 + int(tms[-1] % 1000)) % 4
    if temporal and hkey == 0:
        t_in = (tms[0] + tms[-1]) // 2 if (tms[0] + tms[-1]) // 2 > tms[0] else tms[-1]
        o = M.call(I.sample, track, gen.obstime_from_ms(t_in))
        ctx.monitor("sample.single_instant")
        if M.is_raised(o):
            return violated({"what": "sample(track, instant) raised for an instant inside the time range",
                             "instant_ms": t_in, "raised": o}, sig, True, sorted(cls))
        one = M.call(lambda: ([o.position.getX()], [o.position.getY()], [o.position.getZ()],
                              [gen.obstime_to_ms(o.timestamp)]))
        if M.is_raised(one):
            return violated({"what": "sample() did not return an observation", "raised": one}, sig, True, sorted(cls))
        w0, _ = _check_temporal(src, one, [[(Fraction(t_in), 4 * math.ulp(tms[-1] / 1000.0) * 1000.0)]], ctx)
        if w0:
            w0["entry"] = "sample(track, instant)"
            return violated(w0, sig, True, sorted(cls))
        M.call(I.sample, track, gen.obstime_from_ms(tms[-1] + 5000))
        if tms[0] >= 5000:
            M.call(I.sample, track, gen.obstime_from_ms(tms[0] - 5000))
        cls.add("sample_front_end_and_rejected_instants")
    del _seen_delta[:]
    work = track
    if mode == "T-track" and hkey == 1:
        # operator front end: track // reference returns the resampled track
        res = M.call(lambda: track // call_arg)
        cls.add("floordiv_operator")
        if not M.is_raised(res):
            work = res
    elif mode.endswith("npts"):
        res = M.call(work.resample, None, I.ALGO_LINEAR, tl_mode, arg)
    elif mode.endswith("factor"):
        res = M.call(work.resample, None, I.ALGO_LINEAR, tl_mode, None, arg)
    elif case.get("entry") == "func":
        res = M.call(I.resample, work, call_arg, I.ALGO_LINEAR, tl_mode)
    else:
        res = M.call(work.resample, call_arg, I.ALGO_LINEAR, tl_mode)

    def fail(w):
        w = dict(w)
        w.update({"mode": mode, "arg": arg, "entry": case.get("entry"), "delta_seen": list(_seen_delta)[:2]})
        return violated(w, sig, True, sorted(cls))

    # ---- the step actually used (observed, not recomputed)
    delta_used = None
    if mode in ("T-num", "S") or mode.endswith("npts") or mode.endswith("factor"):
        import numbers
        nums = [d for d in _seen_delta if isinstance(d, numbers.Real) and not isinstance(d, bool)]
        if nums:
            delta_used = nums[-1]
            if type(delta_used).__module__ == "numpy":
                delta_used = delta_used.item()
        if mode in ("T-num", "S") and delta_used is not None and delta_used != arg:
            raise M.HarnessError("recorded step %r differs from the one passed %r" % (delta_used, arg))
        if delta_used is not None and not (delta_used > 0) :
            return ood("front end derived a non-positive step (zero 3-D length)")
        if (mode.endswith("npts") or mode.endswith("factor")) and delta_used is not None:
            span = D / 1000.0 if temporal else _len2d(pts)
            if span / delta_used > 2000:
                return ood("derived step yields more than 2000 samples")
    if M.is_raised(res):
        if delta_used is None and (mode.endswith("npts") or mode.endswith("factor")):
            # the front end failed before deriving a step
            z3 = all(p == pts[0] for p in pts)
            if not temporal and z3:
                return ood("zero-length track: the front end divides by the length")
        return fail({"what": "resample raised on an in-domain request", "raised": res})
    out = _read(work)
    if M.is_raised(out):
        return fail({"what": "resampled track cannot be read back (malformed timestamp?)", "raised": out})

    if temporal:
        cands = _expected_temporal(src, case, delta_used)
        w, interior = _check_temporal(src, out, cands, ctx)
    else:
        if delta_used is None:
            raise M.HarnessError("no spatial step observed")
        w, interior = _check_spatial(src, out, delta_used, ctx, cls)
    if w:
        return fail(w)
    if mode in ("T-list", "T-track") and len(req) >= 1:
        # call history: the SAME reference object (track or list of instants) is used for a second track whose time
        # range reaches beyond the first one's on both sides; it must get every requested instant of ITS range
        first2 = min(req[0], tms[0]) - 5000
        last2 = max(req[-1], tms[-1]) + 5000
        if first2 >= 0:
            k2 = (last2 - first2) / float(D)
            tms2 = [first2 + int(math.floor((t - tms[0]) * k2 + 0.5)) for t in tms]
            tms2[-1] = last2
            if all(b > a for a, b in zip(tms2, tms2[1:])):
                track2 = gen.make_track([tuple(p) for p in pts], tms2)
                src2 = _read(track2)
                if not M.is_raised(src2) and src2[3] == tms2:
                    if case.get("entry") == "func":
                        res2 = M.call(I.resample, track2, call_arg, I.ALGO_LINEAR, tl_mode)
                    else:
                        res2 = M.call(track2.resample, call_arg, I.ALGO_LINEAR, tl_mode)
                    ctx.monitor("temporal.same_reference_second_track")
                    cls.add("history_same_reference_object")
                    if M.is_raised(res2):
                        return fail({"what": "second resampling with the same reference object raised", "raised": res2,
                                     "second_track_ms": tms2})
                    out2 = _read(track2)
                    if M.is_raised(out2):
                        return fail({"what": "second resampled track cannot be read back", "raised": out2})
                    w2, _ = _check_temporal(src2, out2, _expected_temporal(src2, case, None), ctx)
                    if w2:
                        w2["history"] = ("second track resampled with the SAME reference object as the first; its time "
                                         "range contains the first one's")
                        w2["second_track_ms"] = tms2
                        return fail(w2)
    if mode == "T-track" and len(req) >= 3 and not case.get("scale"):
        # two reference tracks used in turn: a second reference with the same number of instants and the same first
        # and last instant, other instants in between, applied to a fresh copy of the same track
        req2 = [req[0]] + [min(req[-1], max(req[0], (a + b) // 2 + 1)) for a, b in zip(req[1:-1], req[2:])] + [req[-1]]
        req2 = sorted(req2)
        if req2 != list(req):
            ref2 = gen.make_track([(float(i), -float(i), 0.0) for i in range(len(req2))], req2)
            track3 = gen.make_track([tuple(p) for p in pts], tms)
            src3 = _read(track3)
            res3 = M.call(track3.resample, ref2, I.ALGO_LINEAR, tl_mode)
            ctx.monitor("temporal.second_reference_with_the_same_ends")
            if M.is_raised(res3):
                return fail({"what": "resampling on a second reference track (same size and end instants as the first) raised",
                             "raised": res3})
            out3 = _read(track3)
            case3 = dict(case, arg=req2)
            w3, _ = _check_temporal(src3, out3, _expected_temporal(src3, case3, None), ctx)
            if w3:
                w3["history"] = ("a second reference track with the same number of instants and the same first and last "
                                 "instant as the first one, other instants in between")
                w3["second_reference_ms_rel_first"] = [t - tms[0] for t in req2][:20]
                return fail(w3)
    if mode in ("T-list", "T-track"):
        # aliasing: the list of instants / the reference track belongs to the caller, who goes on using it (shifts
        # its instants for the next request, moves the reference track); the track resampled earlier must not follow
        before_ = _read(work)
        M.scribble(call_arg)
        after_ = _read(work)
        ctx.monitor("temporal.result_independent_of_the_callers_instants")
        if M.is_raised(before_) or M.is_raised(after_) or before_ != after_:
            return fail({"what": "the resampled track changed when the caller modified, afterwards and in place, the "
                                 "instants (list of timestamps / reference track) it had passed",
                         "stamps_before": None if M.is_raised(before_) else [t - tms[0] for t in before_[3]][:12],
                         "stamps_after": None if M.is_raised(after_) else [t - tms[0] for t in after_[3]][:12]})
    return held(sig, len(tms) >= 3 and interior, sorted(cls))


def classify(case, witness):
    # No open finding.  The one defect this check found (ZeroDivisionError when the track ends with a repeated
    # position and k*ds rounds above the last abscissa) was fixed in /repo (1e62230); fixed entries suppress nothing.
    return None


# floors for the call-history workloads added in session 3 (a run in which they were silently skipped is inconclusive)
_floors_base = floors
_FLOORS_EXTRA = {'counters': {'numeric_step_lands_exactly_on_last': 50},
                 'monitors': {'temporal.same_reference_second_track': 1000, 'sample.single_instant': 1000,
                              'temporal.result_independent_of_the_callers_instants': 5000,
                              'temporal.second_reference_with_the_same_ends': 1000},
                 'classes': {'timestamps_carrying_a_time_zone_label': 3000, 'floordiv_operator': 300, 'step_given_as_numpy_scalar': 500,
                             'scale_hundreds_of_fixes_and_instants': 30}}


def floors(tier):
    f = _floors_base(tier)
    for kind, d in _FLOORS_EXTRA.items():
        f.setdefault(kind, {}).update(d)
    return f
