"""C01 -- the feature table stays aligned with the observations under any
operation history (DESIGN.md section 4, C01).

History + executable model: every operation is applied to the real Track and
to an ordered-dict model; after *each* operation everything the API lets a
user read is compared.  Written values are unique per write (a global counter
feeds every initialiser) so a read identifies the write it observed.
"""
from __future__ import annotations

import itertools
import math

from vt import gen, monitor as M
from vt.gen import held, violated, ood

PROP = "C01"
RULE = ("histories of feature-mutating API calls over the name alphabet {a,b,c} on tracks of size 1..4: every history up to "
        "depth 3 (quick) / 4 (thorough) over a reduced set of concrete operations is enumerated, longer ones (depth 4..25) are "
        "sampled from the full operation set (create list/scalar, remove, '#DELETE', update, bracket assignment of "
        "list/scalar/function, per-observation assignment, unary/binary/scalar operator objects incl. in-place outputs, "
        "expressions with and without '=', reflexive '+=', coordinate assignment, documented rejections on missing names). "
        "Distinct = the sequence of (operation, names) actually applied; non-trivial = the history deletes a column that is not "
        "the last one and later reads/writes a surviving name, or deletes and re-creates the same name.")
ASSUMPTIONS = ["operator objects and expressions are only applied to existing input names (with a missing input tracklib "
               "creates the output column before raising; the property does not settle whether that is a write)",
               "the order in which getListAnalyticalFeatures lists names is not part of the property (compared as a set)"]
EXHAUSTIVE = {"quick": "all histories of depth <= 3 over the 40 reduced operations (64 000 of depth 3)",
              "thorough": "all histories of depth <= 4 over the 40 reduced operations (2 560 000 of depth 4)"}
CASE_LIMIT_S = 30.0

NAMES = ["a", "b", "c"]

# reduced concrete operation set for exhaustive enumeration ------------------
REDUCED = (
    [("create_list", n) for n in NAMES] + [("create_scalar", "a")] +
    [("remove", n) for n in NAMES] + [("delete_item", "b")] +
    [("update_list", "a"), ("update_list", "b"), ("update_scalar", "c")] +
    [("set_list", "a"), ("set_list", "c"), ("set_scalar", "b"), ("set_fn", "c")] +
    [("set_obs", "a"), ("set_obs", "b")] +
    [("unary", "INVERTER", "a", "b"), ("unary", "INVERTER", "b", "b"), ("unary", "SQUARE", "c", "a")] +
    [("binary", "ADDER", "a", "b", "c"), ("binary", "ADDER", "b", "c", "a"), ("binary", "MULTIPLIER", "a", "a", "a")] +
    [("scalar", "SCALAR_ADDER", "a", "c"), ("scalar", "SCALAR_MULTIPLIER", "c", "b")] +
    [("expr", "c=a+b"), ("expr", "a=b*2"), ("expr", "b=-a"), ("expr", "a=a+c")] +
    [("eval", "a+b"), ("eval", "c*2"), ("eval", "ABS{a}")] +
    [("add_af", "b")] + [("read", "a"), ("read", "c")] +
    [("expr", "a+=b")] + [("update_list", "c")] + [("create_scalar", "c")] +
    # literal-only sub-expressions are reduced without creating a temporary (gaps in the temporaries' numbering)
    [("expr", "c=a+2*3"), ("eval", "b*(4-1)")]
)
assert len(REDUCED) == 40, len(REDUCED)

UNARY = {"INVERTER": lambda v: [-x for x in v],
         "SQUARE": lambda v: [x * x for x in v],
         "RECTIFIER": lambda v: [abs(x) for x in v],
         "DIFFERENTIATOR": lambda v: [float("nan")] + [v[i] - v[i - 1] for i in range(1, len(v))],
         "INTEGRATOR": lambda v: list(itertools.accumulate([0] + list(v[1:]))),
         "IDENTITY": lambda v: list(v)}
BINARY = {"ADDER": lambda x, y: x + y, "SUBSTRACTER": lambda x, y: x - y, "MULTIPLIER": lambda x, y: x * y}
SCALAR = {"SCALAR_ADDER": lambda x, k: x + k, "SCALAR_MULTIPLIER": lambda x, k: x * k,
          "SCALAR_SUBSTRACTER": lambda x, k: x - k, "SCALAR_REV_SUBSTRACTER": lambda x, k: k - x}


def chunks(tier, seed):
    out = []
    depth = 3 if tier == "quick" else 4
    nsh = 16 if tier == "quick" else 64
    for k in range(nsh):
        out.append({"kind": "exh", "depth": depth, "shard": k, "of": nsh, "key": "exh%d" % k})
    nrand = 20000 if tier == "quick" else 300000
    maxd = 10 if tier == "quick" else 25
    for k in range(16):
        out.append({"kind": "rand", "n": nrand // 16, "maxdepth": maxd, "key": "rand%d" % k})
    out.append({"kind": "shared_obs", "key": "shared_obs"})
    # larger scale: hundreds / thousands of observations, dozens of features, expressions of more than 100 operations
    for k in range(4 if tier == "quick" else 8):
        out.append({"kind": "scale", "key": "scale%d" % k, "part": k, "of": 4 if tier == "quick" else 8})
    return out


def floors(tier):
    return {"monitors": {"model.state_compare": 50000, "guard.table_aligned": 50000, "conservation.xyzt": 50000},
            "classes": {"delete_non_last_then_use": 1000, "delete_then_recreate": 1000, "rejection": 1000,
                        "expr_with_temporaries": 1000, "inplace_operator": 500},
            "distinct_nontrivial": 1000}


# --------------------------------------------------------------------------
_guard = None


def _guard_pre(tr, mname, a, k):
    """Token: for operate(<expression string>) the '#'-names listed before the
    call (a user may legitimately own features named '#...'; only names that
    the evaluation itself leaves behind are temporaries)."""
    if mname == "operate" and a and isinstance(a[0], str):
        try:
            return {"expr": True, "hash_before": {n for n in tr.getListAnalyticalFeatures() if str(n).startswith("#")}}
        except Exception:
            return {"expr": True, "hash_before": set()}
    return None


def _guard_post(tr, tok, mname, raised):
    try:
        names = tr.getListAnalyticalFeatures()
        n = len(names)
        for o in tr.getObsList():
            if len(o.features) != n:
                return "observation carries %d values for %d listed features" % (len(o.features), n)
        if tok and tok.get("expr") and raised is None:
            left = [k for k in names if str(k).startswith("#") and k not in tok["hash_before"]]
            if left:
                return "evaluator temporary still listed: %r" % (names,)
    except Exception as e:  # pragma: no cover
        return "guard could not read the table: %r" % (e,)
    return None


def setup(ctx):
    global _guard
    if _guard is not None:
        return
    from tracklib.core.track import Track
    _guard = M.OutermostGuard(Track, ["createAnalyticalFeature", "removeAnalyticalFeature", "updateAnalyticalFeature",
                                      "operate", "addAnalyticalFeature", "__setitem__", "setObsAnalyticalFeature"],
                              _guard_pre, _guard_post, "guard.table_aligned")


# --------------------------------------------------------------------------
def cases(chunk):
    rng = gen.rng_for(PROP, chunk)
    if chunk["kind"] == "shared_obs":
        # tracks related by extraction share their observation OBJECTS: a feature is given to the extract, then one to
        # the track it was taken from (and the other way round)
        for n in (2, 3, 4, 5):
            for k in range(n):
                for first in ("extract", "parent"):
                    for how in ("create_list", "set_list", "expr"):
                        yield {"kind": "shared_obs", "size": n, "upto": k, "first": first, "how": how}
        return
    if chunk["kind"] == "scale":
        grid = [(n, F, style) for n in ((4, 60, 400) if chunk["tier"] == "quick" else (4, 60, 400, 1500, 4000))
                for F in ((8, 45, 75, 130) if chunk["tier"] == "quick" else (8, 45, 75, 101, 130, 260))
                for style in (0, 1, 2)]
        for i, (n, F, style) in enumerate(grid):
            if i % chunk["of"] == chunk["part"] and n * F <= 300000:
                yield {"kind": "scale", "size": n, "nfeat": F, "style": style, "limit_x": 4}
        return
    if chunk["kind"] == "exh":
        idx = 0
        for d in range(1, chunk["depth"] + 1):
            for hist in itertools.product(range(len(REDUCED)), repeat=d):
                idx += 1
                if idx % chunk["of"] != chunk["shard"]:
                    continue
                c = {"size": 1 + (idx % 3) + (1 if idx % 7 == 0 else 0), "hist": [list(REDUCED[i]) for i in hist]}
                if idx % 4 == 1:
                    c["names"] = 1 + (idx // 4) % (len(NAME_TRIPLES) - 1)
                yield c
    else:
        for _ in range(chunk["n"]):
            d = rng.randrange(4, chunk["maxdepth"] + 1)
            c = {"size": rng.choice([1, 2, 2, 3, 3, 4]), "rand": rng.randrange(10 ** 12), "depth": d}
            if _ % 3 == 1:
                c["names"] = rng.randrange(1, len(NAME_TRIPLES))
            if _ % 400 == 7:
                # many calls on one track in one process
                c["depth"] = 400
            yield c


# every void operator of tracklib.core.operators.Operator that takes feature names (and at most a number): driven
# without a model of what each one computes -- see Runner.apply("anyop")
ANY_UNARY = ["IDENTITY", "RECTIFIER", "INTEGRATOR", "SHIFT_RIGHT", "SHIFT_LEFT", "SHIFT_CIRCULAR_RIGHT",
             "SHIFT_CIRCULAR_LEFT", "INVERTER", "INVERSER", "REVERSER", "DEBIASER", "SQUARE", "SQRT", "NORMALIZER",
             "DIFFERENTIATOR", "BACKWARD_FINITE_DIFF", "FORWARD_FINITE_DIFF", "CENTERED_FINITE_DIFF",
             "SECOND_ORDER_FINITE_DIFF", "DIODE", "SIGN", "LOG", "COS", "SIN", "TAN"]
ANY_BINARY = ["ADDER", "SUBSTRACTER", "MULTIPLIER", "DIVIDER", "MODULO", "ABOVE", "BELOW", "QUAD_ADDER",
              "POINTWISE_EQUALER", "DERIVATOR", "RENORMALIZER"]
ANY_SHIFT = ["SHIFT", "SHIFT_CIRCULAR", "SHIFT_REV", "SHIFT_CIRCULAR_REV"]
ANY_SCALAR = ["SCALAR_ADDER", "SCALAR_SUBSTRACTER", "SCALAR_MULTIPLIER", "SCALAR_DIVIDER", "SCALAR_MODULO",
              "SCALAR_ABOVE", "SCALAR_BELOW", "SCALAR_REV_ABOVE", "SCALAR_REV_BELOW", "SCALAR_REV_SUBSTRACTER",
              "SCALAR_REV_DIVIDER", "SCALAR_REV_MODULO", "THRESHOLDER"]


def random_op(rng, model):
    """One operation drawn from the full set; operator/expression operands are
    existing names only."""
    have = list(model.keys())
    kinds = ["create_list", "create_scalar", "remove", "delete_item", "update_list", "update_scalar", "set_list",
             "set_scalar", "set_fn", "set_obs", "add_af", "read"]
    kinds += ["virt"]
    if have:
        kinds += ["unary", "binary", "scalar", "expr", "eval", "expr", "eval", "unary", "binary", "coord",
                  "anyop", "anyop", "anyop", "expr_unknown", "sibling", "swap_with_sibling"]
    k = rng.choice(kinds)
    name = rng.choice(NAMES)
    if k == "virt":
        # an expression whose operands are the virtual features only (coordinates): it can be the very first operation
        # on a track whose feature table is still empty -- the evaluator's temporaries then land in the first columns
        t = rng.choice(["{o}=x+y", "{o}=x*2-z", "{o}=(x+1)*(y-1)", "x+y*2", "(x-y)*(z+1)", "{o}=x+2*3", "x=x+1",
                        "{o}=ABS{{x}}+y"])
        return ("expr" if "=" in t else "eval", t.format(o=name))
    if k in ("create_list", "create_scalar", "remove", "delete_item", "update_list", "update_scalar", "set_list",
             "set_scalar", "set_fn", "set_obs", "add_af", "read"):
        return (k, name)
    i1, i2, o = rng.choice(have), rng.choice(have), rng.choice(NAMES)
    if k in ("sibling", "swap_with_sibling"):
        return (k,)
    if k == "expr_unknown":
        # an expression that names a feature the track does not have (a misspelt name): it cannot be evaluated; the
        # sub-expressions before the unknown name have already produced temporaries when the evaluation stops
        t = rng.choice(["({a}+{b})*q", "{a}*2+zz", "{o}=({a}*2)+qq", "ABS{{{a}}}-{b}*nope", "{o}={a}-({b}+2)*w9",
                        "AVG{{{a}}}+{b}*q", "{o}=D{{{a}}}+q*{b}"])
        return ("expr_unknown", t.format(a=i1, b=i2, o=o), o if "=" in t else None)
    if k == "anyop":
        fam = rng.choice(["u", "u", "b", "shift", "shift", "s"])
        if fam == "u":
            return ("anyop", rng.choice(ANY_UNARY), i1, None, o)
        if fam == "b":
            return ("anyop", rng.choice(ANY_BINARY), i1, i2, o)
        if fam == "shift":
            # amounts include 0, +-1, the number of observations and its multiples (whole turns)
            return ("anyop", rng.choice(ANY_SHIFT), i1, ["turns", rng.choice([0, 1, -1, 2, "n", "-n", "2n", "n+1"])], o)
        return ("anyop", rng.choice(ANY_SCALAR), i1, ["num", rng.choice([2.0, 0.5, -3.0, 1000.0])], o)
    if k == "unary":
        return ("unary", rng.choice(list(UNARY)), i1, o)
    if k == "binary":
        return ("binary", rng.choice(list(BINARY)), i1, i2, o)
    if k == "scalar":
        return ("scalar", rng.choice(list(SCALAR)), i1, o)
    if k == "coord":
        return ("expr", "%s=%s" % (rng.choice("xyz"), i1))
    kk = rng.choice([2, 3, 0.5])
    if k == "expr":
        t = rng.choice(["{o}={a}+{b}", "{o}={a}*{k}", "{o}=-{a}", "{o}+={a}", "{o}=ABS{{{a}}}", "{o}=D{{{a}}}",
                        "{o}=({a}+{b})*{k}", "{o}={a}-{b}*{k}", "{o}={a}", "{o}={k}", "{o}=I{{{a}}}+{b}",
                        "{o}=({a}-{b})*({b}+{k})", "{o}={a}+2*3", "{o}={a}*(1/2)+{b}", "{o}={b}-(4-1)*{k}",
                        "{o}=(1+1)*(2+1)", "{o}=ABS{{{a}}}*(2*2)+D{{{b}}}", "{o}=0", "{o}=2-2", "{o}={a}*0"])
        if "+=" in t and o not in model:
            t = "{o}={a}+{b}"
        return ("expr", t.format(o=o, a=i1, b=i2, k=kk))
    t = rng.choice(["{a}+{b}", "{a}*{k}", "ABS{{{a}}}", "({a}+{b})*{k}-{a}", "-{a}", "AVG{{{a}}}+{b}", "D{{{a}}}",
                    "{a}-({b}-{a})*{k}", "{a}+2*3", "1/2*{a}", "{a}*(4-1)-{b}*(2*{k})", "(1+2)*(3-1)"])
    return ("eval", t.format(a=i1, b=i2, k=kk))


# --------------------------------------------------------------------------
class Undefined(Exception):
    pass


# tiny independent evaluator for the expression templates used here
def ev(expr, env, n):
    """Evaluate a *Python-compatible* rendering of the expression over lists."""
    import re

    class V(list):
        pass

    def lift(v):
        return v if isinstance(v, list) else [v] * n

    def bin_(f):
        return lambda a, b: [f(x, y) for x, y in zip(lift(a), lift(b))]

    class Vec:
        def __init__(self, v):
            self.v = lift(v)

        def __add__(self, o): return Vec(bin_(lambda x, y: x + y)(self.v, o.v if isinstance(o, Vec) else o))
        def __radd__(self, o): return Vec(bin_(lambda x, y: y + x)(self.v, o))
        def __sub__(self, o): return Vec(bin_(lambda x, y: x - y)(self.v, o.v if isinstance(o, Vec) else o))
        def __rsub__(self, o): return Vec(bin_(lambda x, y: y - x)(self.v, o))
        def __mul__(self, o): return Vec(bin_(lambda x, y: x * y)(self.v, o.v if isinstance(o, Vec) else o))
        def __rmul__(self, o): return Vec(bin_(lambda x, y: y * x)(self.v, o))
        def __neg__(self): return Vec([-x for x in self.v])

    def ABS(v): return Vec([abs(x) for x in v.v])
    def D(v): return Vec(UNARY["DIFFERENTIATOR"](v.v))
    def I(v): return Vec(UNARY["INTEGRATOR"](v.v))

    def AVG(v):
        vals = [x for x in v.v if x == x]
        if not vals:
            raise Undefined("average of no valid value")
        return Vec([sum(vals) / len(vals)] * n)
    py = re.sub(r"([A-Z]+\d?)\{", r"\1(", expr).replace("}", ")")
    scope = {k: Vec(v) for k, v in env.items()}
    scope.update(ABS=ABS, D=D, I=I, AVG=AVG)
    r = eval(py, {"__builtins__": {}}, scope)
    return r.v if isinstance(r, Vec) else lift(r)


def _veq(got, exp):
    """Equality of a value read back with the value written.  Python's == is exact between int and float, so an
    integer beyond 2**53 that came back as a float is NOT equal; rounding tolerance is only granted between floats
    (and between numbers of safe magnitude)."""
    try:
        if got == exp:
            return True
    except Exception:
        return False
    if isinstance(got, (int, float)) and isinstance(exp, (int, float)):
        if got != got and exp != exp:
            return True
        big_int = any(isinstance(v, int) and not isinstance(v, bool) and abs(v) >= 2 ** 53 for v in (got, exp))
        if big_int:
            return False
        return M.feq(got, exp)
    return False


def _seq_veq(A, B):
    return len(A) == len(B) and all(_veq(x, y) for x, y in zip(A, B))



# less usual but legal feature names (the documentation of operate() itself uses "P=X+Y"): upper-case spellings of the
# virtual names, names with digits / underscores / upper case, one-character names, names that are prefixes or
# suffixes of one another, of a virtual name ("idx", "timestamp", "uid") or of a GPX tag.  The history is generated and
# modelled over the logical names a, b, c; a NameProxy renders them at the library boundary.
NAME_TRIPLES = [("a", "b", "c"), ("X", "Y", "Z"), ("T", "Idx", "P"), ("a1", "A", "a_b"), ("ab", "abc", "b"),
                ("speed", "s", "sp"), ("id", "u", "d"), ("ele", "time", "elevation"), ("Timestamp", "ti", "IDX"),
                ("v2", "V", "vv"), ("xy", "yz", "zt"), ("xyz", "ti", "idx2")]


# --------------------------------------------------------------------------
class Runner:
    def __init__(self, size, ctx, names=0):
        from tracklib.core.operators import Operator
        self.Operator = Operator
        self.ctx = ctx
        self.n = size
        self.tr = gen.make_track([(10.0 * i + 1, -3.0 * i - 2, 0.5 * i + 7) for i in range(size)],
                                 t0_ms=gen.ms_from_fields(1970, 1, 2, 3, 4, 5), step_ms=1500)
        self.flags = set()
        if names:
            self.tr = gen.NameProxy(self.tr, dict(zip("abc", NAME_TRIPLES[names % len(NAME_TRIPLES)])))
            self.flags.add("less_usual_feature_names")
            self.flags.add("names:" + "/".join(NAME_TRIPLES[names % len(NAME_TRIPLES)]))
        self.model = {}
        self.coords = {"x": list(self.tr.getX()), "y": list(self.tr.getY()), "z": list(self.tr.getZ())}
        self.T = [gen.obstime_fields(t) for t in self.tr.getTimestamps()]
        self.counter = 0
        self.applied = []
        self.deleted_nonlast = set()   # names that survived a non-last deletion
        self.deleted_names = set()
        self.siblings = []             # [track, model, exact] of tracks derived from this one (separate lives)
        self.big = set()               # names holding integers beyond 2**53: only copied, never fed to float arithmetic
        self.exact = set()             # names whose model values are verbatim what was written (not recomputed by the model)
        # a second, unrelated track with the SAME feature names in the opposite column order, of another size; it is
        # only read, or written with the value already there, between the operations of the history: whatever is
        # remembered per name (column numbers, values) must be remembered per track
        self.decoy = gen.make_track([(5.0 * i, 2.0 * i, 1.0) for i in range(size + 1)],
                                    t0_ms=gen.ms_from_fields(1970, 1, 3, 0, 0, 0), step_ms=1000)
        self.decoy_model = {}
        for j, name in enumerate(["c", "b", "a"]):
            vals = [-(100.0 * (j + 1) + i) for i in range(size + 1)]
            self.decoy.createAnalyticalFeature(name, list(vals))
            self.decoy_model[name] = vals
        self.nsteps = 0

    def touch_decoy(self):
        """None or a problem dict."""
        d, dm = self.decoy, self.decoy_model
        self.nsteps += 1
        name = ["a", "b", "c"][self.nsteps % 3]
        kind = (self.nsteps // 3) % 4
        i = self.nsteps % (self.n + 1)
        if kind == 0:
            r = M.call(lambda: d[name, i])
            ok = not M.is_raised(r) and M.feq(r, dm[name][i])
        elif kind == 1:
            def w():
                d[name, i] = dm[name][i]
            r = M.call(w)
            ok = not M.is_raised(r)
        elif kind == 2:
            r = M.call(lambda: d[name])
            ok = not M.is_raised(r) and M.seq_eq(list(r), dm[name])
        else:
            r = M.call(d.operate, "a+b*2")
            ok = not M.is_raised(r) and M.seq_eq(list(r), [x + y * 2 for x, y in zip(dm["a"], dm["b"])])
        self.ctx.monitor("decoy.unchanged")
        if ok:
            listed = M.call(d.getListAnalyticalFeatures)
            ok = (not M.is_raised(listed)) and list(listed) == ["c", "b", "a"] and \
                all(M.seq_eq(list(d.getAnalyticalFeature(k)), dm[k]) for k in dm) and \
                all(len(o.features) == 3 for o in d.getObsList())
        if not ok:
            return {"what": "a second, unrelated track (same feature names, other column order) reads wrongly or was "
                            "modified between the operations of the history", "access": [kind, name, i], "got": r}
        return None

    def fresh(self, scalar=False):
        self.counter += 1
        if self.counter % 9 == 4:
            # integer-valued features of realistic magnitude (nanosecond clocks, 64-bit cell identifiers): beyond
            # 2**53 they are exact as Python integers only
            self.flags.add("integers_beyond_2^53")
            self._last_fresh_big = True
            base = 1_700_000_000_000_000_000 + 1000 * self.counter
            return base + 1 if scalar else [base + 2 * i + 1 for i in range(self.n)]
        self._last_fresh_big = False
        if self.counter % 7 == 3:
            # special values that are regular values: 0, 0.0 (scalars), lists holding zeros
            self.flags.add("zero_valued_write")
            return (0 if self.counter % 2 else 0.0) if scalar else [0.0 if i % 2 == 0 else float(self.counter) for i in range(self.n)]
        base = 1000.0 * self.counter
        return base if scalar else [base + i + 1 for i in range(self.n)]

    def env(self):
        e = dict(self.model)
        e.update({"x": self.coords["x"], "y": self.coords["y"], "z": self.coords["z"]})
        return e

    # ---- the model's view of one operation; returns ("ok"|"reject"|"skip", thunk)
    def apply(self, op):
        tr, model, n = self.tr, self.model, self.n
        Operator = self.Operator
        k = op[0]
        expect_return = None
        if self.big:
            import re as _re
            COPY_LIKE = ("IDENTITY", "REVERSER", "SHIFT", "SHIFT_REV", "SHIFT_CIRCULAR", "SHIFT_CIRCULAR_REV",
                         "SHIFT_RIGHT", "SHIFT_LEFT", "SHIFT_CIRCULAR_RIGHT", "SHIFT_CIRCULAR_LEFT")
            if k in ("unary", "binary", "scalar") and any(x in self.big for x in op[2:-1] if isinstance(x, str)):
                self.ctx.count("arithmetic_on_integers_beyond_2^53_not_generated")
                return "skip", None, None
            if k in ("expr", "eval", "expr_unknown") and set(_re.findall(r"\b([abc])\b", op[1])) & self.big:
                self.ctx.count("arithmetic_on_integers_beyond_2^53_not_generated")
                return "skip", None, None
            if k == "anyop" and (op[2] in self.big or (isinstance(op[3], str) and op[3] in self.big)) \
                    and op[1] not in COPY_LIKE:
                self.ctx.count("arithmetic_on_integers_beyond_2^53_not_generated")
                return "skip", None, None
        if k in ("create_list", "create_scalar"):
            name = op[1]
            v = self.fresh(k == "create_scalar")
            call = lambda: tr.createAnalyticalFeature(name, v)
            if name not in model:            # documented: no-op when the name exists
                model[name] = list(v) if isinstance(v, list) else [v] * n
                self.exact.add(name)
                if name in self.deleted_names:
                    self.flags.add("delete_then_recreate")
            status = "ok"
        elif k in ("remove", "delete_item"):
            name = op[1]
            if k == "remove":
                call = lambda: tr.removeAnalyticalFeature(name)
            else:
                def call():
                    tr[name] = "#DELETE"
            if name in model:
                keys = list(model.keys())
                listed = M.call(tr.getListAnalyticalFeatures)
                if not M.is_raised(listed) and listed and listed[-1] != name:
                    self.deleted_nonlast.update(x for x in listed if x != name)
                del model[name]
                self.deleted_names.add(name)
                status = "ok"
            else:
                status = "reject"
        elif k in ("update_list", "update_scalar"):
            name = op[1]
            v = self.fresh(k == "update_scalar")
            call = lambda: tr.updateAnalyticalFeature(name, v)
            if name in model:
                model[name] = list(v) if isinstance(v, list) else [v] * n
                self.exact.add(name)
                status = "ok"
            else:
                status = "reject"
        elif k in ("set_list", "set_scalar"):
            name = op[1]
            v = self.fresh(k == "set_scalar")

            def call():
                tr[name] = v
            if name not in model and name in self.deleted_names:
                self.flags.add("delete_then_recreate")
            model[name] = list(v) if isinstance(v, list) else [v] * n
            self.exact.add(name)
            status = "ok"
        elif k in ("set_fn", "add_af"):
            name = op[1]
            self.counter += 1
            base = 1000.0 * self.counter
            want = [base + i + 1 for i in range(n)]
            if self.counter % 3 == 1:
                # an algorithm that is not defined at every observation (a forward difference reads the next
                # observation; the built-in speed / heading do the same): tracklib documents by its code that an
                # IndexError raised by the algorithm writes NaN at that observation -- NaN is then what was last
                # written there, whatever the name held before
                def f(track, i):
                    track.getObsList()[i + 1]
                    return base + i + 1
                want[n - 1] = float("nan")
                self.ctx.cls("algorithm.undefined_at_an_observation")
                if name in model:
                    self.ctx.cls("algorithm.undefined_at_an_observation.over_an_existing_name")
            elif self.counter % 3 == 2 and n >= 2:
                def f(track, i):
                    return [base + j + 1 for j in range(1, track.size() - 1)][i - 1 if i else n]
                want[0] = want[n - 1] = float("nan")
                want[1:n - 1] = [base + j + 1 for j in range(1, n - 1)]
                self.ctx.cls("algorithm.undefined_at_an_observation")
                if name in model:
                    self.ctx.cls("algorithm.undefined_at_an_observation.over_an_existing_name")
            elif self.counter % 2 == 0:
                # a recurrence: the algorithm reads the feature it is filling at the observation before (running sums,
                # exponential smoothing): the feature is registered before the algorithm runs, and what was written
                # for i-1 is what reading it at i-1 gives
                rn = tr._n(name) if hasattr(tr, "_n") else name

                def f(track, i):
                    return base + 1 if i == 0 else track.getObsAnalyticalFeature(rn, i - 1) + 1
                self.ctx.cls("algorithm_reading_its_own_feature_at_the_observation_before")
            else:
                f = lambda track, i: base + i + 1
            if k == "set_fn":
                def call():
                    tr[name] = f
            elif self.counter % 2:
                # the documented short form: the name is the algorithm's own __name__ (a feature of that name may
                # exist already, written by hand, by another function of the same name, or by this very call before)
                f.__name__ = tr._n(name) if hasattr(tr, "_n") else name
                call = lambda: tr.addAnalyticalFeature(f)
                expect_return = list(want)
                self.ctx.cls("algorithm_named_by_its_own_name")
                if name in model:
                    self.ctx.cls("algorithm_named_by_its_own_name.over_an_existing_name")
            else:
                call = lambda: tr.addAnalyticalFeature(f, name)
                expect_return = list(want)
            if name not in model and name in self.deleted_names:
                self.flags.add("delete_then_recreate")
            model[name] = list(want)
            self.exact.add(name)
            status = "ok"
        elif k == "set_obs":
            name = op[1]
            v = self.fresh(True)
            i = n - 1 if self.counter % 2 else 0

            def call():
                tr[name, i] = v
            if name in model:
                model[name][i] = v
                status = "ok"
            else:
                status = "reject"
        elif k == "read":
            name = op[1]
            call = lambda: tr[name]
            if name in model:
                expect_return = list(model[name])
                status = "ok"
            else:
                status = "reject"
        elif k == "unary":
            _, opn, i1, o = op
            if i1 not in model:
                return "skip", None, None
            call = lambda: tr.operate(getattr(Operator, opn), i1, o)
            if o not in model and o in self.deleted_names:
                self.flags.add("delete_then_recreate")
            if i1 == o:
                self.flags.add("inplace_operator")
            model[o] = UNARY[opn](list(model[i1]))
            self.exact.discard(o)
            status = "ok"
        elif k == "binary":
            _, opn, i1, i2, o = op
            if i1 not in model or i2 not in model:
                return "skip", None, None
            call = lambda: tr.operate(getattr(Operator, opn), i1, i2, o)
            if o in (i1, i2):
                self.flags.add("inplace_operator")
            if o not in model and o in self.deleted_names:
                self.flags.add("delete_then_recreate")
            model[o] = [BINARY[opn](x, y) for x, y in zip(model[i1], model[i2])]
            self.exact.discard(o)
            status = "ok"
        elif k == "scalar":
            _, opn, i1, o = op
            if i1 not in model:
                return "skip", None, None
            kk = float(self.counter % 5 + 2)
            call = lambda: tr.operate(getattr(Operator, opn), i1, kk, o)
            if o == i1:
                self.flags.add("inplace_operator")
            if o not in model and o in self.deleted_names:
                self.flags.add("delete_then_recreate")
            model[o] = [SCALAR[opn](x, kk) for x in model[i1]]
            self.exact.discard(o)
            status = "ok"
        elif k == "sibling":
            # a second track derived from this one through a public operation whose result owns its observations
            # (time-span extraction over the whole range copies them): from now on the two tracks lead separate
            # lives -- what is done to one must not show on the other
            if len(self.siblings) >= 2 or not model:
                return "skip", None, None
            ts = tr.getTimestamps()
            sib = M.call(tr.extractSpanTime, min(ts), max(ts))
            if M.is_raised(sib) or sib.size() != n or any(a is b for a, b in zip(sib.getObsList(), tr.getObsList())):
                self.ctx.count("sibling_not_available")
                return "skip", None, None
            self.siblings.append([sib, {k2: list(v) for k2, v in model.items()}, set(self.exact),
                                  {c: list(v) for c, v in self.coords.items()}])
            self.flags.add("sibling_track")
            return "noop", (lambda: None), None
        elif k == "swap_with_sibling":
            if not self.siblings:
                return "skip", None, None
            sib = self.siblings.pop(0)
            self.siblings.append([self.tr, self.model, self.exact, self.coords])
            self.tr, self.model, self.exact, self.coords = sib[0], sib[1], sib[2], sib[3]
            self.flags.add("sibling_track_becomes_the_edited_one")
            return "noop", (lambda: None), None
        elif k == "expr_unknown":
            e = op[1]
            import re
            used = set(re.findall(r"\b([abc])\b", e.split("=", 1)[-1]))
            if any(u not in model for u in used):
                return "skip", None, None
            self.flags.add("expression_that_cannot_be_evaluated")
            return "must_fail", (lambda: tr.operate(e)), op[2]
        elif k == "anyop":
            self.shift_expect = None
            # any void operator, without a model of what it computes: the list the call RETURNS is what it says it
            # wrote, so that is what reading the output name must give afterwards; everything else must stay put
            _, opn, i1, arg, o = op
            if i1 not in model or (isinstance(arg, str) and arg not in model):
                return "skip", None, None
            if isinstance(arg, list):
                a = arg[1]
                if arg[0] == "turns":
                    a = {"n": n, "-n": -n, "2n": 2 * n, "n+1": n + 1}.get(a, a)
                    if a == 0 or (isinstance(a, int) and a % n == 0):
                        self.flags.add("shift_by_whole_turns")
                call = lambda: tr.operate(getattr(Operator, opn), i1, a, o)
                if arg[0] == "turns" and opn in ("SHIFT", "SHIFT_REV", "SHIFT_CIRCULAR", "SHIFT_CIRCULAR_REV"):
                    # the one family whose definition is documented in one line each -- y(t) = x(t - arg) for SHIFT,
                    # y(t) = x(t + arg) for SHIFT_REV, undefined (NaN) outside the track, wrapping around for the
                    # circular ones: the values written are judged for every sign of the offset
                    kk = a if opn in ("SHIFT", "SHIFT_CIRCULAR") else -a
                    src = list(model[i1])
                    if "CIRCULAR" in opn:
                        self.shift_expect = [src[(i - kk) % n] for i in range(n)]
                    else:
                        self.shift_expect = [src[i - kk] if 0 <= i - kk < n else float("nan") for i in range(n)]
            elif arg is None:
                call = lambda: tr.operate(getattr(Operator, opn), i1, o)
            else:
                call = lambda: tr.operate(getattr(Operator, opn), i1, arg, o)
            if o in (i1, arg):
                self.flags.add("inplace_operator")
            if o not in model and o in self.deleted_names:
                self.flags.add("delete_then_recreate")
            self.flags.add("any_void_operator")
            return "from_return", call, o
        elif k in ("expr", "eval"):
            e = op[1]
            import re
            if not model and any(c in e for c in "+-*{("):
                self.ctx.cls("expression_on_an_empty_feature_table")
            used = set(re.findall(r"\b([abcxyz])\b", e.split("=", 1)[-1] if k == "expr" else e))
            if "+=" in e:
                used.add(e.split("+=")[0])
            if any(u in NAMES and u not in model for u in used):
                return "skip", None, None
            # both documented entry points: operate(text) and item access track[text] (for texts that item access
            # recognises as expressions)
            self.counter += 1
            if self.counter % 3 == 0 and any(c in e for c in "+-*/^<>()="):
                call = lambda: tr[e]
                self.flags.add("expression_through_item_access")
            else:
                call = lambda: tr.operate(e)
            if any(c in e for c in "+-*{(") and k == "expr" or k == "eval":
                self.flags.add("expr_with_temporaries")
            try:
                if k == "eval":
                    expect_return = ev(e, self.env(), n)
                elif "+=" in e:
                    lhs, rhs = e.split("+=")
                    val = ev("%s+(%s)" % (lhs, rhs), self.env(), n)
                else:
                    lhs, rhs = e.split("=", 1)
                    val = ev(rhs, self.env(), n)
            except Undefined:
                return "skip", None, None
            if k != "eval":
                if lhs in ("x", "y", "z"):
                    self.coords[lhs] = list(val)
                    self.flags.add("coordinate_assignment")
                else:
                    if lhs not in model and lhs in self.deleted_names:
                        self.flags.add("delete_then_recreate")
                    model[lhs] = list(val)
                    self.exact.discard(lhs)
            status = "ok"
        else:
            raise M.HarnessError("unknown op %r" % (op,))
        return status, call, expect_return

    def compare(self):
        """Everything a user can read vs the model.  Returns None or a problem dict."""
        tr, model, n = self.tr, self.model, self.n
        self.ctx.monitor("model.state_compare")
        listed = M.call(tr.getListAnalyticalFeatures)
        if M.is_raised(listed):
            return {"what": "getListAnalyticalFeatures raised", "raised": listed}
        if any(str(x).startswith("#") for x in listed):
            return {"what": "evaluator temporary remains listed", "listed": listed}
        if sorted(listed) != sorted(model.keys()) or len(listed) != len(set(listed)):
            return {"what": "listed features differ from the features written", "listed": listed,
                    "expected": list(model.keys())}
        for o in tr.getObsList():
            if len(o.features) != len(listed):
                return {"what": "an observation does not carry exactly one value per listed feature",
                        "n_values": len(o.features), "listed": listed}
        for name, exp in model.items():
            got = M.call(tr.getAnalyticalFeature, name)
            same = (lambda A, B: _seq_veq(A, B)) if name in self.exact else (lambda A, B: M.seq_eq(A, B))
            if M.is_raised(got) or not same(got, exp):
                return {"what": "reading a feature does not return the values last written under that name",
                        "name": name, "got": got, "expected": exp, "listed": listed}
            j = n - 1
            g1 = M.call(lambda: tr[name, j])
            if M.is_raised(g1) or not (_veq(g1, exp[j]) if name in self.exact else M.feq(g1, exp[j])):
                return {"what": "track[name, i] disagrees with the values last written", "name": name, "i": j,
                        "got": g1, "expected": exp[j]}
            if name in self.deleted_nonlast:
                self.flags.add("delete_non_last_then_use")
        self.ctx.monitor("conservation.xyzt")
        for c, getter in (("x", tr.getX), ("y", tr.getY), ("z", tr.getZ)):
            if not M.seq_eq(list(getter()), self.coords[c]):
                return {"what": "coordinate %s changed as a side effect" % c, "got": list(getter()),
                        "expected": self.coords[c]}
        if [gen.obstime_fields(t) for t in tr.getTimestamps()] != self.T:
            return {"what": "timestamps changed as a side effect"}
        for si, (sib, smodel, sexact, scoords) in enumerate(self.siblings):
            self.ctx.monitor("sibling.unaffected")
            lst = M.call(sib.getListAnalyticalFeatures)
            if M.is_raised(lst) or sorted(lst) != sorted(smodel.keys()):
                return {"what": "a track derived from this one earlier (its observations are its own) no longer lists "
                                "its own features after an operation on the other track", "sibling": si,
                        "listed": lst, "expected": sorted(smodel.keys())}
            for o in sib.getObsList():
                if len(o.features) != len(lst):
                    return {"what": "a derived track's observation does not carry exactly one value per listed "
                                    "feature after an operation on the other track", "sibling": si,
                            "n_values": len(o.features), "listed": lst}
            for name, exp in smodel.items():
                got = M.call(sib.getAnalyticalFeature, name)
                if M.is_raised(got) or not (_seq_veq(got, exp) if name in sexact else M.seq_eq(got, exp)):
                    return {"what": "a derived track no longer reads the values it had, after an operation on the "
                                    "other track", "sibling": si, "name": name, "got": got, "expected": exp}
            for c, getter in (("x", sib.getX), ("y", sib.getY), ("z", sib.getZ)):
                if not M.seq_eq(list(getter()), scoords[c]):
                    return {"what": "a derived track's coordinate %s changed after an operation on the other track" % c,
                            "sibling": si}
        return None

    def step(self, op):
        status, call, expect_return = self.apply(op)
        if status == "skip":
            self.ctx.count("op_skipped_missing_input")
            return None
        self.applied.append(tuple(op))
        r = M.call(call)
        if status == "noop":
            pass
        elif status == "must_fail":
            # error path: the call is expected to raise; afterwards no temporary may be listed, the table must be
            # aligned and every name other than the assignment target must read as before (compare() below)
            target = expect_return
            self.ctx.monitor("failed_expression.state_consistent")
            if not M.is_raised(r):
                return {"what": "an expression naming a feature the track does not have was evaluated", "op": list(op),
                        "got": r}
            if target is not None:
                listed = M.call(self.tr.getListAnalyticalFeatures)
                if not M.is_raised(listed):
                    if target in listed:
                        got = M.call(self.tr.getAnalyticalFeature, target)
                        if not M.is_raised(got):
                            self.model[target] = list(got)
                            self.exact.add(target)
                    elif target in self.model:
                        del self.model[target]
        elif status == "from_return":
            out = expect_return
            if M.is_raised(r):
                if r.type not in ("ZeroDivisionError", "ValueError", "OverflowError"):
                    return {"what": "operator application raised", "op": list(op), "raised": r}
                # arithmetic domain error of the operator on these values (1/0, log 0, 0/0 ...): whatever happened to
                # the output name, the table must be aligned and every OTHER name must read as before
                self.ctx.count("operator_domain_error")
                listed = M.call(self.tr.getListAnalyticalFeatures)
                if M.is_raised(listed):
                    return {"what": "getListAnalyticalFeatures raised", "raised": listed}
                if out in listed:
                    got = M.call(self.tr.getAnalyticalFeature, out)
                    if M.is_raised(got):
                        return {"what": "output feature unreadable after an operator failed", "op": list(op), "raised": got}
                    self.model[out] = list(got)
                    self.exact.add(out)
                elif out in self.model:
                    return {"what": "an operator that failed removed its (existing) output feature", "op": list(op)}
            else:
                vals = None
                if isinstance(r, (list, tuple)) and len(r) == self.n:
                    try:
                        vals = [v if isinstance(v, int) and not isinstance(v, bool) else float(v) for v in r]
                    except (TypeError, ValueError):
                        vals = None
                if vals is not None:
                    se = getattr(self, "shift_expect", None)
                    self.shift_expect = None
                    if se is not None:
                        self.ctx.monitor("anyop.shift_family_vs_its_definition")
                        if not _seq_veq(vals, se):
                            return {"what": "a shift operator did not write y(t) = x(t -/+ offset) (NaN outside the "
                                            "track, wrapping for the circular ones)", "op": list(op), "got": vals,
                                    "expected": se}
                    self.model[out] = vals          # what the call says it wrote
                    self.exact.add(out)
                    self.ctx.monitor("anyop.returned_list_is_what_is_read")
                else:
                    # some void operators return nothing: then only alignment and "nothing else moved" are judged
                    self.ctx.count("void_operator_returned_no_list")
                    got = M.call(self.tr.getAnalyticalFeature, out)
                    if M.is_raised(got):
                        return {"what": "output feature unreadable after an operator application", "op": list(op),
                                "raised": got}
                    self.model[out] = list(got)
                    self.exact.add(out)
        elif status == "reject":
            self.flags.add("rejection")
            if not M.is_raised(r) or r.type != "AnalyticalFeatureError":
                return {"what": "documented rejection (AnalyticalFeatureError on a missing name) did not happen",
                        "op": list(op), "got": r}
        else:
            if M.is_raised(r):
                return {"what": "operation raised", "op": list(op), "raised": r}
            if expect_return is not None and status != "from_return":
                try:
                    ok = M.seq_eq(list(r), expect_return)
                except TypeError:
                    ok = False
                if not ok:
                    return {"what": "operation returned other values than the model", "op": list(op), "got": r,
                            "expected": expect_return}
        self.big = {nm for nm, vals in self.model.items()
                    if any(isinstance(v, int) and not isinstance(v, bool) and abs(v) >= 2 ** 53 for v in vals)}
        p = self.compare()
        if p:
            p["after_op"] = list(op)
            return p
        p = self.touch_decoy()
        if p is None:
            p = self.compare()
            if p:
                p["what"] += " (after an access to a second, unrelated track)"
        if p:
            p["after_op"] = list(op)
        return p


def run_shared_obs(case, ctx):
    """A feature written on one of two tracks that share observation objects, then one on the other; each must read
    back what was written under its own names, with one value per listed feature on every observation."""
    n, k = case["size"], case["upto"]
    parent = gen.make_track([(10.0 * i + 1, -3.0 * i - 2, 0.5 * i + 7) for i in range(n)],
                            t0_ms=gen.ms_from_fields(1970, 1, 2, 3, 4, 5), step_ms=1500)
    child = parent.extract(0, k)
    A, B = (child, parent) if case["first"] == "extract" else (parent, child)
    va = [100.0 + i for i in range(A.size())]
    vb = [200.0 + i for i in range(B.size())]

    def write(tr, name, vals):
        if case["how"] == "create_list":
            return M.call(tr.createAnalyticalFeature, name, list(vals))
        if case["how"] == "set_list":
            def _s():
                tr[name] = list(vals)
            return M.call(_s)
        r = M.call(tr.createAnalyticalFeature, "src_" + name, list(vals))
        return r if M.is_raised(r) else M.call(tr.operate, "%s=src_%s*1" % (name, name))
    sig = ("shared_obs", n, k, case["first"], case["how"])
    cls = ["shared_observation_objects", "size:%d" % n]
    ra = write(A, "fa", va)
    rb = write(B, "fb", vb)
    ctx.monitor("model.state_compare")
    if M.is_raised(ra) or M.is_raised(rb):
        return violated({"what": "writing a feature raised on a track that shares its observations with another",
                         "raised": ra if M.is_raised(ra) else rb, "case": case}, sig, True, cls)
    for tr, name, vals, who in ((A, "fa", va, "first"), (B, "fb", vb, "second")):
        got = M.call(tr.getAnalyticalFeature, name)
        if M.is_raised(got) or not M.seq_eq(list(got), vals):
            return violated({"what": "reading a feature does not return the values last written under that name (two "
                                     "tracks related by extraction share their observation objects)", "track": who,
                             "name": name, "got": got, "expected": vals, "case": case}, sig, True, cls)
        lst = tr.getListAnalyticalFeatures()
        for o in tr.getObsList():
            if len(o.features) != len(lst):
                return violated({"what": "an observation does not carry exactly one value per listed feature (two tracks "
                                         "related by extraction share their observation objects)", "track": who,
                                 "n_values": len(o.features), "listed": list(lst), "case": case}, sig, True, cls)
    return held(sig, True, cls)


def run_scale(case, ctx):
    """Dozens of features on tracks of up to thousands of observations; one expression naming every feature (more than
    100 operations for the larger cases), with and without '='; deletions; a second long expression.  After each step:
    exactly the features written are listed, every observation carries one value per listed feature, every name reads
    back what was last written under it, no temporary is listed, coordinates and timestamps are untouched."""
    n, F, style = case["size"], case["nfeat"], case["style"]
    tr = gen.make_track([(10.0 * i + 1, -3.0 * i - 2, 0.5 * i + 7) for i in range(n)],
                        t0_ms=gen.ms_from_fields(2024, 3, 4, 5, 6, 7), step_ms=1000)
    X, Y, Z = list(tr.getX()), list(tr.getY()), list(tr.getZ())
    T = [gen.obstime_fields(t) for t in tr.getTimestamps()]
    fmt = ["f%d", "F%d", "af_%d"][style]
    names = [fmt % j for j in range(F)]
    model = {}
    sig = ("scale", n, F, style)
    cls = ["scale", "size:%d" % n if n < 100 else "size:100+", "features:%d" % F]

    def check(label):
        ctx.monitor("scale.table_consistent")
        listed = M.call(tr.getListAnalyticalFeatures)
        if M.is_raised(listed):
            return {"what": "getListAnalyticalFeatures raised", "raised": listed, "after": label}
        extra = [x for x in listed if x not in model]
        if extra:
            return {"what": "names nobody wrote remain listed (evaluator temporaries?)", "extra": extra[:8],
                    "n_extra": len(extra), "after": label}
        if sorted(listed) != sorted(model):
            return {"what": "listed features differ from the features written", "after": label,
                    "missing": [x for x in model if x not in listed][:8]}
        for i, o in enumerate(tr.getObsList()):
            if len(o.features) != len(listed):
                return {"what": "an observation does not carry exactly one value per listed feature", "obs": i,
                        "n_values": len(o.features), "n_listed": len(listed), "after": label}
        for name, exp in model.items():
            got = M.call(tr.getAnalyticalFeature, name)
            if M.is_raised(got) or not M.seq_eq(list(got), exp):
                bad = None
                if not M.is_raised(got) and len(got) == len(exp):
                    bad = next((i for i in range(len(exp)) if not M.feq(got[i], exp[i])), None)
                return {"what": "reading a feature does not return the values last written under that name",
                        "name": name, "after": label, "first_bad_index": bad,
                        "got": None if bad is None else got[bad], "expected": None if bad is None else exp[bad]}
        if not (M.seq_eq(list(tr.getX()), X) and M.seq_eq(list(tr.getY()), Y) and M.seq_eq(list(tr.getZ()), Z)):
            return {"what": "a coordinate changed as a side effect", "after": label}
        if [gen.obstime_fields(t) for t in tr.getTimestamps()] != T:
            return {"what": "timestamps changed as a side effect", "after": label}
        return None

    def expression(over):
        terms, total = [], None
        for j, nm in enumerate(over):
            v = model[nm]
            if j % 3 == 0:
                terms.append(nm)
                term = list(v)
            elif j % 3 == 1:
                terms.append("%s*2" % nm)
                term = [a * 2 for a in v]
            else:
                w = model[over[j - 1]]
                terms.append("(%s-%s)" % (nm, over[j - 1]))
                term = [a - b for a, b in zip(v, w)]
            total = term if total is None else [a + b for a, b in zip(total, term)]
        e = "+".join(terms)
        return e, total, sum(e.count(c) for c in "+*-")

    def fail(p):
        p["case"] = case
        return violated(p, sig, True, cls)

    for j, nm in enumerate(names):
        vals = [float((3 * j + 5 * i) % 17) + 0.25 * (j % 4) for i in range(n)]
        if j % 2:
            r = M.call(tr.createAnalyticalFeature, nm, list(vals))
        else:
            def _s(nm=nm, vals=vals):
                tr[nm] = list(vals)
            r = M.call(_s)
        if M.is_raised(r):
            return fail({"what": "creating a feature raised", "name": nm, "raised": r})
        model[nm] = vals
    p = check("creation of %d features" % F)
    if p:
        return fail(p)
    e, total, nops = expression(names)
    if nops > 100:
        cls.append("expression_of_more_than_100_operations")
        ctx.count("expression_of_more_than_100_operations")
    r = M.call(tr.operate, e)
    if M.is_raised(r) or not M.seq_eq(list(r), total):
        return fail({"what": "a long expression without '=' raised or returned other values than the model",
                     "n_operations": nops, "got": r if M.is_raised(r) else "(values differ)"})
    p = check("an expression of %d operations without '='" % nops)
    if p:
        return fail(p)
    r = M.call(tr.operate, "total=" + e)
    if M.is_raised(r):
        return fail({"what": "a long expression with '=' raised", "n_operations": nops + 1, "raised": r})
    model["total"] = total
    p = check("an expression of %d operations with '='" % (nops + 1))
    if p:
        return fail(p)
    for j, nm in enumerate(names):
        if j % 3 == 1:
            if j % 2:
                r = M.call(tr.removeAnalyticalFeature, nm)
            else:
                def _d(nm=nm):
                    tr[nm] = "#DELETE"
                r = M.call(_d)
            if M.is_raised(r):
                return fail({"what": "deleting a feature raised", "name": nm, "raised": r})
            del model[nm]
    p = check("deleting every third feature")
    if p:
        return fail(p)
    rest = [nm for nm in names if nm in model]
    e, total, nops = expression(rest)
    r = M.call(tr.operate, "total=" + e)
    if M.is_raised(r):
        return fail({"what": "a long expression with '=' raised after deletions", "n_operations": nops + 1, "raised": r})
    model["total"] = total
    p = check("an expression of %d operations over the remaining features" % (nops + 1))
    if p:
        return fail(p)
    return held(sig, True, cls)


def run_case(case, ctx):
    import random
    if case.get("kind") == "shared_obs":
        return run_shared_obs(case, ctx)
    if case.get("kind") == "scale":
        return run_scale(case, ctx)
    R = Runner(case["size"], ctx, case.get("names", 0))
    if "hist" in case:
        ops = [tuple(o) for o in case["hist"]]
    else:
        rng = random.Random(case["rand"])
        ops = None
    problem = None
    k = 0
    while True:
        if ops is not None:
            if k >= len(ops):
                break
            op = ops[k]
        else:
            if k >= case["depth"]:
                break
            op = random_op(rng, R.model)
        k += 1
        problem = R.step(op)
        if problem:
            break
    sig = tuple(R.applied)
    cls = sorted(R.flags) + ["size:%d" % case["size"]]
    nt = "delete_non_last_then_use" in R.flags or "delete_then_recreate" in R.flags
    if problem:
        problem["history"] = [list(o) for o in R.applied]
        problem["size"] = case["size"]
        return violated(problem, sig, nt, cls)
    if not R.applied:
        return ood("every operation of the history needed a missing input", cls)
    return held(sig, nt, cls)


KF_SHARED = "C01:shared-observation-objects"


def classify(case, witness):
    """One open finding, keyed by the input mechanism: the failing history writes features on two tracks that share
    their observation objects (a track and one of its extracts).  Every other history is a violation."""
    if case.get("kind") == "shared_obs":
        return KF_SHARED
    return None


# floors for the call-history workloads added in session 3 (a run in which they were silently skipped is inconclusive)
_floors_base = floors
_FLOORS_EXTRA = {'monitors': {'decoy.unchanged': 50000, 'failed_expression.state_consistent': 500,
                              'anyop.returned_list_is_what_is_read': 3000, 'anyop.shift_family_vs_its_definition': 800,
                              'scale.table_consistent': 100},
                 'classes': {'shift_by_whole_turns': 500, 'expression_through_item_access': 2000, 'sibling_track': 1000,
                             'less_usual_feature_names': 5000, 'zero_valued_write': 5000, 'algorithm.undefined_at_an_observation.over_an_existing_name': 800,
                             'algorithm_named_by_its_own_name.over_an_existing_name': 500,
                             'expression_on_an_empty_feature_table': 300,
                             'algorithm_reading_its_own_feature_at_the_observation_before': 1000, 'expression_of_more_than_100_operations': 6}}


def floors(tier):
    f = _floors_base(tier)
    for kind, d in _FLOORS_EXTRA.items():
        f.setdefault(kind, {}).update(d)
    return f
