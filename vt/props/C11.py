"""C11 -- split() partitions the track; segmentation() markers reflect the
thresholds (DESIGN.md section 4, C11).

Two workloads drive the real tracklib.algo.segmentation code:

* split: every 0/1 marker vector over tracks of n = 1..10 (quick) / 1..12
  (thorough) observations is pushed through split(track, "m"), once with the
  marker written directly as a feature and once with the marker produced by
  segmentation() itself.  Observations carry ms-exact strictly increasing
  timestamps and an "id" feature, so every observation of a returned piece is
  identified with exactly one observation of the source.
* seg: segmentation() over 1..3 tested features; the per-observation values
  are drawn from {well below, one ulp below, equal, one ulp above, well above,
  NaN} of the feature's own threshold (all combinations enumerated), both
  comparison modes, several threshold sets, scalar and list call forms, fresh
  and re-used output feature.

Oracles (nothing beyond the sentence in properties.jsonl):
  - no marked observation => empty collection;
  - otherwise the pieces, concatenated, are observations 0..n-1 each exactly
    once and in order; every piece but the last is non-empty and ends on a
    marked observation (an empty trailing piece is accepted); the source track
    is unchanged;
  - marker == 1 iff (AND mode) some non-NaN tested value > its threshold,
    (OR mode) every non-NaN tested value > its threshold; 0 otherwise.
"""
from __future__ import annotations

import itertools
import math

from vt import gen, monitor as M
from vt.gen import held, violated

PROP = "C11"
RULE = ("split: every marker vector of length n (all 2^n, n=1..10 quick / 1..12 thorough) x marker source (written directly "
        "as int or float 1/0, or produced by segmentation()); distinct = (n, vector, source); non-trivial = at least one "
        "marked observation (a split really happens). seg: every combination of value classes {<<, 1ulp below, ==, 1ulp "
        "above, >>, NaN} over 1..3 tested features x threshold sets x {AND, OR} x call form, dealt into tracks of <= 12 "
        "observations, plus seeded random rows (with +-inf); distinct = (thresholds, mode, form, rows); non-trivial = the "
        "track holds at least one observation expected 1 and one expected 0.")
ASSUMPTIONS = ["observations are identified by their ms-exact, strictly increasing timestamps and a unique 'id' feature "
               "(both written by the harness and re-read through the public API)",
               "mode names are taken from tracklib.algo.segmentation.MODE_COMPARAISON_AND / _OR",
               "an observation whose tested values are all NaN has nothing exceeding in AND mode (marker 0) and, NaN being "
               "ignored, vacuously 'all exceeding' in OR mode (marker 1), as in DESIGN.md",
               "one threshold per tested feature (fewer thresholds than features is out of domain)",
               "split() is called with its default limit=0"]
EXHAUSTIVE = {"quick": "all 2 046 marker vectors of length 1..10 (x 2 marker sources); all 6^k value-class combinations for "
                       "k = 1..3 tested features in both modes for every listed threshold set",
              "thorough": "all 8 190 marker vectors of length 1..12 (x 2 marker sources); all 6^k value-class combinations "
                          "for k = 1..3 tested features in both modes for every listed threshold set"}
CASE_LIMIT_S = 20.0

T0_MS = gen.ms_from_fields(2021, 3, 4, 5, 6, 7, 0)
CODES = ["lt", "below", "eq", "above", "gt", "nan"]
EXTRA_CODES = ["pinf", "ninf", "rlo", "rhi"]

THR1 = [[0], [35], [-2.5], [0.1], [1e6], [1.0]]
THR2 = [[35, 0], [0.0, 0.0], [-1.5, 2.5], [0.1, 1e6], [1, -1], [3.0, 3.0]]
THR3_Q = [[35, 0, -2.5], [0.0, 0.0, 0.0], [0.1, 1, 1e6], [-1.0, 2.0, -3.0]]
THR3_T = THR3_Q + [[1e6, -1e6, 0], [0.3, 0.2, 0.1], [5, 5, 5], [-0.0, 1e-9, -1e-9], [2.5, 35, 1], [7.0, -7.0, 7.5],
                   [100, 10, 1], [1e-3, 1e3, 1]]
THR2_T = THR2 + [[1e6, -1e6], [0.3, 0.2], [5, 5], [1e-9, -1e-9], [2.5, 35], [100, 10]]
THR1_T = THR1 + [[-1e6], [1e-9], [123.456], [2]]
ROWS_PER_TRACK = 12


# --------------------------------------------------------------------------
def chunks(tier, seed):
    out = []
    nmax = 10 if tier == "quick" else 12
    out.append({"kind": "split", "ns": list(range(1, 9)), "shard": 0, "of": 1, "key": "split1-8"})
    for n in range(9, nmax + 1):
        of = {9: 1, 10: 2, 11: 4, 12: 8}[n]
        for k in range(of):
            out.append({"kind": "split", "ns": [n], "shard": k, "of": of, "key": "split%d.%d" % (n, k)})
    t1, t2, t3 = (THR1, THR2, THR3_Q) if tier == "quick" else (THR1_T, THR2_T, THR3_T)
    out.append({"kind": "seg", "k": 1, "thrs": t1, "key": "seg1"})
    for i in range(0, len(t2), 3):
        out.append({"kind": "seg", "k": 2, "thrs": t2[i:i + 3], "key": "seg2.%d" % i})
    for i, th in enumerate(t3):
        out.append({"kind": "seg", "k": 3, "thrs": [th], "key": "seg3.%d" % i})
    for i in range(3 if tier == "quick" else 8):
        out.append({"kind": "splitbig", "key": "splitbig%d" % i, "n": 3 if tier == "quick" else 6})
    nr = 4 if tier == "quick" else 12
    for i in range(nr):
        out.append({"kind": "segrand", "n": 120 if tier == "quick" else 600, "key": "segrand%d" % i})
    return out


def floors(tier):
    q = tier == "quick"
    return {"monitors": {"split.partition": 3500 if q else 15000,
                         "split.piece_ends_marked": 3500 if q else 15000,
                         "split.no_marker_empty": 10,
                         "split.source_unchanged": 3500 if q else 15000,
                         "seg.marker_vs_threshold": 8000 if q else 40000,
                         "extract.inclusive_bounds": 10000, "split.pieces_belong_to_the_caller": 3000},
            "classes": {"no_marker": 10, "first_marked": 1000, "last_marked": 1000, "adjacent_markers": 1000,
                        "all_marked": 10, "single_obs": 2, "trailing_empty_piece": 1000, "via_seg": 1500,
                        "eq_threshold": 200, "nan_value": 200, "all_nan_and": 6, "all_nan_or": 6,
                        "just_above": 200, "just_below": 200, "feat1": 10, "feat2": 50, "feat3": 200,
                        "mode_and": 150, "mode_or": 150, "and_or_differ": 100,
                        "less_usual_feature_names": 1000, "values_held_as_numpy_scalars": 150, "track_of_hundreds_of_observations": 12,
                        "more_than_1000_marked_observations": 2},
            "distinct_nontrivial": 4000 if q else 16000}


# --------------------------------------------------------------------------
def _extract_post(a, k, result):
    """Track.extract(id_ini, id_fin) -- inclusive bounds (anchored mechanism).
    Judged only for in-range arguments (an empty range id_fin = id_ini - 1 is
    the empty extraction split() uses for its trailing piece)."""
    self = a[0]
    args = list(a[1:])
    id_ini = k.get("id_ini", args[0] if args else None)
    id_fin = k.get("id_fin", args[1] if len(args) > 1 else None)
    if not (isinstance(id_ini, int) and isinstance(id_fin, int)):
        return None
    if not (0 <= id_ini <= id_fin + 1 <= self.size()):
        M.CTX.count("extract.out_of_range")
        return None
    if result.size() != id_fin - id_ini + 1:
        return "extract(%d, %d) returned %d observations" % (id_ini, id_fin, result.size())
    for j in range(result.size()):
        if result.getObs(j) is not self.getObs(id_ini + j):
            return "extract(%d, %d): observation %d is not source observation %d" % (id_ini, id_fin, j, id_ini + j)
    return None


_installed = False


def setup(ctx):
    global _installed
    if _installed:
        return
    from tracklib.core.track import Track
    import importlib
    importlib.import_module("tracklib.algo.segmentation")   # make sure the module under test is loaded
    Track.extract = M.wrap_post(Track.__dict__["extract"], _extract_post, "extract.inclusive_bounds")
    _installed = True


# --------------------------------------------------------------------------
def cases(chunk):
    kind = chunk["kind"]
    if kind == "split":
        idx = 0
        for n in chunk["ns"]:
            for bits in range(1 << n):
                if idx % chunk["of"] == chunk["shard"]:
                    yield {"kind": "split", "n": n, "bits": bits, "via": "direct",
                           "rep": "float" if (bits + n) % 3 == 0 else "int"}
                    yield {"kind": "split", "n": n, "bits": bits, "via": "seg", "mode": "AND" if bits % 2 else "OR"}
                idx += 1
    elif kind == "seg":
        k = chunk["k"]
        combos = list(itertools.product(CODES, repeat=k))
        ntracks = max(1, -(-len(combos) // ROWS_PER_TRACK))
        for thr in chunk["thrs"]:
            for mode in ("AND", "OR"):
                for j in range(ntracks):
                    rows = [list(c) for c in combos[j::ntracks]]
                    form = "list"
                    if k == 1:
                        form = ["list", "scalar", "scalar_thr", "scalar_af"][(j + (mode == "OR")) % 4]
                    yield {"kind": "seg", "thr": thr, "mode": mode, "rows": rows, "form": form,
                           "prior": (j + len(thr)) % 3 == 0}
    elif kind == "splitbig":
        # larger scale: thousands of observations, more than a thousand of them marked
        rng = gen.rng_for(PROP, chunk)
        for _ in range(chunk["n"]):
            n = rng.choice([600, 1500, 2600, 4000])
            dens = rng.choice([0.5, 0.9, 0.05, 1.0, 0.45])
            bits = 0
            for i in range(n):
                if rng.random() < dens:
                    bits |= 1 << i
            yield {"kind": "split", "n": n, "bits": bits, "via": rng.choice(["direct", "seg"]),
                   "rep": rng.choice(["float", "int"]), "mode": rng.choice(["AND", "OR"]), "limit_x": 3}
    elif kind == "segrand":
        rng = gen.rng_for(PROP, chunk)
        for _ in range(chunk["n"]):
            k = rng.choice([1, 2, 2, 3, 3, 3])
            thr = [rng.choice([0, 1, 35, -2.5, 0.1, 1e6, round(rng.uniform(-50, 50), 3), rng.randint(-5, 5)])
                   for _ in range(k)]
            n = rng.randint(1, 12) if _ % 40 != 7 else rng.choice([300, 1200, 2500])
            rows = [[rng.choice(CODES + CODES + EXTRA_CODES) for _ in range(k)] for _ in range(n)]
            fr = [[round(rng.random(), 6) for _ in range(k)] for _ in range(n)]
            yield {"kind": "seg", "thr": thr, "mode": rng.choice(["AND", "OR"]), "rows": rows, "frac": fr,
                   "form": "list" if k > 1 else rng.choice(["list", "scalar", "scalar_thr", "scalar_af"]),
                   "prior": rng.random() < 0.3}


# --------------------------------------------------------------------------
def _value(code, thr, frac=0.5):
    t = float(thr)
    if code == "eq":
        return thr
    if code == "below":
        return math.nextafter(t, -math.inf)
    if code == "above":
        return math.nextafter(t, math.inf)
    if code == "lt":
        return t - (1.0 + abs(t) / 2.0)
    if code == "gt":
        return t + (1.0 + abs(t) / 2.0)
    if code == "nan":
        return float("nan")
    if code == "pinf":
        return math.inf
    if code == "ninf":
        return -math.inf
    if code == "rlo":
        return t - (abs(t) + 1.0) * frac * 1e-3 - 1e-9
    if code == "rhi":
        return t + (abs(t) + 1.0) * frac * 1e-3 + 1e-9
    raise M.HarnessError("unknown value code %r" % code)


def _expected(vals, thr, mode):
    """The statement: 1 iff a tested feature exceeds its threshold -- any of
    them (AND mode) / all of them (OR mode), NaN values being ignored."""
    tests = [v > t for v, t in zip(vals, thr) if v == v]
    if mode == "AND":
        return 1 if any(tests) else 0
    return 1 if all(tests) else 0


def _mode_const(mode):
    import importlib
    S = importlib.import_module("tracklib.algo.segmentation")   # tracklib.algo.segmentation is also a function name
    return S.MODE_COMPARAISON_AND if mode == "AND" else S.MODE_COMPARAISON_OR


def _points(n):
    return [(float(i), float((i * i) % 7) - 0.5 * i, float(i % 3)) for i in range(n)]


def _times(n):
    # strictly increasing, ms-exact, irregular
    return [T0_MS + i * 1000 + (i * 371) % 997 for i in range(n)]


def _same(a, b):
    """Exact equality, NaN equal to NaN."""
    if isinstance(a, (list, tuple)) and isinstance(b, (list, tuple)):
        return len(a) == len(b) and all(_same(x, y) for x, y in zip(a, b))
    if isinstance(a, dict) and isinstance(b, dict):
        return a.keys() == b.keys() and all(_same(a[k], b[k]) for k in a)
    if isinstance(a, float) and isinstance(b, float) and a != a and b != b:
        return True
    return a == b


def _snapshot(tr):
    names = tr.getListAnalyticalFeatures()
    return {"n": tr.size(), "x": tr.getX(), "y": tr.getY(), "z": tr.getZ(),
            "t": [gen.obstime_fields(tr.getObs(i).timestamp) for i in range(tr.size())],
            "names": list(names), "feat": {nm: tr.getAnalyticalFeature(nm) for nm in names},
            "nfeat": [len(tr.getObs(i).features) for i in range(tr.size())],
            "uid": tr.uid}


def _snap_diff(a, b):
    return [k for k in a if not _same(a[k], b[k])]


# --------------------------------------------------------------------------
# less usual but legal feature names: upper-case spellings of the virtual names (x, y, z, t, idx), names with digits,
# blanks, one character, prefixes of one another
MARKER_NAMES = ["m", "Y", "Z", "X", "Idx", "T", "M2", "mark 1", "#mark", "m", "xy", "zt"]
TESTED_NAMES = [["f0", "f1", "f2"], ["T", "Z", "X"], ["temp", "t2", "T"], ["v", "v1", "v12"], ["Y", "y2", "Idx"], ["yz", "xyz", "dx"]]


def _run_split(case, ctx):
    from tracklib.algo.segmentation import split, segmentation
    n, bits, via = case["n"], case["bits"], case["via"]
    MK = MARKER_NAMES[(bits + n) % len(MARKER_NAMES)] if n >= 3 else "m"
    VN = TESTED_NAMES[(bits // 3 + n) % len(TESTED_NAMES)][0] if n >= 3 else "v"
    if VN == MK:
        VN = "v"
    markers = [(bits >> i) & 1 for i in range(n)]
    sig = ("split", n, bits, via)
    cls = []
    if n == 1:
        cls.append("single_obs")
    if not any(markers):
        cls.append("no_marker")
    else:
        if markers[0]:
            cls.append("first_marked")
        if markers[-1]:
            cls.append("last_marked")
        if any(markers[i] and markers[i + 1] for i in range(n - 1)):
            cls.append("adjacent_markers")
        if all(markers):
            cls.append("all_marked")
    nontrivial = any(markers)
    if MK != "m":
        cls.append("less_usual_feature_names")
    if n > 200:
        cls.append("track_of_hundreds_of_observations")
    if sum(markers) > 1000:
        cls.append("more_than_1000_marked_observations")

    tr = gen.make_track(_points(n), _times(n))
    tr.uid = "src"
    if (n + sum(markers)) % 4 == 1 and n >= 2:
        # fixes whose altitude is unknown (NaN): lengths computed on pieces that hold them are NaN, the pieces are there
        # all the same
        for i in range(n):
            if i % 3 == 2 or i == n - 1:
                tr.getObs(i).position.setZ(float("nan"))
        cls.append("fixes_with_unknown_altitude")
    tr.createAnalyticalFeature("id", list(range(n)))
    if sum(markers) % 2 == 0:
        # error path first: the same requests made BEFORE the marker / tested feature exists are rejected (after a
        # per-observation access to another feature); the valid requests below follow on the same track object
        M.call(lambda: tr["id", n - 1])
        if via == "direct":
            M.call(split, tr, MK)
        else:
            M.call(segmentation, tr, VN, "m_rejected", 1.5, _mode_const(case.get("mode", "AND")))
        ctx.count("rejected_request_before_valid_one")
    if via == "direct":
        one, zero = (1.0, 0.0) if case.get("rep") == "float" else (1, 0)
        tr.createAnalyticalFeature(MK, [one if m else zero for m in markers])
    else:
        cls.append("via_seg")
        # marked observations exceed the threshold 1.5, the others equal it or lie below
        tr.createAnalyticalFeature(VN, [2.0 if m else (1.5 if i % 2 else 1.0) for i, m in enumerate(markers)])
        r = M.call(segmentation, tr, VN, MK, 1.5, _mode_const(case.get("mode", "AND")))
        ctx.monitor("seg.marker_vs_threshold", n)
        if M.is_raised(r):
            return violated({"what": "segmentation() raised on a one-feature track", "markers_wanted": markers,
                             "raised": r}, sig, nontrivial, cls)
        got = tr.getAnalyticalFeature(MK)
        if not _same([int(g) if g in (0, 1) else g for g in got], markers):
            return violated({"what": "segmentation() marker differs from 'value > threshold'",
                             "values": tr.getAnalyticalFeature(VN), "threshold": 1.5, "mode": case.get("mode"),
                             "got": got, "expected": markers}, sig, nontrivial, cls)
    if (n + sum(markers)) % 4 == 1:
        tr, _how = gen.derive(tr, (n, markers, via), allow=gen.DERIVE_HOWS + ["hidden_slots", "hidden_slots"])
        tr.uid = "src"
    src_obs = [tr.getObs(i) for i in range(n)]
    before = _snapshot(tr)
    index_of = {t: i for i, t in enumerate(before["t"])}
    if len(index_of) != n:
        raise M.HarnessError("timestamps are not unique")

    if n <= 40 and (n + bits) % 3 == 0:
        # two tracks used in turn: another track carries a feature of the SAME name at another column position (its
        # first) and is split on it just before; each track must be split on ITS marker
        other = gen.make_track(_points(n + 1), _times(n + 1))
        other.createAnalyticalFeature(MK, [1.0 if i % 2 == 0 else 0.0 for i in range(n + 1)])
        other.createAnalyticalFeature("id", list(range(n + 1)))
        M.call(split, other, MK)
        ctx.count("another_track_with_the_same_marker_name_split_first")
    coll = M.call(split, tr, MK)
    if M.is_raised(coll):
        return violated({"what": "split() raised", "n": n, "markers": markers, "raised": coll}, sig, nontrivial, cls)

    after = _snapshot(tr)
    ctx.monitor("split.source_unchanged")
    diff = _snap_diff(before, after)
    if diff or any(tr.getObs(i) is not src_obs[i] for i in range(n)):
        return violated({"what": "split() changed the source track", "changed": diff or ["observation identity/order"],
                         "n": n, "markers": markers}, sig, nontrivial, cls)

    npieces = coll.size()
    if not any(markers):
        ctx.monitor("split.no_marker_empty")
        if npieces != 0:
            return violated({"what": "no marked observation but split() returned pieces", "n": n, "markers": markers,
                             "pieces": npieces}, sig, nontrivial, cls)
        return held(sig, nontrivial, cls)

    pieces = []
    for p in range(npieces):
        piece = coll.getTrack(p)
        ids = []
        for j in range(piece.size()):
            o = piece.getObs(j)
            i = index_of.get(gen.obstime_fields(o.timestamp))
            if i is None:
                return violated({"what": "a piece holds an observation that is not in the source track",
                                 "piece": p, "position": j, "timestamp": gen.obstime_fields(o.timestamp),
                                 "n": n, "markers": markers}, sig, nontrivial, cls)
            pos_ok = (_same(o.position.getX(), before["x"][i]) and _same(o.position.getY(), before["y"][i])
                      and _same(o.position.getZ(), before["z"][i]))
            fid = M.call(piece.getObsAnalyticalFeature, "id", j)
            if not pos_ok or M.is_raised(fid) or fid != i:
                return violated({"what": "an observation of a piece differs from the source observation with its "
                                         "timestamp", "piece": p, "position": j, "source_index": i, "id_feature": fid,
                                 "n": n, "markers": markers}, sig, nontrivial, cls)
            ids.append(i)
        pieces.append(ids)

    ctx.monitor("split.partition")
    concat = [i for ids in pieces for i in ids]
    if concat != list(range(n)):
        missing = sorted(set(range(n)) - set(concat))
        dup = sorted({i for i in concat if concat.count(i) > 1})
        return violated({"what": "the pieces do not contain every observation exactly once in the original order",
                         "n": n, "markers": markers, "pieces": pieces, "missing": missing, "duplicated": dup},
                        sig, nontrivial, cls)
    ctx.monitor("split.piece_ends_marked")
    for p, ids in enumerate(pieces[:-1]):
        if not ids or not markers[ids[-1]]:
            return violated({"what": "a piece other than the last does not end on a marked observation",
                             "n": n, "markers": markers, "pieces": pieces, "piece": p}, sig, nontrivial, cls)
    if pieces and not pieces[-1]:
        cls.append("trailing_empty_piece")
    ctx.count("pieces", len(pieces))
    # aliasing: the pieces belong to the caller, who trims them and appends to them (the observation objects are
    # shared with the source by design; the LISTS are not): the source must keep its observations, and splitting it
    # again must give the same pieces
    from tracklib.core.obs import Obs
    from tracklib.core.obs_coords import ENUCoords
    for p in range(npieces):
        pc = coll.getTrack(p)
        if pc.size() >= 1 and p % 2 == 0:
            M.call(pc.removeFirstObs)
        else:
            M.call(pc.addObs, Obs(ENUCoords(-1.0, -1.0, -1.0), gen.obstime_from_ms(T0_MS - 5000)))
    ctx.monitor("split.pieces_belong_to_the_caller")
    after2 = _snapshot(tr)
    diff = _snap_diff(before, after2)
    if diff or tr.size() != n or any(tr.getObs(i) is not src_obs[i] for i in range(n)):
        return violated({"what": "the source track changed when the caller trimmed / extended the pieces returned by "
                                 "split()", "changed": diff or ["number / identity of the observations"],
                         "n": n if n <= 40 else "%d" % n, "markers": markers if n <= 40 else "(long)", "size_now": tr.size()},
                        sig, nontrivial, cls)
    coll2 = M.call(split, tr, MK)
    if M.is_raised(coll2) or coll2.size() != npieces or \
            any(coll2.getTrack(p).size() != len(pieces[p]) for p in range(npieces)):
        return violated({"what": "splitting the same track again, after the caller trimmed / extended the first pieces, "
                                 "gives other pieces", "first": [len(x) for x in pieces][:20],
                         "second": coll2 if M.is_raised(coll2) else [coll2.getTrack(p).size() for p in range(coll2.size())][:20]},
                        sig, nontrivial, cls)
    return held(sig, nontrivial, cls)


def _run_seg(case, ctx):
    from tracklib.algo.segmentation import segmentation
    thr, mode, rows, form = case["thr"], case["mode"], case["rows"], case.get("form", "list")
    k = len(thr)
    n = len(rows)
    frac = case.get("frac")
    vals = [[_value(rows[i][f], thr[f], frac[i][f] if frac else 0.5) for f in range(k)] for i in range(n)]
    expected = [_expected(vals[i], thr, mode) for i in range(n)]
    other = [_expected(vals[i], thr, "OR" if mode == "AND" else "AND") for i in range(n)]
    sig = ("seg", tuple(thr), mode, form, bool(case.get("prior")), tuple(tuple(r) for r in rows),
           tuple(tuple(f) for f in frac) if frac else None)
    flat = [c for r in rows for c in r]
    cls = ["feat%d" % k, "mode_and" if mode == "AND" else "mode_or"]
    if "eq" in flat:
        cls.append("eq_threshold")
    if "nan" in flat:
        cls.append("nan_value")
    if "above" in flat:
        cls.append("just_above")
    if "below" in flat:
        cls.append("just_below")
    if any(all(c == "nan" for c in r) for r in rows):
        cls.append("all_nan_and" if mode == "AND" else "all_nan_or")
    if expected != other:
        cls.append("and_or_differ")
    nontrivial = (0 in expected) and (1 in expected)

    tr = gen.make_track(_points(n), _times(n))
    pick = (n + k + sum(expected)) % 8
    names = list(TESTED_NAMES[pick % len(TESTED_NAMES)][:k]) if pick < 6 else ["f%d" % f for f in range(k)]
    MK = MARKER_NAMES[(n + 2 * k + sum(expected)) % len(MARKER_NAMES)]
    if MK in names:
        MK = "m"
    if MK != "m" or names[0] != "f0":
        cls.append("less_usual_feature_names")
    if n > 200:
        cls.append("track_of_hundreds_of_observations")
    afs, thrs = list(names), list(thr)
    if form in ("scalar", "scalar_af"):
        afs = names[0]
    if form in ("scalar", "scalar_thr"):
        thrs = thr[0]
    if (n + k + len(expected) + sum(expected)) % 2 == 0:
        # error path first: the same request is rejected because the tested features do not exist yet
        tr.createAnalyticalFeature("aux", [7.0 + i for i in range(n)])
        M.call(lambda: tr["aux", n - 1])
        M.call(segmentation, tr, afs, "m_rejected", thrs, _mode_const(mode))
        ctx.count("rejected_request_before_valid_one")
    as_numpy = (n + 2 * k + sum(expected)) % 3 == 0
    if as_numpy:
        # the values (NaN included) held as numpy scalars, as list(array) or array[i] hand them out
        import numpy as np
        cls.append("values_held_as_numpy_scalars")
    for f in range(k):
        col = [vals[i][f] for i in range(n)]
        if as_numpy:
            col = [np.float64(v) if (i + f) % 2 else np.float32(v) if float(np.float32(v)) == v or v != v else np.float64(v)
                   for i, v in enumerate(col)]
        tr.createAnalyticalFeature(names[f], col)
    if (n + k + sum(expected)) % 3 == 1:
        tr, _how = gen.derive(tr, (vals, thr, mode), allow=gen.DERIVE_HOWS + ["hidden_slots", "hidden_slots"])
    defined = [v for row in vals for v in row if v == v]
    if defined and (n + 3 * k + sum(expected)) % 4 == 2:
        # the track declares a no-data code (as tracks read from CSV files do; it concerns blank COORDINATE fields and
        # removeNoDataValues) that happens to be one of the tested feature values: thresholds are compared all the same
        tr.no_data_value = defined[(n + k) % len(defined)]
        cls.append("no_data_code_equal_to_a_tested_value")
    if case.get("prior"):
        # history: the output feature already exists, filled by the other mode
        r0 = M.call(segmentation, tr, afs, MK, thrs, _mode_const("OR" if mode == "AND" else "AND"))
        if M.is_raised(r0):
            return violated({"what": "segmentation() raised", "thresholds": thr, "mode": "other", "values": vals,
                             "raised": r0}, sig, nontrivial, cls)
    r = M.call(segmentation, tr, afs, MK, thrs, _mode_const(mode))
    if M.is_raised(r):
        return violated({"what": "segmentation() raised", "thresholds": thr, "mode": mode, "values": vals,
                         "raised": r}, sig, nontrivial, cls)
    got = M.call(tr.getAnalyticalFeature, MK)
    if M.is_raised(got) or len(got) != n:
        return violated({"what": "marker feature missing or of the wrong size after segmentation()", "got": got},
                        sig, nontrivial, cls)
    ctx.monitor("seg.marker_vs_threshold", n)
    for i in range(n):
        g = got[i]
        if not isinstance(g, (int, float)) or g != expected[i]:
            return violated({"what": "marker differs from the threshold rule", "observation": i, "values": vals[i],
                             "thresholds": thr, "mode": mode, "got": g, "expected": expected[i],
                             "value_classes": rows[i]}, sig, nontrivial, cls)
    return held(sig, nontrivial, cls)


def run_case(case, ctx):
    if case["kind"] == "split":
        return _run_split(case, ctx)
    if case["kind"] == "seg":
        return _run_seg(case, ctx)
    raise M.HarnessError("unknown case kind %r" % case["kind"])


def classify(case, witness):
    return None
