"""C07 -- a returned shortest path is a real, optimal, geometrically continuous
route (DESIGN.md section 4, C07).

Deciding step: the real Network.shortest_path is run for every ordered pair
s != t of enumerated and random multigraphs whose edges carry 2..4-vertex
polylines; the returned node list and coordinates are re-validated against the
graph description (vt/oracles/graphs.py): None iff Floyd-Warshall says
unreachable; otherwise there must be an assignment of existing, traversable
edges to the consecutive node pairs whose weights sum to the Floyd-Warshall
distance AND whose polylines, oriented along travel and chained without
repeating the junction vertices, equal the returned coordinates vertex for
vertex.
"""
from __future__ import annotations

import random

from vt import gen, monitor as M
from vt.gen import held, violated
from vt.oracles import graphs as G

PROP = "C07"
RULE = ("exhaustive part: every multigraph with 1..3 nodes, 0..2 edges (quick) / 0..3 edges (thorough), weights {0,1,2}, "
        "orientations {two-way, direct, reverse}, each edge with a deterministic 2..4-vertex polyline that differs between "
        "edge slots; sampled part: random 3-edge tiny graphs and random multigraphs with 2..12 nodes / 0..40 edges, weights "
        "{0,0.5,1,2,2.5,3}, random 2..4-vertex polylines between integer-lattice node positions. Per graph, on ONE network "
        "object and in shuffled order: shortest_path(s,t) for every ordered pair s != t (ids and Node objects). "
        "Distinct = distinct (node count, edge list incl. vertex counts) signature; non-trivial = a path was returned and "
        "validated for at least one pair.")
ASSUMPTIONS = ["Floyd-Warshall over the permitted arcs is the reference for reachability and for the optimal total weight",
               "edge polylines start/end exactly at the positions of their stored source/target nodes (generator invariant)",
               "which of several optimal routes is returned is left free; only an existing consistent edge assignment is required"]
EXHAUSTIVE = {"quick": "all 4 161 multigraphs with <= 3 nodes and <= 2 edges over weights {0,1,2} x 3 orientations, every ordered pair s != t",
              "thorough": "all 104 643 multigraphs with <= 3 nodes and <= 3 edges over weights {0,1,2} x 3 orientations, every ordered pair s != t"}
CASE_LIMIT_S = 8.0

NONE_IFF = "path.none_iff_unreachable"
ROUTE = "path.walk_optimal_continuous"

F_ZERO, F_AGAINST, F_MULTI, F_PARALT = 1, 2, 4, 8


def chunks(tier, seed):
    out = []
    if tier == "quick":
        for k in range(6):
            out.append({"kind": "tiny", "max_edges": 2, "shard": k, "of": 6, "key": "tiny%d" % k})
        for k in range(6):
            out.append({"kind": "tiny_sample", "n": 250, "key": "tiny3s%d" % k})
        for k in range(18):
            out.append({"kind": "rand", "n": 45, "key": "rand%d" % k})
        for k in range(4):
            out.append({"kind": "big", "style": ["serpentine", "streets", "serpentine", "streets"][k],
                        "size": [1150, 260, 1600, 420][k], "key": "big%d" % k})
    else:
        for k in range(10):
            out.append({"kind": "big", "style": ["serpentine", "streets"][k % 2],
                        "size": [1150, 260, 1600, 420, 2500, 700, 1300, 330, 2000, 900][k], "key": "big%d" % k})
        for k in range(30):
            out.append({"kind": "tiny", "max_edges": 3, "shard": k, "of": 30, "key": "tiny%d" % k})
        for k in range(30):
            out.append({"kind": "rand", "n": 250, "key": "rand%d" % k})
    return out


def floors(tier):
    q = tier == "quick"
    return {"monitors": {NONE_IFF: 50000, ROUTE: 20000},
            "counters": {"history_call:dist_cut": 2000, "history_call:sub_network": 1000, "history_call:all_pairs_cut": 1000,
                         "path_request_with_output_dict": 5000, "path_request_with_cut": 3000,
                         "network_prepared_with_a_finite_radius": 300,
                         "returned_route_modified_by_the_caller": 5000,
                         "history_call:failing_request": 1000},
            "classes": {"self_loop": 200, "parallel_edges": 200, "parallel_diff_weight": 100, "zero_weight": 200,
                        "orient_two_way": 200, "orient_direct": 200, "orient_reverse": 200,
                        "unreachable_pair": 200, "tie": 100, "multi_vertex_geom": 500,
                        "route_zero_weight_edge": 300, "route_against_storage": 500, "route_multi_vertex_edge": 500,
                        "route_parallel_alternative": 200, "route_multi_hop": 300, "route_4plus_edges": 50 if q else 500,
                        "nodes_10_to_12": 50 if q else 500, "edges_25_to_40": 30 if q else 300,
                        "network_of_hundreds_of_nodes": 4, "route_of_more_than_1000_hops": 2, "edges_reweighted_in_place": 300,
                        "identifiers:digits": 100, "identifiers:int": 100},
            "distinct_nontrivial": 2000 if q else 50000}


def setup(ctx):
    pass


def cases(chunk):
    rng = gen.rng_for(PROP, chunk)
    kind = chunk["kind"]
    if kind == "tiny":
        for i, (n, comb) in enumerate(G.tiny_space(3, chunk["max_edges"], G.W3)):
            if i % chunk["of"] == chunk["shard"]:
                yield {"kind": "tiny", "n": n, "edges": [list(c) for c in comb], "ord": i}
    elif kind == "tiny_sample":
        for j in range(chunk["n"]):
            n = rng.choice([2, 3, 3, 3])
            types = G.edge_types(n, G.W3)
            comb = sorted(rng.choice(types) for _ in range(3))
            yield {"kind": "tiny", "n": n, "edges": [list(c) for c in comb], "ord": rng.randrange(1 << 30)}
    elif kind == "rand":
        for j in range(chunk["n"]):
            if j % 5 == 0:
                spec = G.random_graph(rng, nmin=10, nmax=12, mmax=40, geom=True)
            else:
                spec = G.random_graph(rng, nmin=2, nmax=12, mmax=40, geom=True)
            yield {"kind": "rand", "g": spec, "ord": rng.randrange(1 << 30)}
    elif kind == "big":
        # larger scale: a long street whose end-to-end route has more than a thousand hops; a street network of
        # hundreds of nodes (requests sampled)
        n = chunk["size"]
        spec = G.serpentine(rng, n) if chunk["style"] == "serpentine" else G.big_graph(rng, n, 5 * n, geom=True)
        yield {"kind": "big", "g": spec, "ord": rng.randrange(1 << 30), "limit_x": 10}
    else:
        raise M.HarnessError("unknown chunk kind %r" % kind)


def _spec_of(case):
    if case["kind"] == "tiny":
        spec = G.tiny_spec(case["n"], [tuple(e) for e in case["edges"]], geom=True)
    else:
        spec = case["g"]
    if case["kind"] == "rand" and case["ord"] % 5 in (2, 4):
        # other legal spellings of the identifiers: the strings "1".."12" (every character of "12" is itself an
        # identifier), Python ints
        spec = dict(spec)
        spec["id_style"] = "digits" if case["ord"] % 5 == 2 else "int"
    if case["ord"] % 4 == 1:
        # realistic magnitudes: the same network in projected map coordinates (its edges, a few metres to tens of
        # metres long, are tiny next to the coordinates) and with some weights of millions
        ox, oy = 652000.0, 6862000.0
        spec = dict(spec)
        spec["pos"] = [[p[0] + ox, p[1] + oy] for p in spec["pos"]]
        edges = []
        for k, e in enumerate(spec["edges"]):
            e = list(e)
            if len(e) > 4 and e[4]:
                e[4] = [[q[0] + ox, q[1] + oy] for q in e[4]]
            if (k + case["ord"]) % 3 == 0:
                e[2] = e[2] + 2000000.0
            edges.append(e)
        spec["edges"] = edges
        spec["map_scale"] = True
    return spec


# --------------------------------------------------------------------------
def _pt_eq(p, q):
    return abs(p[0] - q[0]) <= 1e-9 and abs(p[1] - q[1]) <= 1e-9


def _candidates(spec, A, a, b):
    """(weight, polyline oriented a->b, flags) for every edge traversable a->b"""
    out = []
    ws = {w for (x, y, w, _i, _f) in A if x == a and y == b}
    for (x, y, w, i, along) in A:
        if x == a and y == b:
            g = G.polyline(spec, i)
            if not along:
                g = g[::-1]
            fl = 0
            if w == 0:
                fl |= F_ZERO
            if not along:
                fl |= F_AGAINST
            if len(g) > 2:
                fl |= F_MULTI
            if len(ws) > 1:
                fl |= F_PARALT
            out.append((w, g, fl))
    return out


def judge_route(spec, A, pidx, coords, dist):
    """None, flags  if some assignment of traversable edges to the consecutive
    node pairs has total weight == dist and chained geometry == coords;
    otherwise (problem, details), 0."""
    steps = list(zip(pidx, pidx[1:]))
    cands = []
    for (a, b) in steps:
        c = _candidates(spec, A, a, b)
        if not c:
            return ("consecutive nodes are not joined by an edge traversable in that direction",
                    {"from": a, "to": b}), 0
        cands.append(c)
    # weights alone: is there an assignment summing to the shortest distance?
    sums = {0.0}
    for c in cands:
        sums = {s + w for s in sums for (w, _g, _f) in c}
    if not any(G.close(s, dist) for s in sums):
        return ("no choice of edges along the node list sums to the shortest distance",
                {"achievable_sums": sorted(sums)[:8], "shortest_distance": dist}), 0
    # weights and geometry together
    if not coords or not _pt_eq(coords[0], spec["pos"][pidx[0]]):
        return ("geometry does not start at the source node's position",
                {"first_vertex": coords[0] if coords else None, "source_position": spec["pos"][pidx[0]]}), 0
    if not _pt_eq(coords[-1], spec["pos"][pidx[-1]]):
        return ("geometry does not end at the target node's position",
                {"last_vertex": coords[-1], "target_position": spec["pos"][pidx[-1]]}), 0
    # (a) geometry alone: vertex offsets reachable by chaining some traversable edge per step
    offs = {0}
    for k, c in enumerate(cands):
        nxt = set()
        for off in offs:
            for (w, g, f) in c:
                L = len(g)
                if off + L - 1 < len(coords) and all(_pt_eq(coords[off + j], g[j]) for j in range(L)):
                    nxt.add(off + L - 1)
        if not nxt:
            return ("geometry is not the chained polylines of the edges along the node list",
                    {"step": k, "from": steps[k][0], "to": steps[k][1], "vertex_offsets_reached": sorted(offs)[:4],
                     "expected_one_of": [g for (_w, g, _f) in c][:3]}), 0
        offs = nxt
    if (len(coords) - 1) not in offs:
        return ("geometry has vertices beyond the chained edge polylines",
                {"n_vertices": len(coords), "chain_ends_at": sorted(offs)[:4]}), 0
    # (b) geometry and weights together; weights are non-negative, so partial sums above the
    #     shortest distance can be dropped (no cap on the number of chains -> no false alarm)
    lim = dist + G.TOL * max(1.0, dist)
    states = {(0, 0.0): 0}
    for k, c in enumerate(cands):
        new = {}
        for (off, ws), fl in states.items():
            for (w, g, f) in c:
                L = len(g)
                if ws + w <= lim and off + L - 1 < len(coords) and \
                        all(_pt_eq(coords[off + j], g[j]) for j in range(L)):
                    new.setdefault((off + L - 1, ws + w), fl | f)
        states = new
        if not states:
            break
    good = [fl for (off, ws), fl in states.items() if off == len(coords) - 1 and G.close(ws, dist)]
    if not good:
        return ("the edges whose polylines make up the geometry do not sum to the shortest distance",
                {"shortest_distance": dist}), 0
    return None, good[0]


def run_case(case, ctx):
    spec = _spec_of(case)
    n = spec["n"]
    A = G.arcs(spec)
    big = case["kind"] == "big"
    if big:
        D = G.LazyRows(n, A)
        cls = {"network_of_hundreds_of_nodes", "style:" + spec.get("style", "")}
    else:
        D = G.floyd_warshall(n, A)
        cls = G.graph_classes(spec, D)
    if spec.get("id_style"):
        cls.add("identifiers:" + spec["id_style"])
    if n >= 10:
        cls.add("nodes_10_to_12")
    if len(spec["edges"]) >= 25:
        cls.add("edges_25_to_40")
    sig = G.sig_of(spec, "t" if case["kind"] == "tiny" else "r")
    judged_paths = 0

    def bad(w):
        w["graph"] = {"n": n, "pos": spec["pos"], "edges": spec["edges"]}
        return violated(w, sig, True, sorted(cls))

    net, ids, nodes, _e = G.build_network(spec, random.Random(case["ord"] + 1) if case["ord"] % 3 == 0 else None)
    hrng = random.Random(case["ord"])
    if big:
        ends = [(0, n - 1), (n - 1, 0), (1, n - 2), (n // 2, 0)]
        pairs = ends + [(hrng.randrange(n), hrng.randrange(n)) for _ in range(26)]
        pairs = [(a, b) for a, b in pairs if a != b]
        finite = sorted({D[a][b] for a, _b in pairs[:6] for b in range(0, n, 7) if D[a][b] != G.INF})
    else:
        pairs = [(s, t) for s in range(n) for t in range(n) if s != t]
        hrng.shuffle(pairs)
        finite = sorted({D[a][b] for a in range(n) for b in range(n) if D[a][b] != G.INF})
    # the documented output_dict option: one dictionary shared by the requests of this case; for a third of the
    # cases it is filled beforehand by all_shortest_distances(output_dict=...) / prepare()
    shared = {}
    use_dict = case["ord"] % 3
    if use_dict == 1:
        M.call(net.all_shortest_distances, 1e300, shared)
    elif use_dict == 2 and case["ord"] % 2 == 0:
        M.call(net.prepare, 1e300, False)
        shared = net.DISTANCES if isinstance(getattr(net, "DISTANCES", None), dict) else shared
    elif use_dict == 2 and finite and not big:
        # the network was prepared with a FINITE radius (the table then holds the near pairs only); the path requests
        # that follow -- some with their own, larger cut-off -- must not take the table for complete
        M.call(net.prepare, finite[len(finite) // 3] + 0.25 * (case["ord"] % 4 == 1), False)
        ctx.count("network_prepared_with_a_finite_radius")
        use_dict = 0
    for i, (s, t) in enumerate(pairs):
        # call history on the same Network object: other routing requests (bounded, target-less, from the same or
        # another source) are made between the judged path requests; whatever labels they leave must not be reused
        if hrng.random() < 0.5:
            src = s if hrng.random() < 0.7 else hrng.randrange(n)
            cut = hrng.choice(finite) + hrng.choice([0.0, 0.0, 0.25, -0.25]) if finite else 1.0
            kind_h = hrng.choice(["dist_cut", "dist_cut", "dist_all", "dist_pair", "sub_network", "all_pairs_cut",
                                  "failing_request"])
            if big and kind_h in ("sub_network", "all_pairs_cut"):
                kind_h = "dist_cut"
            if kind_h == "dist_cut":
                hr = M.call(net.shortest_distance, ids[src], None, cut)
            elif kind_h == "dist_all":
                hr = M.call(net.shortest_distance, ids[src])
            elif kind_h == "dist_pair":
                hr = M.call(net.shortest_distance, ids[src], ids[hrng.randrange(n)])
            elif kind_h == "failing_request":
                # error path: requests that cannot be honoured and stop inside the search (cut=None cannot be
                # compared, an identifier the network does not know); whatever they raise is not judged
                which = hrng.randrange(3)
                if which == 0:
                    hr = M.call(net.shortest_path, ids[src], ids[hrng.randrange(n)], None)
                elif which == 1:
                    hr = M.call(net.shortest_distance, ids[src], "no-such-node")
                else:
                    hr = M.call(net.shortest_distance, ids[src], None, None)
            elif kind_h == "sub_network":
                hr = M.call(net.sub_network, ids[src], cut, "TOPOLOGIC", False)
            else:
                hr = M.call(net.all_shortest_distances, cut)
                if hrng.random() < 0.5:            # ... whose last processed source is then followed by a request
                    last = M.call(net.getNodesId)
                    if not M.is_raised(last) and len(last):
                        s2 = ids.index(last[-1]) if last[-1] in ids else s
                        others = [b for b in range(n) if b != s2]
                        if others:
                            s, t = s2, hrng.choice(others)
            ctx.count("history_call:" + kind_h)
            if M.is_raised(hr):
                ctx.count("history_call_raised:" + kind_h)
        if i % 5 == 3 and D[s][t] != G.INF:
            # the documented cut option with a cut-off that does not exclude the target: the exact distance, a
            # little more, much more
            cutv = D[s][t] + hrng.choice([0.0, 0.25, 1.0, D[s][t] + 3.0])
            tr = M.call(net.shortest_path, ids[s], ids[t], cutv)
            ctx.count("path_request_with_cut")
        elif use_dict and i % 2 == 0:
            tr = M.call(net.shortest_path, ids[s], ids[t], 1e300, shared)
            ctx.count("path_request_with_output_dict")
        elif i % 3 == 0:
            tr = M.call(net.shortest_path, nodes[s], nodes[t])
        else:
            tr = M.call(net.shortest_path, ids[s], ids[t])
        ctx.monitor(NONE_IFF)
        d = D[s][t]
        if M.is_raised(tr):
            return bad({"what": "shortest_path raised", "s": ids[s], "t": ids[t], "true_distance": d, "raised": tr,
                        "call_index": i})
        if d == G.INF:
            if tr is not None:
                return bad({"what": "a path is returned although the target is unreachable", "s": ids[s], "t": ids[t],
                            "path": repr(getattr(tr, "path", None)), "call_index": i})
            continue
        if tr is None:
            return bad({"what": "no path returned although the target is reachable", "s": ids[s], "t": ids[t],
                        "true_distance": d, "call_index": i})
        ctx.monitor(ROUTE)
        path = getattr(tr, "path", None)
        coords = M.call(G.track_coords, tr)
        if M.is_raised(coords):
            return bad({"what": "returned object has no readable coordinates", "s": ids[s], "t": ids[t], "raised": coords})
        if not isinstance(path, (list, tuple)) or len(path) < 2 or any(p not in ids for p in path):
            return bad({"what": "returned path has no valid node list", "s": ids[s], "t": ids[t], "path": repr(path)[:300],
                        "true_distance": d, "call_index": i})
        if path[0] != ids[s] or path[-1] != ids[t]:
            return bad({"what": "node list does not run from the source to the target", "s": ids[s], "t": ids[t],
                        "path": list(path), "true_distance": d, "call_index": i})
        pidx = [ids.index(p) for p in path]
        prob, flags = judge_route(spec, A, pidx, coords, d)
        if prob:
            return bad({"what": prob[0], "details": prob[1], "s": ids[s], "t": ids[t], "path": list(path),
                        "coords": coords, "true_distance": d, "call_index": i})
        judged_paths += 1
        # aliasing: the returned route belongs to the caller, who may move it, re-time it, give it features
        if i % 2 == 0:
            M.scribble(tr)
            ctx.count("returned_route_modified_by_the_caller")
        if flags & F_ZERO:
            cls.add("route_zero_weight_edge")
        if flags & F_AGAINST:
            cls.add("route_against_storage")
        if flags & F_MULTI:
            cls.add("route_multi_vertex_edge")
        if flags & F_PARALT:
            cls.add("route_parallel_alternative")
        if len(path) >= 3:
            cls.add("route_multi_hop")
        if len(path) >= 5:
            cls.add("route_4plus_edges")
        if len(path) > 1000:
            cls.add("route_of_more_than_1000_hops")
            ctx.count("route_of_more_than_1000_hops")
    # derived object: a sub-network extracted from this network (sharing its node and edge objects) answers path
    # requests for ITS graph; so does the parent afterwards
    if n >= 2 and case["ord"] % 3 == 0 and finite and not big:
        s0 = hrng.randrange(n)
        cutv = hrng.choice(finite + [1e300]) + 0.25
        sub = M.call(net.sub_network, ids[s0], cutv, "TOPOLOGIC", False)
        if not M.is_raised(sub):
            V = [v for v in range(n) if D[s0][v] != G.INF and D[s0][v] <= cutv]
            keep = [k for k, e in enumerate(spec["edges"]) if e[0] in V and e[1] in V]
            sub_spec = dict(spec)
            sub_spec["edges"] = [spec["edges"][k] for k in keep]
            Asub = G.arcs(sub_spec)
            Dsub = G.floyd_warshall(n, Asub)
            Vsub = sorted({e[0] for e in sub_spec["edges"]} | {e[1] for e in sub_spec["edges"]})
            sp = [(a, b) for a in Vsub for b in Vsub if a != b]
            hrng.shuffle(sp)
            for (a, b) in sp[:8]:
                for which, netw, DD, AA, specw in (("sub-network", sub, Dsub, Asub, sub_spec), ("parent network", net, D, A, spec)):
                    trp = M.call(netw.shortest_path, ids[a], ids[b])
                    ctx.monitor(NONE_IFF)
                    d = DD[a][b]
                    if M.is_raised(trp):
                        return bad({"what": "shortest_path raised on the %s (a sub-network was extracted from the network)" % which,
                                    "s": ids[a], "t": ids[b], "raised": trp})
                    if d == G.INF:
                        if trp is not None:
                            return bad({"what": "a path is returned on the %s although the target is unreachable there" % which,
                                        "s": ids[a], "t": ids[b]})
                        continue
                    if trp is None:
                        return bad({"what": "no path returned on the %s although the target is reachable there" % which,
                                    "s": ids[a], "t": ids[b], "true_distance": d, "extraction": [ids[s0], cutv]})
                    path = getattr(trp, "path", None)
                    coords = M.call(G.track_coords, trp)
                    if M.is_raised(coords) or not isinstance(path, (list, tuple)) or len(path) < 2 \
                            or any(q not in ids for q in path) or path[0] != ids[a] or path[-1] != ids[b]:
                        return bad({"what": "path on the %s has no valid node list / coordinates" % which,
                                    "s": ids[a], "t": ids[b], "path": repr(path)[:200]})
                    ctx.monitor(ROUTE)
                    prob, _fl = judge_route(specw, AA, [ids.index(q) for q in path], coords, d)
                    if prob:
                        return bad({"what": prob[0] + " (%s; a sub-network was extracted from the network)" % which,
                                    "details": prob[1], "s": ids[a], "t": ids[b], "path": list(path),
                                    "extraction": [ids[s0], cutv]})
            cls.add("sub_network_queried")
    # the caller re-weights the edges of THIS network in place (Edge.weight is how weights are given) and goes on asking
    # for routes, first from the source of the last request
    if (not big) and n >= 2 and len(spec["edges"]) >= 1 and case["ord"] % 3 == 1:
        hr = random.Random(case["ord"] + 17)
        s0 = hr.randrange(n)
        M.call(net.shortest_path, ids[s0], ids[(s0 + 1 + hr.randrange(n - 1)) % n])
        W = [e[2] for e in spec["edges"]]
        W2 = (W[1:] + W[:1]) if len(set(W)) > 1 else [w + 1.0 + k for k, w in enumerate(W)]
        spec2 = dict(spec)
        spec2["edges"] = [type(e)(list(e[:2]) + [w2] + list(e[3:])) for e, w2 in zip(spec["edges"], W2)]
        for eid, w2 in zip(_e, W2):
            net.EDGES[eid].weight = w2
        A2 = G.arcs(spec2)
        D2 = G.floyd_warshall(n, A2)
        rp = [(s0, t) for t in range(n) if t != s0] + [(hr.randrange(n), hr.randrange(n)) for _ in range(8)]
        for (a, b) in [q for q in rp if q[0] != q[1]][:12]:
            trp = M.call(net.shortest_path, ids[a], ids[b])
            d = D2[a][b]
            what, details = None, None
            if M.is_raised(trp):
                what, details = "shortest_path raised", repr(trp)
            elif d == G.INF:
                what = "a path is returned although the target is unreachable" if trp is not None else None
            elif trp is None:
                what = "no path returned although the target is reachable"
            else:
                path = getattr(trp, "path", None)
                coords = M.call(G.track_coords, trp)
                if M.is_raised(coords) or not isinstance(path, (list, tuple)) or len(path) < 2 or \
                        any(q not in ids for q in path) or path[0] != ids[a] or path[-1] != ids[b]:
                    what = "no valid node list / coordinates"
                else:
                    ctx.monitor(ROUTE)
                    prob, _f = judge_route(spec2, A2, [ids.index(q) for q in path], coords, d)
                    if prob:
                        what, details = prob[0], prob[1]
                    else:
                        judged_paths += 1
            if what:
                return bad({"what": what + " (after the caller changed the weights of the network's edges in place; judged "
                                    "against the weights as they are now)", "details": details, "s": ids[a], "t": ids[b],
                            "weights_before": W, "weights_now": W2, "true_distance_now": d})
        cls.add("edges_reweighted_in_place")
        spec, A, D = spec2, A2, D2          # what the "again" request below is judged against
    ctx.count("paths_validated", judged_paths)
    res = held(sig, judged_paths > 0, sorted(cls))

    def again():
        # the same Network object, asked again after another case (another network) was built and queried
        hr = random.Random(case["ord"] + 13)
        for _ in range(5):
            s, t = hr.randrange(n), hr.randrange(n)
            if s == t:
                continue
            tr = M.call(net.shortest_path, ids[s], ids[t])
            d = D[s][t]
            what = None
            if M.is_raised(tr):
                what = "raised"
            elif d == G.INF:
                what = "a path is returned although the target is unreachable" if tr is not None else None
            elif tr is None:
                what = "no path returned although the target is reachable"
            else:
                path = getattr(tr, "path", None)
                coords = M.call(G.track_coords, tr)
                if M.is_raised(coords) or not isinstance(path, (list, tuple)) or len(path) < 2 or \
                        any(q not in ids for q in path) or path[0] != ids[s] or path[-1] != ids[t]:
                    what = "no valid node list / coordinates"
                else:
                    prob, _f = judge_route(spec, A, [ids.index(q) for q in path], coords, d)
                    what = prob[0] if prob else None
            if what:
                return {"what": "shortest_path on a network that was queried before, asked again after ANOTHER network "
                                "was built and queried in between: " + what, "s": ids[s], "t": ids[t], "true_distance": d,
                        "graph": {"n": n, "pos": spec["pos"], "edges": spec["edges"]}}
        return None
    if not big:
        res["again"] = again
    return res


def classify(case, witness):
    return None
