"""C08 -- the grid spatial index has no false negatives (DESIGN.md section 4, C08).

Deciding monitors (all observe the real tracklib code):

* contract on ``SpatialIndex._SpatialIndex__cellsCrossSegment``: every grid cell
  whose *open* unit square (shrunk by 1e-9) is crossed by the segment -- decided
  by Liang-Barsky clipping -- is in the returned list;
* contract on ``SpatialIndex.groundDistanceToUnits``: the unit count times the
  smaller cell side reaches the ground distance (what a neighbourhood of u
  cells must cover for a disc of radius d);
* offline oracles over the results of ``request(coord)``, ``request([c1,c2])``,
  ``request(track)`` and ``neighborhood(coord, unit=groundDistanceToUnits(d))``:
  a feature is *demanded* only when one of its legs passes through the open,
  1e-9-shrunk rectangle of a cell (point/segment/track queries) or has a point
  within d - 1e-9 of the query (neighbourhood).  Extra candidates are ignored.
  A query point on a cell border may be answered from any cell whose closed,
  1e-9-widened footprint contains it.
"""
from __future__ import annotations

import math

from vt import gen, monitor as M
from vt.gen import held, violated, ood
from vt.oracles import geom as G

PROP = "C08"
RULE = ("one case = one index (TrackCollection or Network; 1..5 features (up to 13 one-leg features in the corner profile) of 2..6 vertices drawn on a half-integer lattice, "
        "at random, or random then snapped to the predicted grid lines; resolution None / square / non-square; margin in "
        "{0, 0.05, 0.1, 0.5}) plus a batch of queries: request(coord) at cell centres, grid lines, grid corners, the outer "
        "border, feature vertices and random points; request([c1,c2]); request(track); neighborhood(coord, "
        "unit=groundDistanceToUnits(d)) for d in {0, 0.3 cell, k cells, 1, 2.2, 5, grid size}.  The enumerated part indexes "
        "every segment between two points of the half-integer lattice on [0,3]^2 together with a frame and asks all 49 "
        "lattice points.  Distinct = distinct (kind, resolution, margin, feature coordinates); non-trivial = the grid has at "
        "least 2 cells and at least one query for which the oracle demanded at least one feature.")
ASSUMPTIONS = ["Liang-Barsky clipping and the point-to-polyline distance of vt/oracles/geom.py are correct (stdlib floats)",
               "the grid geometry (xmin, ymin, dX, dY, csize, lsize) published by the index defines 'the cell containing a point'; "
               "it is checked to tile the extent and the extent to contain every feature",
               "features touching a cell only on its border, or farther than d - 1e-9, are never demanded",
               "zero-width/height extents and cells larger than the extent are out of domain (no grid exists)"]
EXHAUSTIVE = {"quick": "all 1 225 segments (incl. zero-length) between two points of the half-integer lattice on [0,3]^2, indexed "
                       "with a frame polyline at resolution (1,1), margin 0, each queried at all 49 lattice points "
                       "(request + 4 neighbourhood radii) and as a segment query",
              "thorough": "the same 1 225 segments at resolution (1,1) margin 0, resolution (1.5,1) margin 0 and resolution (1,1) "
                          "margin 0.5 (grid lines on half-integers), each queried at all 49 lattice points and as a segment query"}
SOFT_MONITORS = ['cellsCrossSegment.covers']      # contracts on private helpers: diagnostics, see vt/runner.py
CASE_LIMIT_S = 60.0

EPS = 1e-9                      # shrink / widen / distance slack, ground units
EPS_U = 1e-9                    # the same in grid units (contract on __cellsCrossSegment)
MARGINS = [0, 0.05, 0.1, 0.5]
RES_SQUARE = [[1, 1], [2, 2], [0.5, 0.5], [1.5, 1.5]]
RES_NONSQUARE = [[1, 3], [3, 1], [0.7, 2.3], [2.3, 0.7], [1.5, 1]]
PROFILES = ["lattice", "random", "gridsnap"]

N_ENUM_SHARDS = 8
FRAME = [[0, 0], [3, 0], [3, 3], [0, 3]]


# --------------------------------------------------------------------------
def chunks(tier, seed):
    out = []
    enum_cfgs = [("r1m0", [1, 1], 0)]
    if tier == "thorough":
        enum_cfgs += [("r15m0", [1.5, 1], 0), ("r1m05", [1, 1], 0.5)]
    for name, res, m in enum_cfgs:
        for k in range(N_ENUM_SHARDS):
            out.append({"kind": "enum", "shard": k, "of": N_ENUM_SHARDS, "res": res, "margin": m,
                        "key": "enum-%s-%d" % (name, k)})
    nrand = 24 if tier == "quick" else 48
    per = 60 if tier == "quick" else 420
    for k in range(nrand):
        out.append({"kind": "rand", "n": per, "key": "rand%d" % k, "idx": k})
    return out


def floors(tier):
    q = tier == "quick"
    return {"monitors": {"cellsCrossSegment.covers": 20000 if q else 200000,
                         "groundDistanceToUnits.covers": 5000 if q else 50000,
                         "request_point.no_false_negative": 10000 if q else 100000,
                         "request_segment.no_false_negative": 3000 if q else 30000,
                         "request_track.no_false_negative": 1000 if q else 10000,
                         "neighborhood.no_false_negative": 5000 if q else 50000,
                         "grid.tiles_extent": 1000 if q else 10000},
            "classes": {"tc": 300, "net": 300, "res_none": 20, "res_square": 200, "res_nonsquare": 200,
                        "margin_0": 100, "margin_0.05": 100, "margin_0.1": 100, "margin_0.5": 100,
                        "vertex_on_cell_border": 200, "vertex_on_cell_corner": 200, "vertex_on_outer_border": 200,
                        "query_on_cell_border": 200, "query_on_cell_corner": 200, "query_on_outer_border": 200,
                        "query_on_upper_outer_border": 100, "nonsquare_neighbourhood_demanded": 100,
                        "segment_query_along_gridline": 30, "zero_length_leg": 30,
                        "leg_on_outer_border": 50, "leg_on_upper_outer_border": 25,
                        "vertex_on_border_ulps_from_corner": 40},
            "distinct_nontrivial": 1000 if q else 10000}


# --------------------------------------------------------------------------
# contracts on the real functions
def cellsCrossSegment_covers(self, coord1, coord2, result):
    """Every cell whose open (shrunk) unit square the segment crosses is listed."""
    try:
        got = set((c[0], c[1]) for c in result)
    except Exception:
        return False
    a = (coord1[0], coord1[1])
    b = (coord2[0], coord2[1])
    i0 = max(int(math.floor(min(a[0], b[0]))) - 1, 0)
    i1 = min(int(math.floor(max(a[0], b[0]))) + 1, self.csize - 1)
    j0 = max(int(math.floor(min(a[1], b[1]))) - 1, 0)
    j1 = min(int(math.floor(max(a[1], b[1]))) + 1, self.lsize - 1)
    for i in range(i0, i1 + 1):
        for j in range(j0, j1 + 1):
            if (i, j) in got:
                continue
            if G.segment_crosses_shrunk_box(a, b, i, j, i + 1, j + 1, EPS_U):
                LAST_BROKEN.clear()
                LAST_BROKEN.update({"coord1": a, "coord2": b, "returned": sorted(got), "missing_cell": (i, j),
                                    "end_on_border_near_corner": _end_on_border_near_corner(a, b, i, j)})
                return False
    return True


LAST_BROKEN = {}


def _end_on_border_near_corner(a, b, i, j):
    """Input predicate of finding C08:leg-end-on-border-near-corner (grid units): an end point of the segment lies
    exactly on a border line of the missing cell and within 1e-9 of -- but not at -- one of its corners."""
    for e in (a, b):
        for k, (lo, other_lo) in enumerate(((i, j), (j, i))):
            on = e[k] == lo or e[k] == lo + 1
            o = e[1 - k]
            near = min(abs(o - other_lo), abs(o - (other_lo + 1)))
            if on and 0 < near <= 1e-9:
                return True
    return False


def groundDistanceToUnits_covers(self, distance, result):
    """u cells of the smaller side reach the ground distance."""
    try:
        if result != int(result) or result < 0:
            return False
    except Exception:
        return False
    return result * min(self.dX, self.dY) >= distance - EPS


_installed = False


def setup(ctx):
    global _installed
    if _installed:
        return
    from tracklib.core.spatial_index import SpatialIndex
    name = "_SpatialIndex__cellsCrossSegment"
    orig = SpatialIndex.__dict__[name]
    setattr(SpatialIndex, name, M.ensure(orig, cellsCrossSegment_covers, "cellsCrossSegment.covers"))
    orig2 = SpatialIndex.__dict__["groundDistanceToUnits"]
    SpatialIndex.groundDistanceToUnits = M.ensure(orig2, groundDistanceToUnits_covers, "groundDistanceToUnits.covers")
    _installed = True


# --------------------------------------------------------------------------
# generator side: prediction of the grid (only used to aim vertices and queries at
# borders; the classes reported are measured on the real index afterwards)
def _predict(tracks, res, margin):
    xs = [p[0] for t in tracks for p in t]
    ys = [p[1] for t in tracks for p in t]
    bx0, bx1, by0, by1 = min(xs), max(xs), min(ys), max(ys)
    dx, dy = bx1 - bx0, by1 - by0
    x0, x1 = bx0 - margin * dx, bx1 + margin * dx
    y0, y1 = by0 - margin * dy, by1 + margin * dy
    ax, ay = x1 - x0, y1 - y0
    if ax <= 0 or ay <= 0:
        return None
    if res is None:
        r = max(ax, ay) / 100
        cs, ls = int(ax / r), int(ay / r)
    else:
        cs, ls = int(ax / res[0]), int(ay / res[1])
    if cs <= 0 or ls <= 0:
        return None
    return {"x0": x0, "x1": x1, "y0": y0, "y1": y1, "cs": cs, "ls": ls, "dX": ax / cs, "dY": ay / ls,
            "bx0": bx0, "bx1": bx1, "by0": by0, "by1": by1}


def _gx(P, i):
    return P["x1"] if i >= P["cs"] else P["x0"] + i * P["dX"]


def _gy(P, j):
    return P["y1"] if j >= P["ls"] else P["y0"] + j * P["dY"]


def _walk(rng, profile, W, H, nv):
    if profile == "lattice":
        x, y = rng.randint(0, 2 * W) / 2, rng.randint(0, 2 * H) / 2
    else:
        x, y = rng.uniform(0, W), rng.uniform(0, H)
    pts = [[x, y]]
    for _ in range(nv - 1):
        mode = rng.random()
        if profile == "lattice":
            sx, sy = rng.randint(-6, 6) / 2, rng.randint(-6, 6) / 2
        else:
            sx, sy = rng.uniform(-3.5, 3.5), rng.uniform(-3.5, 3.5)
        if mode < 0.15:
            sx = 0                      # vertical leg
        elif mode < 0.30:
            sy = 0                      # horizontal leg
        elif mode < 0.36:
            sx = sy = 0                 # zero-length leg
        elif mode < 0.44:
            sx, sy = sx * 3, sy * 3     # long leg
        x = min(max(x + sx, 0), W)
        y = min(max(y + sy, 0), H)
        pts.append([x, y])
    return pts


def _point_candidates(rng, P, tracks, n):
    """n query points inside the predicted extent, biased to borders/corners."""
    out = []
    cs, ls = P["cs"], P["ls"]
    for _ in range(n):
        r = rng.random()
        i, j = rng.randint(0, cs), rng.randint(0, ls)
        ux, uy = rng.uniform(P["x0"], P["x1"]), rng.uniform(P["y0"], P["y1"])
        if r < 0.18:        # cell centre
            p = [P["x0"] + (min(i, cs - 1) + 0.5) * P["dX"], P["y0"] + (min(j, ls - 1) + 0.5) * P["dY"]]
        elif r < 0.30:      # on a vertical grid line
            p = [_gx(P, i), uy]
        elif r < 0.42:      # on a horizontal grid line
            p = [ux, _gy(P, j)]
        elif r < 0.56:      # grid corner
            p = [_gx(P, i), _gy(P, j)]
        elif r < 0.66:      # outer border
            k = rng.randrange(4)
            p = [[P["x0"], uy], [P["x1"], uy], [ux, P["y0"]], [ux, P["y1"]]][k]
            if rng.random() < 0.5:
                p = [p[0] if k < 2 else _gx(P, i), p[1] if k >= 2 else _gy(P, j)]
        elif r < 0.71:      # outer corner
            p = [rng.choice([P["x0"], P["x1"]]), rng.choice([P["y0"], P["y1"]])]
        elif r < 0.83:      # feature vertex
            t = rng.choice(tracks)
            p = list(rng.choice(t))
        elif r < 0.90:      # half-integer lattice point inside the extent
            p = [math.floor(ux * 2) / 2, math.floor(uy * 2) / 2]
            if not (P["x0"] <= p[0] <= P["x1"] and P["y0"] <= p[1] <= P["y1"]):
                p = [ux, uy]
        elif r < 0.94:      # a hair beside a grid line (still inside the extent)
            p = [math.nextafter(_gx(P, i), rng.choice([-math.inf, math.inf])),
                 math.nextafter(_gy(P, j), rng.choice([-math.inf, math.inf]))]
            if not (P["x0"] <= p[0] <= P["x1"] and P["y0"] <= p[1] <= P["y1"]):
                p = [ux, uy]
        else:
            p = [ux, uy]
        out.append(p)
    return out


def _border_tracks(rng):
    """Features whose only legs near the top/right side lie *on* that side of the bounding box (margin 0: on the
    outer border of the extent), for an extent whose size is not a tidy multiple of the cell size."""
    res = rng.choice(RES_SQUARE + RES_NONSQUARE + [None])
    for _ in range(400):
        ox, oy = rng.choice([0, 0, rng.uniform(-5, 5)]), rng.choice([0, 0, rng.uniform(-5, 5)])
        big = max(res) if res else 1
        if rng.random() < 0.5:
            W, H = rng.randint(int(8 * big), int(8 * big) + 24) / 2, rng.randint(int(8 * big), int(8 * big) + 24) / 2
        else:
            W, H = rng.uniform(4 * big, 4 * big + 12), rng.uniform(4 * big, 4 * big + 12)
        low = [[ox, oy]]
        for _k in range(rng.randint(1, 3)):
            low.append([ox + rng.uniform(0, 0.6) * W, oy + rng.uniform(0, 0.6) * H])
        xa, xb = rng.uniform(0.02, 0.3) * W, rng.uniform(0.7, 1) * W
        ya, yb = rng.uniform(0.02, 0.3) * H, rng.uniform(0.7, 1) * H
        top = [[ox + xa, oy + H], [ox + xb, oy + H]]
        right = [[ox + W, oy + ya], [ox + W, oy + yb]]
        if rng.random() < 0.3:
            top.append([ox + W, oy + H])
        tracks = [low, top, right]
        rng.shuffle(tracks)
        P = _predict(tracks, res, 0)
        if P is None:
            continue
        if (P["x1"] - P["x0"]) / P["dX"] > P["cs"] or (P["y1"] - P["y0"]) / P["dY"] > P["ls"] or rng.random() < 0.02:
            return tracks, res
    return tracks, res


def _corner_tracks(rng):
    """A diagonal frame plus up to twelve one-leg features, each running from the inside of a cell to a point on the
    border of that cell one or two ulps away from one of its corners."""
    res = rng.choice(RES_SQUARE + RES_NONSQUARE)
    margin = rng.choice(MARGINS)
    big = max(res)
    W, H = rng.uniform(3 * big, 3 * big + 9), rng.uniform(3 * big, 3 * big + 9)
    if rng.random() < 0.4:
        W, H = float(round(W)), float(round(H))
    ox, oy = rng.choice([0, rng.uniform(-5, 5)]), rng.choice([0, rng.uniform(-5, 5)])
    frame = [[ox, oy], [ox + W, oy + H]]
    P = _predict([frame], res, margin)
    tracks = [frame]
    if P is None:
        return tracks, res, margin
    for _ in range(80):
        if len(tracks) >= 13:
            break
        i, j = rng.randrange(P["cs"]), rng.randrange(P["ls"])
        ci, cj = i + rng.randrange(2), j + rng.randrange(2)
        c = [_gx(P, ci), _gy(P, cj)]
        k = rng.randrange(2)
        for _n in range(rng.randint(1, 2)):
            c[k] = math.nextafter(c[k], rng.choice([-math.inf, math.inf]))
        q = [P["x0"] + (i + rng.uniform(0.05, 0.95)) * P["dX"], P["y0"] + (j + rng.uniform(0.05, 0.95)) * P["dY"]]
        if all(P["bx0"] < v[0] < P["bx1"] and P["by0"] < v[1] < P["by1"] for v in (c, q)):
            tracks.append([q, c] if rng.random() < 0.5 else [c, q])
    return tracks, res, margin


def _dense_tracks(rng):
    """A densely sampled log: 500+ vertices spaced a fraction of a cell apart, meandering (so that it wanders in and
    out of cells between vertices that are several vertices apart), plus one or two ordinary features."""
    res = rng.choice(RES_SQUARE + RES_NONSQUARE)
    cell = min(res)
    npts = rng.choice([501, 640, 900, 1500])
    h = rng.choice([0.1, 0.2, 0.3, 0.45]) * cell
    om = rng.uniform(0.2, 0.9)
    x, y, th = 0.0, 0.0, rng.uniform(0, 2 * math.pi)
    pts = []
    for i in range(npts):
        pts.append([x, y])
        th += rng.uniform(-0.2, 0.2) + 0.7 * math.sin(i * om)
        x += h * math.cos(th)
        y += h * math.sin(th)
    mx, my = min(p[0] for p in pts), min(p[1] for p in pts)
    pts = [[p[0] - mx, p[1] - my] for p in pts]
    W, H = max(p[0] for p in pts), max(p[1] for p in pts)
    tracks = [pts] + [_walk(rng, "random", W, H, rng.randint(2, 5)) for _ in range(rng.randint(0, 2))]
    return tracks, res, rng.choice(MARGINS)


def _gen_rand_case(rng, force=None):
    force = force or {}
    if force.get("dense"):
        tracks, res, margin = _dense_tracks(rng)
        force = {"res": res, "margin": margin, "tracks": tracks, "profile": "dense", "kind": force.get("kind")}
    if force.get("border"):
        tracks, res = _border_tracks(rng)
        force = {"res": res, "margin": 0, "tracks": tracks, "profile": "border"}
    if force.get("corner"):
        tracks, res, margin = _corner_tracks(rng)
        force = {"res": res, "margin": margin, "tracks": tracks, "profile": "corner"}
    kind = force.get("kind") or rng.choice(["tc", "net"])
    profile = force.get("profile") or rng.choice(PROFILES)
    margin = force["margin"] if "margin" in force else rng.choice(MARGINS)
    r = rng.random()
    if "res" in force:
        res = force["res"]
    elif r < 0.07:
        res = None
    elif r < 0.50:
        res = rng.choice(RES_SQUARE)
    else:
        res = rng.choice(RES_NONSQUARE)
    for _attempt in range(20):
        big = max(res) if res else 1
        lo = int(math.ceil(2 * big)) if rng.random() < 0.97 else 1
        W, H = rng.randint(max(lo, 2), max(lo, 2) + 9), rng.randint(max(lo, 2), max(lo, 2) + 9)
        ntr = rng.randint(1, 5) if res is not None else rng.randint(1, 3)
        tracks = [_walk(rng, "lattice" if profile == "lattice" else "random", W, H, rng.randint(2, 6))
                  for _ in range(ntr)]
        if "tracks" in force:
            tracks = force["tracks"]
            P = _predict(tracks, res, margin)
            break
        if _attempt == 0 and rng.random() < 0.02:
            # out of domain on purpose (counted, never judged): zero width, or cells larger than the extent
            if rng.random() < 0.5 or res is None:
                for t in tracks:
                    for p in t:
                        p[0] = tracks[0][0][0]
            else:
                tracks = [[[p[0] / (4 * W) * res[0], p[1]] for p in t] for t in tracks]
            if _predict(tracks, res, margin) is None:
                return {"kind": kind, "profile": profile, "tracks": tracks, "res": res, "margin": margin,
                        "queries": []}
        P = _predict(tracks, res, margin)
        if P is None:
            continue
        if rng.random() < 0.25:
            # lay one leg on the outer border of the bounding box (with margin 0: of the extent)
            t = rng.choice(tracks)
            k = rng.randrange(len(t) - 1)
            side = rng.randrange(4)
            for p in (t[k], t[k + 1]):
                if side < 2:
                    p[0] = [P["bx0"], P["bx1"]][side]
                else:
                    p[1] = [P["by0"], P["by1"]][side - 2]
            P = _predict(tracks, res, margin)
            if P is None:
                continue
        if profile == "gridsnap":
            for t in tracks:
                for p in t:
                    if p[0] in (P["bx0"], P["bx1"]) or p[1] in (P["by0"], P["by1"]):
                        continue
                    if rng.random() < 0.6:
                        i = int(round((p[0] - P["x0"]) / P["dX"]))
                        gx = _gx(P, i)
                        if P["bx0"] < gx < P["bx1"]:
                            p[0] = gx
                    if rng.random() < 0.6:
                        j = int(round((p[1] - P["y0"]) / P["dY"]))
                        gy = _gy(P, j)
                        if P["by0"] < gy < P["by1"]:
                            p[1] = gy
            # some vertices on a grid line one or two ulps away from a grid corner
            for t in tracks:
                for m, p in enumerate(t):
                    if p[0] in (P["bx0"], P["bx1"]) or p[1] in (P["by0"], P["by1"]) or rng.random() > 0.25:
                        continue
                    i = int(round((p[0] - P["x0"]) / P["dX"]))
                    j = int(round((p[1] - P["y0"]) / P["dY"]))
                    gx, gy = _gx(P, i), _gy(P, j)
                    if not (P["bx0"] < gx < P["bx1"] and P["by0"] < gy < P["by1"]):
                        continue
                    p[0], p[1] = gx, gy
                    k = rng.randrange(2)
                    for _n in range(rng.randint(1, 2)):
                        p[k] = math.nextafter(p[k], rng.choice([-math.inf, math.inf]))
                    # often make the adjoining leg a short one that stays inside one of the four cells around
                    nb = [q for q in (t[m - 1] if m else None, t[m + 1] if m + 1 < len(t) else None) if q is not None
                          and q[0] not in (P["bx0"], P["bx1"]) and q[1] not in (P["by0"], P["by1"])]
                    if nb and rng.random() < 0.7:
                        q = rng.choice(nb)
                        qx = gx + rng.choice([-1, 1]) * rng.uniform(0.05, 0.95) * P["dX"]
                        qy = gy + rng.choice([-1, 1]) * rng.uniform(0.05, 0.95) * P["dY"]
                        if P["bx0"] < qx < P["bx1"] and P["by0"] < qy < P["by1"]:
                            q[0], q[1] = qx, qy
            P2 = _predict(tracks, res, margin)
            if P2 is None or (P2["x0"], P2["x1"], P2["y0"], P2["y1"]) != (P["x0"], P["x1"], P["y0"], P["y1"]):
                continue
        break
    P = _predict(tracks, res, margin)
    if P is None:
        return {"kind": kind, "profile": profile, "tracks": tracks, "res": res, "margin": margin, "queries": []}
    heavy = res is None
    queries = []
    for p in _point_candidates(rng, P, tracks, 6 if heavy else 14):
        queries.append({"q": "pt", "p": p})
    nseg = 3 if heavy else 7
    pc = _point_candidates(rng, P, tracks, 2 * nseg)
    for k in range(nseg):
        a, b = pc[2 * k], pc[2 * k + 1]
        r = rng.random()
        if r < 0.12:
            b = list(a)                                     # degenerate query segment
        elif r < 0.30:
            i = rng.randint(0, P["cs"])
            a, b = [_gx(P, i), a[1]], [_gx(P, i), b[1]]     # along a vertical grid line
        elif r < 0.45:
            j = rng.randint(0, P["ls"])
            a, b = [a[0], _gy(P, j)], [b[0], _gy(P, j)]     # along a horizontal grid line
        elif r < 0.65:
            b = [min(max(a[0] + rng.uniform(-2, 2) * P["dX"], P["x0"]), P["x1"]),
                 min(max(a[1] + rng.uniform(-2, 2) * P["dY"], P["y0"]), P["y1"])]
        queries.append({"q": "seg", "a": a, "b": b})
    for _ in range(1 if heavy else 2):
        queries.append({"q": "trk", "pts": _point_candidates(rng, P, tracks, rng.randint(2, 5))})
    cell = min(P["dX"], P["dY"])
    gsize = max(P["x1"] - P["x0"], P["y1"] - P["y0"])
    for p in _point_candidates(rng, P, tracks, 4 if heavy else 8):
        for _ in range(2):
            d = rng.choice([0, 0.3 * cell, 0.3 * cell, cell, max(P["dX"], P["dY"]), 2 * cell, 1, 2.2, 5, gsize,
                            rng.uniform(0, 3 * max(P["dX"], P["dY"])), rng.uniform(0, gsize)])
            queries.append({"q": "nbh", "p": p, "d": d})
    if profile == "dense":
        for _ in range(30):
            queries.append({"q": "pt", "p": list(rng.choice(tracks[0]))})
    # neighbourhood queries aimed at one leg: a point a fraction of a cell beside it, radius just above the offset
    aimed = profile in ("border", "corner", "dense")
    for _ in range((4 if heavy else 12) if aimed else (2 if heavy else 5)):
        t = rng.choice(tracks)
        k = rng.randrange(len(t) - 1)
        s_ = rng.uniform(0.25, 0.75) if aimed else rng.random()
        mx, my = t[k][0] + s_ * (t[k + 1][0] - t[k][0]), t[k][1] + s_ * (t[k + 1][1] - t[k][1])
        off = rng.choice([0.1, 0.3] if aimed else [0.1, 0.3, 0.7, 1.2]) * cell
        ang = rng.choice([0, 0.5, 1, 1.5]) * math.pi if rng.random() < 0.6 else rng.uniform(0, 2 * math.pi)
        p = [min(max(mx + off * math.cos(ang), P["x0"]), P["x1"]), min(max(my + off * math.sin(ang), P["y0"]), P["y1"])]
        queries.append({"q": "nbh", "p": p, "d": off * rng.choice([1.05, 1.5, 2])})
    return {"kind": kind, "profile": profile, "tracks": tracks, "res": res, "margin": margin, "queries": queries}


def _enum_points():
    return [[i / 2, j / 2] for i in range(7) for j in range(7)]


def _enum_cases(chunk):
    pts = _enum_points()
    res, margin = chunk["res"], chunk["margin"]
    idx = 0
    for ia in range(len(pts)):
        for ib in range(ia, len(pts)):
            if idx % chunk["of"] == chunk["shard"]:
                a, b = pts[ia], pts[ib]
                queries = []
                for p in pts:
                    queries.append({"q": "pt", "p": p})
                    for d in (0.3, 0.5, 1, 1.5):
                        queries.append({"q": "nbh", "p": p, "d": d})
                queries.append({"q": "seg", "a": a, "b": b})
                queries.append({"q": "seg", "a": b, "b": a})
                queries.append({"q": "trk", "pts": [a, b, [1.5, 1.5]]})
                yield {"kind": "tc" if idx % 2 == 0 else "net", "profile": "enum", "tracks": [FRAME, [a, b]],
                       "res": res, "margin": margin, "queries": queries}
            idx += 1


# the other quadrants: every case is generated in the first quadrant (coordinates from 0 upwards); a third of them
# are then translated as a whole -- features and queries alike -- to the left of and / or below the origin (by multiples
# of 0.5, so that lattice coordinates and cell borders stay exactly representable)
SHIFTS = [(-64.0, 0.0), (0.0, -48.5), (-1000.5, -2000.0), (-7.5, -5.0), (-4096.0, 12.0)]


def _shift_case(c, dx, dy):
    def mv(p):
        return [p[0] + dx, p[1] + dy] + list(p[2:])
    c["tracks"] = [[mv(p) for p in t] for t in c["tracks"]]
    for q in c["queries"]:
        for key in ("p", "a", "b"):
            if key in q:
                q[key] = mv(q[key])
        if "pts" in q:
            q["pts"] = [mv(p) for p in q["pts"]]
    c["shift"] = [dx, dy]
    return c


def cases(chunk):
    for i, c in enumerate(_cases(chunk)):
        if i % 3 == 1 and "queries" in c:
            dx, dy = SHIFTS[(i // 3) % len(SHIFTS)]
            c = _shift_case(c, dx, dy)
        yield c


def _cases(chunk):
    if chunk["kind"] == "enum":
        for c in _enum_cases(chunk):
            yield c
        return
    rng = gen.rng_for(PROP, chunk)
    k = chunk.get("idx", 0)
    for n in range(chunk["n"]):
        if n == 2:
            # a fine explicit grid (more than 10 000 cells) with straight segments that span all of it, descending and
            # ascending: thresholds on the number of cells a segment spans lie beyond the small grids of the other cases
            W_, H_ = rng.choice([(240.0, 200.0), (300.0, 180.0)])
            a = [rng.uniform(0.5, 4.5), H_ - rng.uniform(0.5, 4.5)]
            b = [W_ - rng.uniform(0.5, 4.5), rng.uniform(0.5, 4.5)]
            trk = [[a, b], [[0.0, 0.0], [W_, H_]],
                   [[rng.uniform(5, 20), rng.uniform(5, 30)], [W_ / 3, H_ - 7.25], [W_ - 11.5, rng.uniform(8, 40)]]]
            qs = []
            for t_ in (0.07, 0.21, 0.38, 0.5, 0.66, 0.83, 0.94):
                p_ = [a[0] + t_ * (b[0] - a[0]), a[1] + t_ * (b[1] - a[1])]
                qs.append({"q": "pt", "p": p_})
                qs.append({"q": "nbh", "p": [p_[0] + 0.4, p_[1] + 0.3], "d": rng.choice([1.0, 2.5, 5.0])})
            qs.append({"q": "seg", "a": [a[0] + 1.0, a[1] - 1.5], "b": [b[0] - 2.0, b[1] + 0.75]})
            qs.append({"q": "seg", "a": [b[0] - 2.0, b[1] + 0.75], "b": [a[0] + 1.0, a[1] - 1.5]})
            yield {"kind": ["tc", "net"][k % 2], "profile": "fine_grid", "tracks": trk, "res": [2.0, 2.0],
                   "margin": [0, 0.05][k % 2], "queries": qs, "limit_x": 5}
            continue
        force = {}
        if n % 4 == 0:
            force["margin"] = MARGINS[(k + n // 4) % 4]
        if n % 5 == 0:
            force["kind"] = ["tc", "net"][(k + n // 5) % 2]
        if n % 12 == 5:
            yield _gen_rand_case(rng, {"border": True})
            continue
        if n % 30 == 7:
            yield _gen_rand_case(rng, {"dense": True, "kind": ["tc", "net"][(k + n // 30) % 2]})
            continue
        if n % 12 in (1, 7, 9):
            yield _gen_rand_case(rng, {"corner": True})
            continue
        if n % 7 == 0:
            force["res"] = RES_NONSQUARE[(k + n // 7) % len(RES_NONSQUARE)]
            force["profile"] = ["lattice", "gridsnap"][(n // 7) % 2]
        yield _gen_rand_case(rng, force)


# --------------------------------------------------------------------------
class _Grid:
    def __init__(self, si):
        self.xmin, self.xmax, self.ymin, self.ymax = si.xmin, si.xmax, si.ymin, si.ymax
        self.dX, self.dY, self.cs, self.ls = si.dX, si.dY, si.csize, si.lsize
        self._must = {}

    def rect(self, i, j):
        return (self.xmin + i * self.dX, self.ymin + j * self.dY,
                self.xmin + (i + 1) * self.dX, self.ymin + (j + 1) * self.dY)

    def inside(self, p):
        return self.xmin <= p[0] <= self.xmax and self.ymin <= p[1] <= self.ymax

    def frac(self, p):
        return ((p[0] - self.xmin) / self.dX, (p[1] - self.ymin) / self.dY)

    def _cand1(self, v, vmin, d, n):
        f = (v - vmin) / d
        out = []
        for i in (int(math.floor(f)) - 1, int(math.floor(f)), int(math.floor(f)) + 1):
            if 0 <= i < n and vmin + i * d - EPS <= v <= vmin + (i + 1) * d + EPS:
                out.append(i)
        return out

    def candidates(self, p):
        """cells whose closed, EPS-widened footprint contains p"""
        return [(i, j) for i in self._cand1(p[0], self.xmin, self.dX, self.cs)
                for j in self._cand1(p[1], self.ymin, self.dY, self.ls)]

    def must(self, cell, feats):
        """features with a leg through the open, EPS-shrunk rectangle of the cell"""
        got = self._must.get(cell)
        if got is None:
            r = self.rect(*cell)
            got = frozenset(f for f, pts in enumerate(feats)
                            if G.polyline_crosses_shrunk_box(pts, r[0], r[1], r[2], r[3], EPS))
            self._must[cell] = got
        return got

    def crossed(self, a, b):
        """cells whose open, EPS-shrunk rectangle the segment [a, b] passes through"""
        fa, fb = self.frac(a), self.frac(b)
        i0 = max(int(math.floor(min(fa[0], fb[0]))) - 1, 0)
        i1 = min(int(math.floor(max(fa[0], fb[0]))) + 1, self.cs - 1)
        j0 = max(int(math.floor(min(fa[1], fb[1]))) - 1, 0)
        j1 = min(int(math.floor(max(fa[1], fb[1]))) + 1, self.ls - 1)
        out = []
        for i in range(i0, i1 + 1):
            for j in range(j0, j1 + 1):
                r = self.rect(i, j)
                if G.segment_crosses_shrunk_box(a, b, r[0], r[1], r[2], r[3], EPS):
                    out.append((i, j))
        return out

    def on_line(self, v, vmin, d, n):
        """(on a grid line, on the outer border, on the upper outer border)"""
        f = (v - vmin) / d
        k = round(f)
        if abs(f - k) > 1e-9:
            return (False, False, False)
        return (True, k <= 0 or k >= n, k >= n)

    def describe(self):
        return {"xmin": self.xmin, "xmax": self.xmax, "ymin": self.ymin, "ymax": self.ymax,
                "dX": self.dX, "dY": self.dY, "csize": self.cs, "lsize": self.ls}


class OodBuild(Exception):
    """The (moved) feature set is outside the domain of the property: no grid can be built over it."""


# set by run_case: asked with the index as soon as it exists, when the features that remain are registered afterwards
_WARM = [None]


def _build(case):
    from tracklib.core.track_collection import TrackCollection
    from tracklib.core.spatial_index import SpatialIndex
    trs = [gen.make_track([(p[0], p[1], 0.0) for p in t]) for t in case["tracks"]]
    if len(trs) % 2 == 0:
        trs = [gen.derive(t, (case["tracks"][k], k))[0] for k, t in enumerate(trs)]
    res = tuple(case["res"]) if case["res"] is not None else None
    if case["kind"] == "net":
        from tracklib.core.network import Network, Node, Edge
        import random
        net = Network()
        # call history on the Network object: in a third of the cases the network is indexed (or its bounding box
        # asked for) when only some of its edges are there, the remaining edges are added, and the index is built
        # again -- the final index must cover every edge of the network as it is then
        hr = random.Random(repr(case["tracks"]))
        id_style = random.Random(repr(case["tracks"][0][:2])).choice([0, 0, 1, 1, 2])
        if id_style:
            M.CTX.count("edge_identifiers:" + ["", "int_1_to_N", "digit_strings"][id_style])
        stage = hr.randrange(1, len(trs)) if len(trs) >= 2 and hr.random() < 0.45 else None
        how = hr.choice(["index", "index", "bbox", "incremental", "incremental"])
        if stage is not None and how == "incremental":
            # the index is built when only the edges that span the bounding box are there; the other edges (all
            # inside that extent) are then registered one by one through Network.addEdge, and the index is NOT rebuilt
            xs = [p[0] for t in case["tracks"] for p in t]
            ys = [p[1] for t in case["tracks"] for p in t]
            ext = (min(xs), max(xs), min(ys), max(ys))
            first = [k for k, t in enumerate(case["tracks"])
                     if any(p[0] in ext[:2] or p[1] in ext[2:] for p in t)]
            later = [k for k in range(len(trs)) if k not in first]
            if later:
                order = first + later
                trs = [trs[k] for k in order]
                stage = len(first)
                if hr.random() < 0.5:
                    # degenerate call in between: an edge entirely OUTSIDE the index extent is added first (the index
                    # documents that it ignores it); it keeps its edge number, and the edges added after it must be
                    # found under THEIR numbers
                    far = gen.make_track([(ext[1] + 1000.0, ext[3] + 1000.0, 0.0), (ext[1] + 1003.0, ext[3] + 1001.0, 0.0)])
                    far._vt_ignored = True
                    trs.insert(stage, far)
                    M.CTX.count("network_staged_build:edge_outside_extent_added_first")
            else:
                how = "index"
        for k, t in enumerate(trs):
            if stage is not None and k == stage:
                if how in ("index", "incremental"):
                    M.call(net.createSpatialIndex, res, case["margin"], False)
                    if how == "incremental" and _WARM[0] is not None and hr.random() < 0.7:
                        # call history on the index object: the user's queries are asked BEFORE the remaining edges
                        # are registered (and again afterwards, when they are judged)
                        _WARM[0](net.spatial_index)
                else:
                    M.call(net.bbox)
                M.CTX.count("network_staged_build:" + how)
            # identifiers: strings by default; for some networks the edges are numbered 1..N with Python ints, or with
            # the strings "1".."N" (as read from a file whose identifiers are numbers)
            e = Edge((k + 1) if id_style == 1 else str(k + 1) if id_style == 2 else "e%d" % k, t)
            if stage is not None and k >= stage and t.size() >= 3 and not getattr(t, "_vt_ignored", False) \
                    and (k + len(trs)) % 2 == 0:
                # a closed edge (turning circle, roundabout stored as one edge): the geometry returns to its first
                # vertex and both ends are ONE node -- here among the edges registered after the index was built
                t.addObs(t.getObs(0).copy())
                M.CTX.count("closed_edge_on_one_node_added_late")
            p0, p1 = t.getObs(0).position, t.getObs(t.size() - 1).position
            n0 = Node("s%d" % k, p0.copy())
            n1 = n0 if (p0.getX(), p0.getY()) == (p1.getX(), p1.getY()) and t.size() >= 3 else Node("t%d" % k, p1.copy())
            net.addEdge(e, n0, n1)
        if not (stage is not None and how == "incremental"):
            net.createSpatialIndex(res, case["margin"], False)
        return net.spatial_index, trs
    col = TrackCollection(trs)
    if len(trs) % 3 == 1 and all(t.size() >= 2 for t in trs):
        # derived collection: its bounding box was asked for once, its tracks were then moved in place (the
        # collection's own noise()), and the index is built on what the collection holds NOW
        import numpy as np
        M.call(col.bbox)
        np.random.seed(len(case["tracks"][0]) * 1000 + len(trs))
        rn = M.call(col.noise, 0.4)
        if not M.is_raised(rn):
            M.CTX.count("collection_moved_in_place_after_bbox")
        trs = list(col.getTracks())
        moved = [[[o.position.getX(), o.position.getY()] for o in t] for t in trs]
        if _predict(moved, case["res"], case["margin"]) is None:
            raise OodBuild("after the move the cell is larger than the extent (or the extent is degenerate)")
    return SpatialIndex(col, res, case["margin"], False), trs


def _only_via_upper_border_leg(g, pts, p, d):
    """Input predicate of finding C08:leg-on-upper-outer-border: the feature is within d of p only through legs
    that lie on the top/right outer border of the extent, and the fractional index of that border rounds above
    the number of cells."""
    on, rest = [], []
    for k in range(len(pts) - 1):
        a, b = pts[k], pts[k + 1]
        right = a[0] == g.xmax and b[0] == g.xmax and (g.xmax - g.xmin) / g.dX > g.cs
        top = a[1] == g.ymax and b[1] == g.ymax and (g.ymax - g.ymin) / g.dY > g.ls
        (on if (right or top) else rest).append((a, b))
    if not on:
        return False
    return all(G.point_segment_dist(p, a, b) > d - EPS for a, b in rest)


def _note_contract(w):
    """When the witness carries a broken cellsCrossSegment contract, add the call that broke it."""
    r = w.get("raised")
    if M.is_raised(r) and r.type == "ContractBroken" and getattr(r.exc, "name", "") == "cellsCrossSegment.covers" \
            and LAST_BROKEN:
        w["cellsCrossSegment_call"] = dict(LAST_BROKEN)
        w.setdefault("mechanism", {})["end_on_border_near_corner"] = LAST_BROKEN.get("end_on_border_near_corner")


def _is_listlike(r):
    return isinstance(r, (list, tuple, set))


def run_case(case, ctx):
    from tracklib.core.obs_coords import ENUCoords
    tracks, res, margin = case["tracks"], case["res"], case["margin"]
    P = _predict(tracks, res, margin)
    if P is None:
        xs = [p[0] for t in tracks for p in t]
        ys = [p[1] for t in tracks for p in t]
        if max(xs) == min(xs) or max(ys) == min(ys):
            return ood("zero-width-or-height extent")
        return ood("cell larger than the extent")
    cls = set([case["kind"], "profile_" + case.get("profile", "?"), "margin_%s" % margin])
    if case.get("shift"):
        cls.add("features_left_of_or_below_the_origin")
    if res is None:
        cls.add("res_none")
    elif res[0] == res[1]:
        cls.add("res_square")
    else:
        cls.add("res_nonsquare")
    sig = (case["kind"], tuple(res) if res else None, margin, tuple(tuple(tuple(p) for p in t) for t in tracks))

    LAST_BROKEN.clear()

    def warm(si0):
        for q in case["queries"]:
            if q["q"] == "pt":
                M.call(si0.request, ENUCoords(q["p"][0], q["p"][1]))
                M.call(si0.neighborhood, ENUCoords(q["p"][0], q["p"][1]))
            elif q["q"] == "nbh":
                u0 = M.call(si0.groundDistanceToUnits, q["d"])
                if not M.is_raised(u0):
                    M.call(si0.neighborhood, ENUCoords(q["p"][0], q["p"][1]), None, u0)
            elif q["q"] == "seg":
                M.call(si0.request, [ENUCoords(q["a"][0], q["a"][1]), ENUCoords(q["b"][0], q["b"][1])])
        ctx.count("index_queried_before_the_remaining_edges_were_added")
    _WARM[0] = warm
    built = M.call(_build, case)
    _WARM[0] = None
    if M.is_raised(built) and isinstance(built.exc, OodBuild):
        return ood(str(built.exc))
    if M.is_raised(built):
        upper = any(p[0] == P["bx1"] or p[1] == P["by1"] for t in tracks for p in t) and margin == 0
        w = {"what": "building the index failed on an in-domain feature set", "raised": built,
             "mechanism": {"vertex_on_upper_outer_border": upper, "margin": margin, "res": res}}
        _note_contract(w)
        return violated(w, sig, True, sorted(cls))
    si, trs = built
    g = _Grid(si)
    feats = [[] if getattr(t, "_vt_ignored", False) else
             [(t.getObs(i).position.getX(), t.getObs(i).position.getY()) for i in range(t.size())] for t in trs]

    # premise: the published grid tiles the extent and the extent holds every feature
    ctx.monitor("grid.tiles_extent")
    scale = max(1.0, abs(g.xmin), abs(g.xmax), abs(g.ymin), abs(g.ymax))
    if (g.cs < 1 or g.ls < 1 or not (g.dX > 0 and g.dY > 0)
            or abs(g.xmin + g.cs * g.dX - g.xmax) > 1e-9 * scale or abs(g.ymin + g.ls * g.dY - g.ymax) > 1e-9 * scale
            or any(not g.inside(p) for pts in feats for p in pts)):
        return violated({"what": "the grid does not tile the extent or the extent does not contain the features",
                         "grid": g.describe()}, sig, True, sorted(cls))
    nonsquare = abs(g.dX - g.dY) > 1e-9 * max(g.dX, g.dY)

    # classes of the feature vertices (measured on the real grid)
    for fi, pts in enumerate(feats):
        for k, p in enumerate(pts):
            lx, ox, ux = g.on_line(p[0], g.xmin, g.dX, g.cs)
            ly, oy, uy = g.on_line(p[1], g.ymin, g.dY, g.ls)
            if lx or ly:
                cls.add("vertex_on_cell_border")
            if lx and ly:
                cls.add("vertex_on_cell_corner")
            if ox or oy:
                cls.add("vertex_on_outer_border")
            if ux or uy:
                cls.add("vertex_on_upper_outer_border")
            if k and pts[k - 1] == p:
                cls.add("zero_length_leg")
            fx, fy = g.frac(p)
            for u, v in ((fx, fy), (fy, fx)):
                if u == round(u) and 0 < abs(v - round(v)) <= 1e-9:
                    cls.add("vertex_on_border_ulps_from_corner")
            if k and ((p[0] == pts[k - 1][0] and ox) or (p[1] == pts[k - 1][1] and oy)):
                cls.add("leg_on_outer_border")
                if (p[0] == pts[k - 1][0] and ux) or (p[1] == pts[k - 1][1] and uy):
                    cls.add("leg_on_upper_outer_border")

    demanded = 0

    def qclasses(p, tag="query"):
        lx, ox, ux = g.on_line(p[0], g.xmin, g.dX, g.cs)
        ly, oy, uy = g.on_line(p[1], g.ymin, g.dY, g.ls)
        out = {"on_upper_outer_border": bool(ux or uy)}
        if lx or ly:
            cls.add(tag + "_on_cell_border")
        if lx and ly:
            cls.add(tag + "_on_cell_corner")
        if ox or oy:
            cls.add(tag + "_on_outer_border")
        if ux or uy:
            cls.add(tag + "_on_upper_outer_border")
        if (ox and oy):
            cls.add(tag + "_on_outer_corner")
        return out

    def fail(what, q, extra, mech):
        w = {"what": what, "query": q, "grid": g.describe(), "kind": case["kind"], "margin": margin, "res": res,
             "features": feats, "mechanism": dict(mech, nonsquare_cells=nonsquare, query_kind=q["q"])}
        w.update(extra)
        _note_contract(w)
        return violated(w, sig, True, sorted(cls))

    for q in case["queries"]:
        kind = q["q"]
        if kind == "pt":
            p = q["p"]
            if not g.inside(p):
                ctx.count("query_outside_extent")
                continue
            mech = qclasses(p)
            via_nbh0 = (int(p[0] * 8) + int(p[1] * 8) + len(case["queries"])) % 3 == 0
            if via_nbh0:
                # the same question through the other documented front end: neighborhood(coord) with its default
                # unit 0 is "everything registered in the cell containing the point"
                r = M.call(si.neighborhood, ENUCoords(p[0], p[1]))
                ctx.count("point_query_through_neighborhood_with_default_unit")
            else:
                r = M.call(si.request, ENUCoords(p[0], p[1]))
            ctx.monitor("request_point.no_false_negative")
            if M.is_raised(r):
                return fail("request(coord) raised for a point inside the extent", q, {"raised": r}, mech)
            if not _is_listlike(r):
                return fail("request(coord) did not return a list", q, {"got": repr(r)}, mech)
            got = set(r)
            cands = g.candidates(p)
            if not cands:
                raise M.HarnessError("no candidate cell for a point inside the extent: %r" % (p,))
            ok = False
            for c in cands:
                if g.must(c, feats) <= got:
                    ok = True
                    if g.must(c, feats):
                        demanded += 1
                    break
            if len(cands) > 1:
                ctx.count("point_query_with_several_candidate_cells")
            if not ok:
                return fail("request(coord) omits a feature that passes through the cell containing the point", q,
                            {"got": sorted(got),
                             "candidate_cells": [{"cell": c, "must": sorted(g.must(c, feats))} for c in cands]}, mech)
        elif kind in ("seg", "trk"):
            pts = [q["a"], q["b"]] if kind == "seg" else q["pts"]
            if any(not g.inside(p) for p in pts):
                ctx.count("query_outside_extent")
                continue
            mech = {"on_upper_outer_border": False}
            for p in pts:
                m = qclasses(p)
                mech["on_upper_outer_border"] = mech["on_upper_outer_border"] or m["on_upper_outer_border"]
            if kind == "seg":
                a, b = pts
                if a == b:
                    cls.add("degenerate_query_segment")
                elif (a[0] == b[0] and g.on_line(a[0], g.xmin, g.dX, g.cs)[0]) or \
                        (a[1] == b[1] and g.on_line(a[1], g.ymin, g.dY, g.ls)[0]):
                    cls.add("segment_query_along_gridline")
                r = M.call(si.request, [ENUCoords(a[0], a[1]), ENUCoords(b[0], b[1])])
                mon = "request_segment.no_false_negative"
            else:
                qt = gen.make_track([(p[0], p[1], 0.0) for p in pts])
                r = M.call(si.request, qt)
                mon = "request_track.no_false_negative"
            ctx.monitor(mon)
            if M.is_raised(r):
                return fail("request(%s) raised for a query inside the extent" % kind, q, {"raised": r}, mech)
            if not _is_listlike(r):
                return fail("request(%s) did not return a list" % kind, q, {"got": repr(r)}, mech)
            got = set(r)
            cells = set()
            for k in range(len(pts) - 1):
                cells.update(g.crossed(pts[k], pts[k + 1]))
            for c in sorted(cells):
                reg = M.call(si.request, c[0], c[1])
                if M.is_raised(reg):
                    return fail("request(i,j) raised for a cell of the grid", q, {"cell": c, "raised": reg}, mech)
                need = set(reg) | g.must(c, feats)
                if need:
                    demanded += 1
                if not need <= got:
                    return fail("request(%s) omits a feature registered in / passing through a crossed cell" % kind, q,
                                {"got": sorted(got), "cell": c, "registered_in_cell": sorted(reg),
                                 "passing_through_cell": sorted(g.must(c, feats)),
                                 "missing": sorted(need - got)}, mech)
        elif kind == "nbh":
            p, d = q["p"], q["d"]
            if not g.inside(p):
                ctx.count("query_outside_extent")
                continue
            mech = qclasses(p, "nbh_query")
            u = M.call(si.groundDistanceToUnits, d)
            if M.is_raised(u):
                return fail("groundDistanceToUnits raised or broke its contract", q, {"raised": u}, mech)
            r = M.call(si.neighborhood, ENUCoords(p[0], p[1]), None, u)
            ctx.monitor("neighborhood.no_false_negative")
            if M.is_raised(r):
                return fail("neighborhood(coord, unit) raised for a point inside the extent", q,
                            {"unit": u, "raised": r}, mech)
            if not _is_listlike(r):
                return fail("neighborhood(coord, unit) did not return a list", q, {"unit": u, "got": repr(r)}, mech)
            got = set(r)
            dist = [G.point_polyline_dist(p, pts) if pts else float("inf") for pts in feats]
            need = set(f for f, dd in enumerate(dist) if dd <= d - EPS)
            if d == 0:
                cls.add("nbh_d0")
            if d >= max(g.xmax - g.xmin, g.ymax - g.ymin) - 1e-9:
                cls.add("nbh_grid_size")
            if need:
                demanded += 1
                if nonsquare:
                    cls.add("nonsquare_neighbourhood_demanded")
                    # a feature beyond u cells of the *larger* side is what tells min from max
                    if any(dist[f] > math.floor(d / max(g.dX, g.dY) + 1) * min(g.dX, g.dY) for f in need):
                        cls.add("nonsquare_neighbourhood_discriminating")
            if not need <= got:
                mech["unit_below_distance_over_smaller_side"] = bool(u * min(g.dX, g.dY) < d - EPS)
                mech["missing_only_via_leg_on_upper_outer_border"] = all(
                    _only_via_upper_border_leg(g, feats[f], p, d) for f in need - got)
                return fail("neighborhood(coord, groundDistanceToUnits(d)) omits a feature within distance d", q,
                            {"unit": u, "got": sorted(got), "missing": sorted(need - got),
                             "distances": dist}, mech)
        else:
            raise M.HarnessError("unknown query kind %r" % (kind,))
        # aliasing: the list a query handed back belongs to the caller, who prunes it, tags it, empties it (request(i, j),
        # the cell accessor used above, is not treated this way: it documents nothing about the list it returns)
        if isinstance(r, list) and (kind in ("nbh", "seg", "trk") or (kind == "pt" and via_nbh0)):
            M.scribble(r)
            ctx.count("returned_list_modified_by_the_caller")

    nontrivial = demanded > 0 and g.cs * g.ls >= 2
    if g.cs * g.ls >= 50:
        cls.add("grid_50_cells_or_more")
    res_ = held(sig, nontrivial, sorted(cls))

    def again():
        # the same index object, asked again after another case (another index) was built and queried
        for q in [q for q in case["queries"] if q["q"] == "pt"][:6]:
            p = q["p"]
            if not g.inside(p):
                continue
            r = M.call(si.request, ENUCoords(p[0], p[1]))
            if M.is_raised(r) or not _is_listlike(r):
                return {"what": "request(coord) on an index that was queried before, asked again after ANOTHER index was "
                                "built and queried in between, raised / returned no list", "query": q, "got": repr(r)[:300]}
            got = set(r)
            if not any(g.must(c, feats) <= got for c in g.candidates(p)):
                return {"what": "request(coord) on an index that was queried before, asked again after ANOTHER index was "
                                "built and queried in between, omits a feature that passes through the cell containing "
                                "the point", "query": q, "got": sorted(x for x in got if isinstance(x, int)),
                        "grid": g.describe(), "features": feats if len(feats) < 20 else len(feats)}
        return None
    res_["again"] = again
    return res_


# --------------------------------------------------------------------------
def classify(case, witness):
    """No open finding for C08.  The four defects this check reported (upper-border IndexError, larger cell side in
    groundDistanceToUnits, leg on the upper outer border registered nowhere, leg ending on a cell border within
    rounding distance of a corner registered nowhere) are repaired in the repository; 'fixed' entries of
    known_findings.json suppress nothing.  The input predicates that identified them stay in the witness under
    "mechanism" / "cellsCrossSegment_call" for diagnosis only."""
    return None


# floors for the call-history workloads added in session 3 (a run in which they were silently skipped is inconclusive)
_floors_base = floors
_FLOORS_EXTRA = {'classes': {'profile_dense': 20, 'features_left_of_or_below_the_origin': 300, 'profile_fine_grid': 4},
                 'counters': {'edge_identifiers:int_1_to_N': 100, 'index_queried_before_the_remaining_edges_were_added': 25, 'closed_edge_on_one_node_added_late': 40, 'point_query_through_neighborhood_with_default_unit': 5000,
                              'returned_list_modified_by_the_caller': 20000, 'edge_identifiers:digit_strings': 50,
                              'network_staged_build:index': 50, 'network_staged_build:bbox': 20,
                              'network_staged_build:incremental': 30}}


def floors(tier):
    f = _floors_base(tier)
    for kind, d in _FLOORS_EXTRA.items():
        f.setdefault(kind, {}).update(d)
    return f
