"""C03 -- timestamps <-> epoch seconds (DESIGN.md section 4, C03).

Oracle: the standard library's proleptic Gregorian calendar (calendar.timegm,
datetime) -- independent of tracklib's year/month loops.
"""
from __future__ import annotations

import calendar
import datetime

from vt import gen, monitor as M
from vt.gen import held, violated

PROP = "C03"
RULE = ("every calendar day 1970-01-01..2099-12-31 x {00:00:00.000, 12:00:00.000, 23:59:59.999, one random ms}; "
        "every k-th second (quick) / every second (thorough) of 28/29 Feb, 31 Dec, 1 Jan of each year; ordered pairs one unit "
        "apart in each field around every month end; addSec/Min/Hour/Day offsets crossing day, month, year and leap-day "
        "boundaries. Distinct = distinct (kind, day) signature; non-trivial = the day is the first or last day of a month, "
        "28/29 Feb, or the case is a comparison/offset case straddling such a boundary.")
ASSUMPTIONS = ["calendar.timegm / datetime implement the proleptic Gregorian calendar correctly",
               "timestamps are well-formed on input (the property speaks of well-formed timestamps)"]
EXHAUSTIVE = {"quick": "all 47 482 days 1970..2099 at 4 instants each; all month-end comparison pairs",
              "thorough": "all 47 482 days 1970..2099 at 4 instants each; every second of the 520 special days; "
                          "all month-end comparison pairs"}
CASE_LIMIT_S = 30.0

FIRST = datetime.date(1970, 1, 1)
NDAYS = (datetime.date(2100, 1, 1) - FIRST).days
NSH = 16


def chunks(tier, seed):
    out = []
    for k in range(NSH):
        out.append({"kind": "days", "shard": k, "key": "days%d" % k})
    for k in range(NSH):
        out.append({"kind": "special", "shard": k, "key": "sp%d" % k,
                    "stride": 97 if tier == "quick" else 1})
    for k in range(4):
        out.append({"kind": "pairs", "shard": k, "of": 4, "key": "pairs%d" % k})
    for k in range(4):
        out.append({"kind": "add", "shard": k, "of": 4, "key": "add%d" % k,
                    "n": 6000 if tier == "quick" else 150000})
    for k in range(4):
        out.append({"kind": "frac", "shard": k, "of": 4, "key": "frac%d" % k,
                    "n": 5000 if tier == "quick" else 100000})
    return out


def floors(tier):
    return {"monitors": {"readUnixTime.wellformed": 100000, "readUnixTime.other_numeric_types": 100000, "add.result_is_the_callers_own_object": 10000, "inplace_fields.then_convert": 3000,
                         "fractional.wellformed_same_instant": 3000},
            "classes": {"jan1_after_common_year": 90, "dec31_leap_year": 30, "leap_day": 30,
                        "cmp_pair": 1000, "add_cross_year": 50, "add_cross_leapday": 20},
            "distinct_nontrivial": 1000}


# --------------------------------------------------------------------------
def wellformed_fields(Y, Mo, D, h, mi, s, ms):
    try:
        if not (1 <= Mo <= 12):
            return False
        if not (1 <= D <= calendar.monthrange(int(Y), int(Mo))[1]):
            return False
    except Exception:
        return False
    return (0 <= h <= 23) and (0 <= mi <= 59) and (0 <= s <= 59) and (0 <= ms <= 999) \
        and all(float(v) == int(v) for v in (Y, Mo, D, h, mi, s, ms))


def readUnixTime_wellformed(result):
    return wellformed_fields(*gen.obstime_fields(result))


_installed = False


def setup(ctx):
    global _installed
    if _installed:
        return
    from tracklib.core.obs_time import ObsTime
    orig = ObsTime.__dict__["readUnixTime"].__func__
    wrapped = M.ensure(orig, readUnixTime_wellformed, "readUnixTime.wellformed")
    ObsTime.readUnixTime = staticmethod(wrapped)
    _installed = True


# --------------------------------------------------------------------------
def special_days():
    out = []
    for y in range(1970, 2100):
        out.append((y, 1, 1))
        out.append((y, 2, 28))
        if calendar.isleap(y):
            out.append((y, 2, 29))
        out.append((y, 12, 31))
    return out


def cases(chunk):
    rng = gen.rng_for(PROP, chunk)
    kind = chunk["kind"]
    if kind == "days":
        for i in range(chunk["shard"], NDAYS, NSH):
            d = FIRST + datetime.timedelta(days=i)
            yield {"kind": "day", "ymd": [d.year, d.month, d.day],
                   # ... and, converted right after an instant of this day, the midnight that ends it (ordering:
                   # a conversion may remember the day of the previous one)
                   "ms": [0, 12 * 3600 * 1000, 86400 * 1000 - 1, rng.randrange(86400 * 1000)] +
                         ([86400 * 1000] if i < NDAYS - 1 else [])}
    elif kind == "special":
        sd = special_days()
        stride = chunk["stride"]
        for i in range(chunk["shard"], len(sd), NSH):
            secs = sorted(set(list(range(0, 86400, stride)) + [0, 1, 2, 86397, 86398, 86399]))
            yield {"kind": "seconds", "ymd": list(sd[i]), "secs": secs if stride > 1 else None,
                   "rms": rng.randrange(1000)}
    elif kind == "pairs":
        # around every month end 1970..2099
        idx = 0
        for y in range(1970, 2100):
            for m in range(1, 13):
                if idx % chunk["of"] == chunk["shard"]:
                    yield {"kind": "pairs", "ym": [y, m]}
                idx += 1
    elif kind == "frac":
        # seconds values that are NOT whole milliseconds (as arithmetic on epoch seconds produces them), at the end of
        # a minute / hour / day / month / year, with sub-millisecond fractions just below the next second
        sd = special_days()
        for i in range(chunk["n"]):
            y, m, d = rng.choice(sd) if rng.random() < 0.5 else (rng.randrange(1970, 2100), rng.randrange(1, 13), rng.randrange(1, 29))
            sec_of_day = rng.choice([86399, 59, 3599, 0, 43199, rng.randrange(86400), 60 * rng.randrange(1440) + 59])
            frac = rng.choice([0.9995, 0.9996, 0.99951, 0.99999, 0.999999, 0.9994, 0.0004, 0.0005, 0.5, 0.25,
                               rng.random(), 1.0 - 10.0 ** rng.uniform(-7, -3.2)])
            yield {"kind": "frac", "whole_s": gen.ms_from_fields(y, m, d) // 1000 + sec_of_day, "frac": frac,
                   "via": rng.choice(["read", "read", "addSec"])}
    elif kind == "add":
        sd = special_days()
        for i in range(chunk["n"]):
            y, m, d = rng.choice(sd)
            base = gen.ms_from_fields(y, m, d) + rng.choice([0, 1, 999, 43200000, 86399000, 86399999,
                                                              rng.randrange(86400000)])
            if rng.random() < 0.3:
                base = rng.randrange(0, gen.ms_from_fields(2099, 12, 1))
            unit = rng.choice(["Sec", "Min", "Hour", "Day"])
            mag = {"Sec": [1, 59, 60, 3600, 86399, 86400, 86401, 31536000, 31622400],
                   "Min": [1, 59, 60, 1439, 1440, 1441, 525600, 527040],
                   "Hour": [1, 23, 24, 25, 8760, 8784],
                   "Day": [1, 2, 28, 29, 30, 31, 59, 60, 365, 366, 1461]}[unit]
            n = rng.choice(mag + [rng.randrange(1, max(mag) * 2)])
            if rng.random() < 0.5:
                n = -n
            mult = {"Sec": 1000, "Min": 60000, "Hour": 3600000, "Day": 86400000}[unit]
            tgt = base + n * mult
            if tgt < 0 or tgt >= gen.ms_from_fields(2100, 1, 1):
                continue
            yield {"kind": "add", "base_ms": base, "unit": unit, "n": n}


# --------------------------------------------------------------------------
def _check_instant(ms_total, ctx, other_types=True):
    """toAbsTime vs stdlib, readUnixTime round trip.  Returns None or witness."""
    from tracklib.core.obs_time import ObsTime
    f = gen.fields_from_ms(ms_total)
    t = ObsTime(*f)
    s = M.call(t.toAbsTime)
    ctx.monitor("toAbsTime.vs_timegm")
    if M.is_raised(s):
        return {"what": "toAbsTime raised", "fields": f, "raised": s}
    if abs(s * 1000.0 - ms_total) > 1e-3:
        return {"what": "toAbsTime disagrees with the proleptic Gregorian calendar",
                "fields": f, "got_s": s, "expected_s": ms_total / 1000.0}
    r = M.call(ObsTime.readUnixTime, s)
    if M.is_raised(r):
        return {"what": "readUnixTime: " + r.brief(), "fields": f, "seconds": s, "raised": r}
    rf = gen.obstime_fields(r)
    if not wellformed_fields(*rf):
        return {"what": "readUnixTime returned a malformed date", "input_fields": f, "seconds": s, "got_fields": rf}
    back = gen.ms_from_fields(*[int(v) for v in rf])
    ctx.monitor("roundtrip.same_instant")
    if abs(back - ms_total) > 1:
        return {"what": "round trip moved the instant by more than 1 ms", "input_fields": f, "got_fields": rf,
                "delta_ms": back - ms_total}
    if f[6] == 0 and tuple(rf) != tuple(f):
        return {"what": "round trip of a whole-second timestamp changed its fields", "input_fields": f,
                "got_fields": rf}
    if f[6] == 0 and not (r == t):
        return {"what": "round-tripped whole-second timestamp does not compare equal", "input_fields": f}
    # a timestamp obtained from seconds against one BUILT from the very same calendar fields: the comparison operators,
    # the difference and the seconds they denote must tell one story (they are the same instant)
    twin = M.call(lambda: ObsTime(*[int(v) for v in rf]))
    if not M.is_raised(twin):
        ctx.monitor("derived_vs_built.one_story")
        story = M.call(lambda: (r == twin, r < twin, r > twin, r != twin, r - twin, twin - r,
                                r.toAbsTime() == twin.toAbsTime()))
        if M.is_raised(story) or tuple(story) != (True, False, False, False, 0, 0, True):
            return {"what": "a timestamp obtained from seconds and one built from the same fields do not behave as one "
                            "instant under ==, <, >, !=, - and toAbsTime()", "fields": rf, "seconds_given": s,
                    "got (==, <, >, !=, a-b, b-a, same toAbsTime)": story if not M.is_raised(story) else repr(story)}
    # the same number of seconds in the other numeric types a caller may hold it in (a Python int for whole seconds,
    # numpy scalars out of an array of epoch seconds) denotes the same instant; so do fields held as numpy integers
    if not other_types:
        return None
    import numpy as np
    alts = [("numpy.float64", np.float64(s))]
    if f[6] == 0:
        whole = ms_total // 1000
        alts += [("int", int(whole)), ("numpy.int64", np.int64(whole))]
    for tname, v in alts:
        r2 = M.call(ObsTime.readUnixTime, v)
        ctx.monitor("readUnixTime.other_numeric_types")
        if M.is_raised(r2):
            return {"what": "readUnixTime raised for the seconds given as " + tname, "seconds": s, "raised": r2}
        rf2 = gen.obstime_fields(r2)
        if tuple(int(x) for x in rf2[:6]) != tuple(int(x) for x in rf[:6]) or abs(rf2[6] - rf[6]) > 1:
            return {"what": "readUnixTime decodes the same number of seconds differently when it is given as " + tname,
                    "seconds": s, "as_float": rf, "as_" + tname: rf2}
    t3 = ObsTime(*([np.int64(x) for x in f[:6]] + [f[6]]))
    s3 = M.call(t3.toAbsTime)
    if M.is_raised(s3) or abs(float(s3) * 1000.0 - ms_total) > 1e-3:
        return {"what": "toAbsTime of fields held as numpy integers disagrees with the calendar", "fields": f,
                "got_s": s3, "expected_s": ms_total / 1000.0}
    return None


def _day_classes(y, m, d):
    cls = []
    if (m, d) == (1, 1) and y > 1970 and not calendar.isleap(y - 1):
        cls.append("jan1_after_common_year")
    if (m, d) == (1, 1) and y > 1970 and calendar.isleap(y - 1):
        cls.append("jan1_after_leap_year")
    if (m, d) == (12, 31) and calendar.isleap(y):
        cls.append("dec31_leap_year")
    if (m, d) == (12, 31) and not calendar.isleap(y):
        cls.append("dec31_common_year")
    if (m, d) == (2, 29):
        cls.append("leap_day")
    if d == calendar.monthrange(y, m)[1]:
        cls.append("month_end")
    if d == 1:
        cls.append("month_start")
    return cls


OPS = {"<": lambda a, b: a < b, ">": lambda a, b: a > b, "<=": lambda a, b: a <= b,
       ">=": lambda a, b: a >= b, "==": lambda a, b: a == b, "!=": lambda a, b: a != b}


def _error_path(case, ctx):
    """Error path taken before some cases: conversions of MALFORMED timestamps (month 13 / 25 / 0, day 0 / 32, as a
    day-month mix-up while reading produces them) in leap and common years, and readTimestamp on garbage.  Whatever
    they do -- raise or return nonsense -- is not judged; the valid conversions that follow must be unaffected."""
    from tracklib.core.obs_time import ObsTime
    key = sum(ord(c) for c in repr(sorted(case.items())))
    if key % 7:
        return
    y = (2024, 2023, 2000, 2100 - 1, 1972)[key % 5]
    mo, d = ((25, 2), (13, 1), (0, 10), (2, 32), (12, 0))[(key // 5) % 5]
    t = ObsTime(y, 2, 10)
    t.month, t.day = mo, d
    M.call(t.toAbsTime)
    M.call(lambda: t < ObsTime(y, 3, 1))
    M.call(ObsTime.readTimestamp, "not a date")
    del ctx.broken[:]          # nothing the malformed calls did is judged (the well-formedness contract included)
    ctx.count("error_path_taken_before_case")


def run_case(case, ctx):
    from tracklib.core.obs_time import ObsTime
    kind = case["kind"]
    _error_path(case, ctx)
    if kind == "day":
        y, m, d = case["ymd"]
        base = gen.ms_from_fields(y, m, d)
        cls = _day_classes(y, m, d)
        for off in case["ms"]:
            w = _check_instant(base + off, ctx)
            if w:
                return violated(w, ("day", y, m, d), bool(cls), cls)
        # two timestamps used in turn: the same month and day of the neighbouring years (leap / common), then this
        # day again -- whatever a conversion remembers of the previous one must be told apart by the year too
        for yy in (y + 1, y - 1, y + 4):
            if 1970 <= yy <= 2099 and not (m == 2 and d == 29 and not calendar.isleap(yy)):
                for ms_ in (gen.ms_from_fields(yy, m, d) + 3723004, base + 3723004):
                    w = _check_instant(ms_, ctx, other_types=False)
                    if w:
                        w["history"] = "converted right after the same month and day of another year"
                        return violated(w, ("day", y, m, d), bool(cls), cls)
        return held(("day", y, m, d), bool(cls), cls or ["ordinary_day"])
    if kind == "seconds":
        y, m, d = case["ymd"]
        base = gen.ms_from_fields(y, m, d)
        cls = _day_classes(y, m, d) + ["every_second_day"]
        secs = case["secs"] if case["secs"] is not None else range(86400)
        for s in secs:
            w = _check_instant(base + s * 1000, ctx, other_types=(s % 7 == 0 or s > 86390))
            if w:
                return violated(w, ("sec", y, m, d), True, cls)
        for s in list(secs)[::501]:
            w = _check_instant(base + s * 1000 + case["rms"], ctx)
            if w:
                return violated(w, ("sec", y, m, d), True, cls)
        return held(("sec", y, m, d), True, cls)
    if kind == "pairs":
        y, m = case["ym"]
        last = calendar.monthrange(y, m)[1]
        # anchor instants around the month end, plus one unit steps in each field
        anchors = [gen.ms_from_fields(y, m, last, 23, 59, 59, 999),
                   gen.ms_from_fields(y, m, last, 0, 0, 0, 0),
                   gen.ms_from_fields(y, m, 1, 0, 0, 0, 0),
                   gen.ms_from_fields(y, m, min(15, last), 12, 30, 30, 500)]
        steps = [1, 1000, 60000, 3600000, 86400000, 31 * 86400000, 365 * 86400000, 366 * 86400000]
        lim = gen.ms_from_fields(2100, 1, 1)
        n = 0
        for a in anchors:
            for st in steps:
                for b in (a + st, a - st, a):
                    if b < 0 or b >= lim:
                        continue
                    ta = gen.obstime_from_ms(a)
                    tb = gen.obstime_from_ms(b)
                    for name, op in OPS.items():
                        got = M.call(op, ta, tb)
                        exp = op(a, b)
                        n += 1
                        if M.is_raised(got) or bool(got) != exp:
                            return violated({"what": "comparison %s disagrees with epoch order" % name,
                                             "a": gen.fields_from_ms(a), "b": gen.fields_from_ms(b),
                                             "got": got, "expected": exp}, ("pairs", y, m), True, ["cmp_pair"])
        ctx.monitor("compare.vs_epoch_order", n)
        return held(("pairs", y, m), True, ["cmp_pair"])
    if kind == "frac":
        whole, frac, via = case["whole_s"], case["frac"], case["via"]
        s_in = whole + frac
        if via == "read":
            r = M.call(ObsTime.readUnixTime, s_in)
        else:
            r = M.call(gen.obstime_from_ms(whole * 1000).addSec, frac)
        cls = ["fractional_seconds", "via_" + via]
        if frac >= 0.9995:
            cls.append("fraction_rounds_to_next_second")
        if whole % 60 == 59:
            cls.append("second_59")
        sig = ("frac", whole, frac, via)
        ctx.monitor("fractional.wellformed_same_instant")
        if M.is_raised(r):
            return violated({"what": "conversion of a seconds value with a sub-millisecond part raised",
                             "seconds": s_in, "via": via, "raised": r}, sig, True, cls)
        rf = gen.obstime_fields(r)
        if not wellformed_fields(*rf):
            return violated({"what": "conversion of a seconds value with a sub-millisecond part returned a malformed "
                                     "date", "seconds": s_in, "via": via, "got_fields": rf}, sig, True, cls)
        back = gen.ms_from_fields(*[int(v) for v in rf])
        if abs(back - s_in * 1000.0) > 1.0 + 1e-3:
            return violated({"what": "conversion moved the instant by more than 1 ms", "seconds": s_in, "via": via,
                             "got_fields": rf, "delta_ms": back - s_in * 1000.0}, sig, True, cls)
        return held(sig, True, cls)
    if kind == "add":
        base = case["base_ms"]
        unit, n = case["unit"], case["n"]
        mult = {"Sec": 1000, "Min": 60000, "Hour": 3600000, "Day": 86400000}[unit]
        t = gen.obstime_from_ms(base)
        r = M.call(getattr(t, "add" + unit), n)
        tgt = base + n * mult
        bf, tf = gen.fields_from_ms(base), gen.fields_from_ms(tgt)
        cls = ["add" + unit]
        if bf[0] != tf[0]:
            cls.append("add_cross_year")
        elif bf[1] != tf[1]:
            cls.append("add_cross_month")
        elif bf[2] != tf[2]:
            cls.append("add_cross_day")
        lo, hi = min(base, tgt), max(base, tgt)
        for yy in range(gen.fields_from_ms(lo)[0], gen.fields_from_ms(hi)[0] + 1):
            if calendar.isleap(yy) and lo <= gen.ms_from_fields(yy, 2, 29) <= hi:
                cls.append("add_cross_leapday")
                break
        if n < 0:
            cls.append("add_negative")
        sig = ("add", base, unit, n)
        ctx.monitor("add.moves_by_n")
        if M.is_raised(r):
            return violated({"what": "add%s raised" % unit, "base": bf, "n": n, "raised": r}, sig, True, cls)
        rf = gen.obstime_fields(r)
        if not wellformed_fields(*rf):
            return violated({"what": "add%s returned a malformed date" % unit, "base": bf, "n": n, "got_fields": rf,
                             "expected_fields": tf}, sig, True, cls)
        back = gen.ms_from_fields(*[int(v) for v in rf])
        if abs(back - tgt) > 1:
            return violated({"what": "add%s did not move the instant by n" % unit, "base": bf, "n": n,
                             "got_fields": rf, "expected_fields": tf, "delta_ms": back - tgt}, sig, True, cls)
        # object history: a timestamp that was already converted and compared has its public calendar fields set in
        # place (as tracklib's own reader does after constructing an empty ObsTime); conversions and comparisons
        # must then speak of the fields it has NOW
        u = gen.obstime_from_ms(base)
        first = M.call(t.toAbsTime)
        M.call(OPS["<"], t, u)
        M.call(OPS["=="], t, u)
        t.year, t.month, t.day, t.hour, t.min, t.sec, t.ms = [int(v) for v in tf]
        second = M.call(t.toAbsTime)
        ctx.monitor("inplace_fields.then_convert")
        if M.is_raised(first) or M.is_raised(second) or abs(second * 1000.0 - tgt) > 1e-3:
            return violated({"what": "toAbsTime after the calendar fields were set in place does not denote the new "
                                     "fields", "fields_before": bf, "fields_now": tf, "first_conversion": first,
                             "second_conversion": second, "expected_s": tgt / 1000.0}, sig, True, cls)
        for name, op in OPS.items():
            got = M.call(op, t, u)
            if M.is_raised(got) or bool(got) != op(tgt, base):
                return violated({"what": "comparison %s after the calendar fields were set in place disagrees with "
                                         "epoch order" % name, "a_fields_now": tf, "a_fields_before": bf, "b": bf,
                                 "got": got, "expected": op(tgt, base)}, sig, True, cls)
        # aliasing: what add*() RETURNS belongs to the caller -- also for an offset of zero (the k = 0 element of a
        # series t.addSec(k * dt)).  The caller edits the returned timestamp in place; the timestamp it was computed
        # from must go on denoting its own instant.
        v = gen.obstime_from_ms(base)
        z = M.call(getattr(v, "add" + unit), 0 if n % 2 else 0.0)
        ctx.monitor("add.result_is_the_callers_own_object")
        if M.is_raised(z) or abs(gen.ms_from_fields(*[int(x) for x in gen.obstime_fields(z)]) - base) > 1:
            return violated({"what": "add%s(0) does not denote the same instant" % unit, "base": bf, "got": z if M.is_raised(z)
                             else gen.obstime_fields(z)}, sig, True, cls)
        M.scribble(z)
        M.scribble(r)
        after = M.call(v.toAbsTime)
        if tuple(int(x) for x in gen.obstime_fields(v)) != tuple(int(x) for x in bf) or M.is_raised(after) \
                or abs(after * 1000.0 - base) > 1e-3:
            return violated({"what": "a timestamp changed when the caller edited, in place, the timestamp returned by "
                                     "add%s(0) on it" % unit, "fields_before": bf, "fields_now": gen.obstime_fields(v),
                             "toAbsTime_now": after}, sig, True, cls)
        return held(sig, len(cls) > 1, cls)
    raise M.HarnessError("unknown case kind %r" % kind)


def classify(case, witness):
    return None
