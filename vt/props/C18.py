"""C18 -- DTW cost is the optimal coupling cost and the matching realises it
(DESIGN.md section 4, C18).

Everything judged is read at the API boundary of the real code:
``match(t1, t2, mode, p, dim).score``, ``["pair"]``, ``.nb_links`` and
``compare(t1, t2, MODE_COMPARISON_FRECHET)``.

Oracle (stdlib only): the textbook recursion
    C[i][j] = acc(min(C[i-1][j], C[i][j-1], C[i-1][j-1]), d(i,j))
with acc = (+ d**p) or max, and -- for every pair small enough -- the literal
statement of the property: the minimum over *all* monotone couplings,
enumerated one by one (the two are cross-checked against each other; a
disagreement is a harness error, never a verdict).

``match().score`` is the raw accumulated cost T[-1,-1] (sum of d**p, or the
maximum for p = inf): no p-th root, no division by the number of links.  That
is exactly what the property sentence states, so it is what is demanded.
``compare(..., MODE_COMPARISON_DTW, p)`` additionally normalises
((score/nb_links)**(1/p)); the property does not speak about it and it is not
judged.  ``compare(..., MODE_COMPARISON_FRECHET)`` returns the raw maximum and
is judged against the discrete Frechet distance.

The frame-local capture of T/M (sys.settrace) is diagnostics only: it feeds the
tie-cell coverage counters and labels witnesses, it never decides.
"""
from __future__ import annotations

import itertools
import math

from vt import gen, monitor as M
from vt.gen import held, violated, ood

PROP = "C18"
RULE = ("exhaustive: every unordered pair of tracks of sizes 1..3 over the 6-point lattice {0,1,2}x{0,1} (and, thorough, of "
        "sizes 1..4 over {0,1}^2), dim 2; sampled: pairs of sizes 1..6 over the lattice {0,1,2}^3 and random real tracks of "
        "sizes 1..8 (some sharing points), dim in {1,2,3}. Each case runs p in {1,2,inf} x {DTW both orders, FDTW}, "
        "MODE_MATCHING_FRECHET and compare(FRECHET) both orders. Distinct = distinct (track1, track2, dim). "
        "Non-trivial = both tracks have >= 2 fixes and the distance matrix holds >= 2 distinct values.")
ASSUMPTIONS = ["the 'pair' feature of the returned track lists, per fix of track1 and in order, the linked indices of track2",
               "distances are Euclidean in the requested dimension (dim 1 = |dz|), recomputed by the oracle from getX/getY/getZ",
               "floating tolerance 1e-9 relative (1e-12 absolute) on scores"]
EXHAUSTIVE = {"quick": "all 33 411 unordered pairs of tracks of sizes 1..3 over the lattice {0,1,2}x{0,1}, for p in {1,2,inf}",
              "thorough": "all 33 411 unordered pairs of sizes 1..3 over {0,1,2}x{0,1} and all 57 970 unordered pairs of "
                          "sizes 1..4 over {0,1}^2, for p in {1,2,inf}"}
CASE_LIMIT_S = 20.0

PS = [1, 2, "inf"]
NEX6 = 24
NEX4 = 24
NSAMP = 8


def chunks(tier, seed):
    out = []
    for k in range(NEX6):
        out.append({"kind": "ex6", "shard": k, "of": NEX6, "key": "ex6-%d" % k})
    if tier == "thorough":
        for k in range(NEX4):
            out.append({"kind": "ex4", "shard": k, "of": NEX4, "key": "ex4-%d" % k})
    n_lat = 700 if tier == "quick" else 7000
    n_real = 400 if tier == "quick" else 4000
    for k in range(NSAMP):
        out.append({"kind": "lat3", "n": n_lat, "key": "lat3-%d" % k})
    for k in range(NSAMP):
        out.append({"kind": "real", "n": n_real, "key": "real-%d" % k})
    for k in range(6 if tier == "quick" else 16):
        out.append({"kind": "scale", "n": 2 if tier == "quick" else 3, "key": "scale-%d" % k, "idx": k})
    return out


def floors(tier):
    big = tier == "thorough"
    return {"monitors": {"score.optimal": 200000 if not big else 800000,
                         "score.symmetric": 90000,
                         "fdtw.equals_dtw": 90000,
                         "coupling.shape": 200000,
                         "coupling.cost_equals_score": 200000,
                         "nb_links.equals_length": 200000,
                         "frechet.compare": 60000,
                         "oracle.dp_vs_enumeration": 90000},
            "classes": {"tie_lu_lt_ul": 100, "tie_lu_lt_ul_on_path": 100, "tie_any_predecessors": 1000,
                        "size_1": 100, "sizes_differ": 1000, "dim1": 100, "dim3": 100, "real_valued": 100,
                        "rematch_history": 10000},
            "counters": {"dtw_frames_captured": 1000},
            "distinct_nontrivial": 20000}


# --------------------------------------------------------------------------
# enumerations
def _tracks_over(points, maxlen):
    out = []
    for n in range(1, maxlen + 1):
        for seq in itertools.product(points, repeat=n):
            out.append([list(p) for p in seq])
    return out


_cache = {}


def _space(kind):
    if kind not in _cache:
        if kind == "ex6":
            pts = [(x, y, 0) for x in (0, 1, 2) for y in (0, 1)]
            _cache[kind] = _tracks_over(pts, 3)
        else:
            pts = [(x, y, 0) for x in (0, 1) for y in (0, 1)]
            _cache[kind] = _tracks_over(pts, 4)
    return _cache[kind]


def cases(chunk):
    kind = chunk["kind"]
    if kind in ("ex6", "ex4"):
        TR = _space(kind)
        idx = 0
        k, n = chunk["shard"], chunk["of"]
        for ia in range(len(TR)):
            for ib in range(ia, len(TR)):
                if idx % n == k:
                    yield {"kind": kind, "a": TR[ia], "b": TR[ib], "dim": 2, "idx": idx}
                idx += 1
        return
    rng = gen.rng_for(PROP, chunk)
    if kind == "lat3":
        for i in range(chunk["n"]):
            n1, n2 = rng.randint(1, 6), rng.randint(1, 6)
            a = [[rng.randint(0, 2), rng.randint(0, 2), rng.randint(0, 2)] for _ in range(n1)]
            b = [[rng.randint(0, 2), rng.randint(0, 2), rng.randint(0, 2)] for _ in range(n2)]
            yield {"kind": kind, "a": a, "b": b, "dim": rng.choice([1, 2, 3]), "idx": i}
    elif kind == "real":
        for i in range(chunk["n"]):
            n1, n2 = rng.randint(1, 8), rng.randint(1, 8)
            sc = rng.choice([1.0, 10.0, 1000.0, 1e-4])     # 1e-4: coordinates in kilometres / normalised units
            a = [[rng.uniform(-sc, sc), rng.uniform(-sc, sc), rng.uniform(-sc, sc)] for _ in range(n1)]
            b = [[rng.uniform(-sc, sc), rng.uniform(-sc, sc), rng.uniform(-sc, sc)] for _ in range(n2)]
            r = rng.random()
            if i % 7 == 3:
                # a track against a slightly displaced copy of itself: point distances of a few hundredths of a
                # millimetre, none of them zero
                b = [[v + rng.choice([-1, 1]) * rng.uniform(1e-5, 6e-5) for v in a[min(n1 - 1, (j * n1) // n2)]]
                     for j in range(n2)]
                r = 1.0
            if i % 7 == 5:
                # realistic magnitudes: both tracks in projected map coordinates
                a = [[p[0] + 652000.0, p[1] + 6862000.0, p[2] + 100.0] for p in a]
                b = [[p[0] + 652000.0, p[1] + 6862000.0, p[2] + 100.0] for p in b]
            if r < 0.25:        # tracks sharing fixes: zero distances, ties between reals
                for j in range(n2):
                    if rng.random() < 0.5:
                        b[j] = list(rng.choice(a))
            elif r < 0.4:       # one track is a re-timed copy of the other
                b = [list(a[min(n1 - 1, (j * n1) // n2)]) for j in range(n2)]
            yield {"kind": kind, "a": a, "b": b, "dim": rng.choice([1, 2, 3]), "idx": i}
    elif kind == "scale":
        # larger scale: tracks of hundreds / thousands of observations (a walk and a noisy, differently sampled
        # copy of it, or two unrelated walks)
        for i in range(chunk["n"]):
            n1, n2 = rng.choice([(600, 600), (1500, 40), (6000, 3), (400, 700), (900, 300), (40, 1500), (300, 310)])
            def walk(n):
                x, y, th = 0.0, 0.0, rng.uniform(0, 6.28)
                out = []
                for _ in range(n):
                    out.append([round(x, 3), round(y, 3), round(rng.uniform(0, 5), 3)])
                    th += rng.uniform(-0.5, 0.5)
                    st = rng.uniform(0.2, 3.0)
                    x += st * math.cos(th)
                    y += st * math.sin(th)
                return out
            a = walk(n1)
            if rng.random() < 0.5:
                b = [[a[min(n1 - 1, (j * n1) // n2)][0] + rng.uniform(-2, 2), a[min(n1 - 1, (j * n1) // n2)][1] + rng.uniform(-2, 2),
                      rng.uniform(0, 5)] for j in range(n2)]
            else:
                b = walk(n2)
            yield {"kind": "scale", "a": a, "b": b, "dim": rng.choice([2, 2, 3]), "idx": chunk["idx"] * 10 + i,
                   "p": rng.choice([1, 2, 2, "inf"]), "limit_x": 5}
    else:
        raise M.HarnessError("unknown chunk kind %r" % kind)


# --------------------------------------------------------------------------
# oracle
def _dist(pa, pb, dim):
    if dim == 1:
        return abs(pa[2] - pb[2])
    if dim == 2:
        return math.hypot(pa[0] - pb[0], pa[1] - pb[1])
    return math.sqrt((pa[0] - pb[0]) ** 2 + (pa[1] - pb[1]) ** 2 + (pa[2] - pb[2]) ** 2)


def _acc(prev, d, p):
    if p == "inf":
        return d if prev is None else max(prev, d)
    c = d ** p
    return c if prev is None else prev + c


def dp_optimum(D, p):
    n1, n2 = len(D), len(D[0])
    C = [[None] * n2 for _ in range(n1)]
    for i in range(n1):
        for j in range(n2):
            preds = []
            if i > 0:
                preds.append(C[i - 1][j])
            if j > 0:
                preds.append(C[i][j - 1])
            if i > 0 and j > 0:
                preds.append(C[i - 1][j - 1])
            C[i][j] = _acc(min(preds) if preds else None, D[i][j], p)
    return C[n1 - 1][n2 - 1]


def enum_optimum(D, p):
    """Literal statement: minimum over all monotone couplings (small sizes)."""
    n1, n2 = len(D), len(D[0])
    best = [None]

    def rec(i, j, acc):
        acc = _acc(acc, D[i][j], p)
        if best[0] is not None and acc > best[0]:
            return              # costs never decrease along a coupling
        if i == n1 - 1 and j == n2 - 1:
            if best[0] is None or acc < best[0]:
                best[0] = acc
            return
        if i < n1 - 1 and j < n2 - 1:
            rec(i + 1, j + 1, acc)
        if i < n1 - 1:
            rec(i + 1, j, acc)
        if j < n2 - 1:
            rec(i, j + 1, acc)
    rec(0, 0, None)
    return best[0]


def _close(a, b):
    return M.feq(a, b, 1e-9, 1e-12)


# --------------------------------------------------------------------------
def setup(ctx):
    import tracklib.algo.comparison  # noqa: F401  (fail early if the import breaks)


def _pval(p, key=None):
    """The exponent as the API takes it; with a key, in one of the other numeric types a caller may hold it in."""
    if key is not None:
        import numpy as np
        k = key % 6
        if p == "inf":
            return np.float64("inf") if k == 1 else float("inf")
        if k == 1:
            return np.int64(p)
        if k == 2:
            return float(p)
        if k == 3:
            return np.float64(p)
        if k == 4:
            return np.int32(p)
    return float("inf") if p == "inf" else p


def run_scale(case, ctx):
    """Larger pairs: exact DTW and the fast variant in both orders for one exponent, against the recursion oracle."""
    from tracklib.algo import comparison as C
    a, b, dim, p = case["a"], case["b"], case["dim"], case["p"]
    n1, n2 = len(a), len(b)
    ta = gen.make_track([tuple(q) for q in a])
    tb = gen.make_track([tuple(q) for q in b])
    A = list(zip(ta.getX(), ta.getY(), ta.getZ()))
    B = list(zip(tb.getX(), tb.getY(), tb.getZ()))
    D = [[_dist(A[i], B[j], dim) for j in range(n2)] for i in range(n1)]
    Dt = [[D[i][j] for i in range(n1)] for j in range(n2)]
    sig = ("scale", n1, n2, dim, p, tuple(a[0]), tuple(b[-1]))
    cls = ["dim%d" % dim, "scale", "tracks_of_hundreds_of_observations", "p_" + str(p)]
    opt = dp_optimum(D, p)
    pv = _pval(p)
    for label, x, y, mode, DD, m1, m2 in (("match(DTW)", ta, tb, C.MODE_MATCHING_DTW, D, n1, n2),
                                          ("match(FDTW)", ta, tb, C.MODE_MATCHING_FDTW, D, n1, n2),
                                          ("match(FDTW) with the tracks swapped", tb, ta, C.MODE_MATCHING_FDTW, Dt, n2, n1)):
        r = M.call(C.match, x, y, mode, pv, dim, False)
        if "FDTW" in label:
            ctx.monitor("fdtw.equals_dtw")
        w, _ = _check_matching(label, r, DD, p, opt, ctx, m1, m2)
        if w:
            w = dict(w)
            w.pop("pairs", None)
            w.update({"sizes": [n1, n2], "dim": dim, "p": p, "case_is_replayable_from": "replay file (tracks too long to print)"})
            return violated(w, sig, True, cls)
    return held(sig, True, cls)


def _read_match(res, n1):
    """(score, nb_links, coupling [(j_track1, i_track2)...]) or Raised."""
    def rd():
        pairs = []
        if len(res) != n1:
            raise M.HarnessError("matching has %d observations, track1 has %d" % (len(res), n1))
        for j in range(n1):
            lst = res.getObsAnalyticalFeature("pair", j)
            for i in lst:
                pairs.append((j, int(i)))
        return float(res.score), int(res.nb_links), pairs
    return M.call(rd)


def _check_matching(label, res, D, p, opt, ctx, n1, n2):
    """Judge one matching against the property.  D is indexed [track1][track2].
    Returns (witness | None, coupling)."""
    if M.is_raised(res):
        return {"what": "%s raised on an in-domain pair" % label, "raised": res}, None
    got = _read_match(res, n1)
    if M.is_raised(got):
        if got.type == "HarnessError":
            return {"what": "%s: result is not a matching over track1" % label, "raised": got}, None
        return {"what": "%s: score / pair / nb_links not readable" % label, "raised": got}, None
    score, nb, cpl = got
    ctx.monitor("score.optimal")
    if not _close(score, opt):
        return {"what": "%s: reported score is not the minimum over monotone couplings" % label,
                "score": score, "optimum": opt}, cpl
    ctx.monitor("coupling.shape")
    prob = None
    if not cpl:
        prob = "empty coupling"
    elif cpl[0] != (0, 0):
        prob = "does not start at the first pair"
    elif cpl[-1] != (n1 - 1, n2 - 1):
        prob = "does not end at the last pair"
    else:
        for (a0, b0), (a1, b1) in zip(cpl, cpl[1:]):
            if (a1 - a0, b1 - b0) not in ((0, 1), (1, 0), (1, 1)):
                prob = "step %s -> %s is not (0,1), (1,0) or (1,1)" % ((a0, b0), (a1, b1))
                break
        if prob is None:
            if any(not (0 <= a < n1 and 0 <= b < n2) for a, b in cpl):
                prob = "index out of range"
            elif {a for a, _ in cpl} != set(range(n1)) or {b for _, b in cpl} != set(range(n2)):
                prob = "an observation is linked to nothing"
    if prob:
        return {"what": "%s: pairs do not form a monotone coupling: %s" % (label, prob), "pairs": cpl}, cpl
    ctx.monitor("nb_links.equals_length")
    if nb != len(cpl):
        return {"what": "%s: nb_links differs from the number of pairs" % label, "nb_links": nb,
                "pairs": cpl}, cpl
    ctx.monitor("coupling.cost_equals_score")
    acc = None
    for a, b in cpl:
        acc = _acc(acc, D[a][b], p)
    if not _close(acc, score):
        return {"what": "%s: accumulated cost of the returned coupling differs from the reported score" % label,
                "coupling_cost": acc, "score": score, "optimum": opt, "pairs": cpl}, cpl
    return None, cpl


def _tie_stats(T, cpl):
    """Diagnostics from a captured accumulated-cost table T[i_track2, j_track1]."""
    tie_lu = tie_path = tie_any = 0
    onpath = set((b, a) for a, b in cpl) if cpl else set()
    n2, n1 = T.shape
    for i in range(1, n2):
        for j in range(1, n1):
            l, u, ul = float(T[i, j - 1]), float(T[i - 1, j]), float(T[i - 1, j - 1])
            m = min(l, u, ul)
            if (l == m) + (u == m) + (ul == m) > 1:
                tie_any += 1
            if l == u and l < ul:
                tie_lu += 1
                if (i, j) in onpath:
                    tie_path += 1
    return tie_lu, tie_path, tie_any


def run_case(case, ctx):
    if case.get("kind") == "scale":
        return run_scale(case, ctx)
    from tracklib.algo import comparison as C
    a, b, dim = case["a"], case["b"], case["dim"]
    n1, n2 = len(a), len(b)
    if n1 < 1 or n2 < 1:
        return ood("empty track")
    ta = gen.make_track([tuple(q) for q in a])
    tb = gen.make_track([tuple(q) for q in b])
    if case.get("idx", 0) % 5 == 1:
        ta, _h1 = gen.derive(ta, (a, b, dim, 1))
        tb, _h2 = gen.derive(tb, (a, b, dim, 2))
    # truth re-read through the API
    A = list(zip(ta.getX(), ta.getY(), ta.getZ()))
    B = list(zip(tb.getX(), tb.getY(), tb.getZ()))
    D = [[_dist(A[i], B[j], dim) for j in range(n2)] for i in range(n1)]
    Dt = [[D[i][j] for i in range(n1)] for j in range(n2)]
    vals = sorted(set(round(v, 12) for row in D for v in row))
    nontrivial = n1 >= 2 and n2 >= 2 and len(vals) >= 2
    sig = (tuple(map(tuple, a)), tuple(map(tuple, b)), dim)
    cls = set(["dim%d" % dim, case["kind"]])
    if n1 == 1 or n2 == 1:
        cls.add("size_1")
    if n1 != n2:
        cls.add("sizes_differ")
    if case["kind"] == "real":
        cls.add("real_valued")
    small = (n1 <= 4 and n2 <= 4) or n1 * n2 <= 16

    def fail(w, label_p=None):
        w = dict(w)
        w.update({"track1": a, "track2": b, "dim": dim, "p": label_p})
        return violated(w, sig, nontrivial, sorted(cls))

    if case.get("idx", 0) % 4 == 2:
        # error path first: the same matching requests with an observation whose coordinates are undefined cannot be
        # honoured (the fast variant fails while tracing its path back); what they raise is not judged
        bad = gen.make_track([tuple(q) for q in a])
        bad.getObs(n1 // 2).position.setX(float("nan"))
        bad.getObs(n1 // 2).position.setY(float("nan"))
        M.call(C.match, bad, tb, C.MODE_MATCHING_FDTW, 2, dim, False)
        M.call(C.match, tb, bad, C.MODE_MATCHING_FDTW, 1, dim, False)
        M.call(C.match, bad, tb, C.MODE_MATCHING_DTW, 2, dim, False)
        cls.add("after_requests_that_failed")
    for p in PS:
        opt = dp_optimum(D, p)
        if small:
            e = enum_optimum(D, p)
            ctx.monitor("oracle.dp_vs_enumeration")
            if not M.feq(e, opt, 1e-12, 1e-13):
                raise M.HarnessError("oracle disagreement: recursion %r, enumeration %r" % (opt, e))
            opt = e
        pv = _pval(p, case.get("idx", 0) + (0 if p == 1 else 1 if p == 2 else 2))
        if type(pv).__module__ == "numpy":
            cls.add("exponent_given_as_numpy_scalar")
        # --- DTW, track1 -> track2 (with diagnostics capture)
        sink = []
        with M.capture_locals([C._dtw.__code__], ["T", "M"], sink):
            r_ab = M.call(C.match, ta, tb, C.MODE_MATCHING_DTW, pv, dim, False)
        w, cpl = _check_matching("match(DTW)", r_ab, D, p, opt, ctx, n1, n2)
        diag = None
        if sink and "T" in sink[-1]:
            ctx.count("dtw_frames_captured")
            try:
                tl, tp, tany = _tie_stats(sink[-1]["T"], cpl)
                if tl:
                    cls.add("tie_lu_lt_ul")
                if tp:
                    cls.add("tie_lu_lt_ul_on_path")
                if tany:
                    cls.add("tie_any_predecessors")
                diag = {"tie_cells_left_eq_up_lt_diag": tl, "of_which_on_returned_path": tp}
            except Exception:
                ctx.count("diagnostics_failed")
        if w:
            if diag:
                w["diagnostics"] = diag
                try:
                    w["diagnostics"]["T"] = sink[-1]["T"].tolist()
                    w["diagnostics"]["M"] = [[[int(z.real), int(z.imag)] for z in row] for row in sink[-1]["M"]]
                except Exception:
                    pass
            return fail(w, p)
        # --- DTW, swapped
        r_ba = M.call(C.match, tb, ta, C.MODE_MATCHING_DTW, pv, dim, False)
        w, _ = _check_matching("match(DTW) with the tracks swapped", r_ba, Dt, p, opt, ctx, n2, n1)
        if w:
            return fail(w, p)
        ctx.monitor("score.symmetric")
        if not _close(float(r_ab.score), float(r_ba.score)):
            return fail({"what": "DTW score changes when the tracks are swapped",
                         "score_12": float(r_ab.score), "score_21": float(r_ba.score)}, p)
        # --- FDTW (order alternates with the case index so that both are driven)
        if case.get("idx", 0) % 2 == 0:
            if case.get("idx", 0) % 4 == 0:
                r_f = M.call(C.match, ta, tb, C.MODE_MATCHING_FDTW, pv, dim)        # the default verbose setting
                cls.add("default_verbose_setting")
            else:
                r_f = M.call(C.match, ta, tb, C.MODE_MATCHING_FDTW, pv, dim, False)
            w, _ = _check_matching("match(FDTW)", r_f, D, p, opt, ctx, n1, n2)
            ref = r_ab
        else:
            r_f = M.call(C.match, tb, ta, C.MODE_MATCHING_FDTW, pv, dim, False)
            w, _ = _check_matching("match(FDTW) with the tracks swapped", r_f, Dt, p, opt, ctx, n2, n1)
            ref = r_ba
        if w:
            return fail(w, p)
        ctx.monitor("fdtw.equals_dtw")
        if not _close(float(r_f.score), float(ref.score)):
            return fail({"what": "FDTW score differs from the DTW score",
                         "fdtw": float(r_f.score), "dtw": float(ref.score)}, p)
        # aliasing: the matchings returned so far belong to the caller, who moves them, re-times them, gives them a
        # feature; the two tracks (matched again for the next exponent and for the Frechet front ends) must not follow
        if case.get("idx", 0) % 3 == 0:
            for res_ in (r_ab, r_ba, r_f):
                M.scribble(res_)
            cls.add("returned_matchings_modified_by_the_caller")

    # --- discrete Frechet front ends (p is forced to infinity by the mode)
    optf = dp_optimum(D, "inf")
    r = M.call(C.match, ta, tb, C.MODE_MATCHING_FRECHET, 1, dim, False)
    w, _ = _check_matching("match(FRECHET)", r, D, "inf", optf, ctx, n1, n2)
    if w:
        return fail(w, "inf")
    for label, x, y in (("compare(FRECHET)", ta, tb), ("compare(FRECHET) with the tracks swapped", tb, ta)):
        c = M.call(C.compare, x, y, C.MODE_COMPARISON_FRECHET, 1, dim, False)
        ctx.monitor("frechet.compare")
        if M.is_raised(c):
            return fail({"what": label + " raised", "raised": c}, "inf")
        if not _close(float(c), optf):
            return fail({"what": label + " is not the discrete Frechet distance", "got": float(c),
                         "expected": optf}, "inf")
    if n1 >= 3:
        # two pairs used in turn: ANOTHER first track with the same number of fixes and the same first and last fix
        # (same default identifiers), other fixes in between, matched against the same second track
        a2 = [list(a[0])] + [[q[0] + 1.5 + 0.25 * j, q[1] - 2.0, q[2] + 1.0] for j, q in enumerate(a[1:-1])] + [list(a[-1])]
        ta2 = gen.make_track([tuple(q) for q in a2])
        A2 = list(zip(ta2.getX(), ta2.getY(), ta2.getZ()))
        D2 = [[_dist(A2[i], B[j], dim) for j in range(n2)] for i in range(n1)]
        for p2 in (2, "inf"):
            r2 = M.call(C.match, ta2, tb, C.MODE_MATCHING_DTW, _pval(p2), dim, False)
            w, _ = _check_matching("match(DTW) of another first track with the same end fixes, after the first pair",
                                   r2, D2, p2, dp_optimum(D2, p2), ctx, n1, n2)
            if w:
                w["other_first_track"] = a2
                return fail(w, p2)
        cls.add("another_track_with_the_same_end_fixes")
    # --- the documented plot option (Agg backend): drawing the cost matrix must not change what is reported
    if case.get("idx", 0) % 40 == 0:
        import matplotlib.pyplot as plt
        pp = PS[(case.get("idx", 0) // 40) % len(PS)]
        modep = (C.MODE_MATCHING_DTW, C.MODE_MATCHING_FDTW)[(case.get("idx", 0) // 120) % 2]
        rp = M.call(C.match, ta, tb, modep, _pval(pp), dim, False, True)
        M.call(plt.close, "all")
        w, _ = _check_matching("match(plot=True)", rp, D, pp, dp_optimum(D, pp), ctx, n1, n2)
        if not w:
            cp = M.call(C.compare, ta, tb, C.MODE_COMPARISON_FRECHET, 1, dim, False, True)
            M.call(plt.close, "all")
            if M.is_raised(cp) or not _close(float(cp), optf):
                w = {"what": "compare(FRECHET, plot=True) is not the discrete Frechet distance", "got": cp,
                     "expected": optf}
        cls.add("plot_option")
        if w:
            return fail(w, pp)
    # --- call history: the first track of a matching is itself the output of an earlier matching (it already
    # carries the link features), matched now against a track of another size
    prev = M.call(C.match, ta, tb, C.MODE_MATCHING_DTW, 2, dim, False)
    # --- call history: the very same two Track objects are matched again after one of them was edited in place
    # (same number of fixes, other positions); score and coupling must be those of the CURRENT positions
    if not M.is_raised(prev):
        which = case.get("idx", 0) % 2
        te = (ta, tb)[which]
        for i in range(te.size()):
            pos = te.getObs(i).position
            x0, y0, z0 = pos.getX(), pos.getY(), pos.getZ()
            pos.setX(2.0 * x0 - y0 + 1.0 + (i % 2))
            pos.setY(y0 + x0 * (i % 3) - 1.0)
            pos.setZ(z0 + (i % 2) * 2.0)
        A3 = list(zip(ta.getX(), ta.getY(), ta.getZ()))
        B3 = list(zip(tb.getX(), tb.getY(), tb.getZ()))
        D3 = [[_dist(A3[i], B3[j], dim) for j in range(n2)] for i in range(n1)]
        p3 = PS[(case.get("idx", 0) // 2) % len(PS)]
        r3 = M.call(C.match, ta, tb, C.MODE_MATCHING_DTW, _pval(p3), dim, False)
        w, _ = _check_matching("match(DTW) on the same two Track objects after one was edited in place", r3, D3, p3,
                               dp_optimum(D3, p3), ctx, n1, n2)
        cls.add("edited_in_place_history")
        if not w:
            c3 = M.call(C.compare, ta, tb, C.MODE_COMPARISON_FRECHET, 1, dim, False)
            if M.is_raised(c3) or not _close(float(c3), dp_optimum(D3, "inf")):
                w = {"what": "compare(FRECHET) on the same two Track objects after one was edited in place is not the "
                             "discrete Frechet distance of the current positions", "got": c3,
                     "expected": dp_optimum(D3, "inf")}
        if w:
            w["edited_track"] = which + 1
            w["positions_now"] = {"track1": [list(q) for q in A3], "track2": [list(q) for q in B3]}
            return fail(w, p3)
        A = A3
        a = [list(q) for q in A3]
        b = [list(q) for q in B3]
        prev = M.call(C.match, ta, tb, C.MODE_MATCHING_DTW, 2, dim, False)
    if not M.is_raised(prev):
        b2 = [tuple(q) for q in reversed(b)] + [tuple(a[0])]
        if case.get("idx", 0) % 3 == 0:
            b2 = b2[:max(1, len(b2) - 2)]
        tb2 = gen.make_track(b2)
        B2 = list(zip(tb2.getX(), tb2.getY(), tb2.getZ()))
        A2 = list(zip(prev.getX(), prev.getY(), prev.getZ()))
        if A2 == A:
            D2 = [[_dist(A2[i], B2[j], dim) for j in range(len(B2))] for i in range(n1)]
            p2 = PS[case.get("idx", 0) % len(PS)]
            mode2 = C.MODE_MATCHING_DTW if case.get("idx", 0) % 2 == 0 else C.MODE_MATCHING_FDTW
            r2 = M.call(C.match, prev, tb2, mode2, _pval(p2), dim, False)
            w, _ = _check_matching("match on a first track that was already matched before", r2, D2, p2,
                                   dp_optimum(D2, p2), ctx, n1, len(B2))
            cls.add("rematch_history")
            if w:
                w["track2_of_second_matching"] = [list(q) for q in b2]
                return fail(w, p2)
    return held(sig, nontrivial, sorted(cls))


def classify(case, witness):
    return None


# floors for the call-history workloads added in session 3 (a run in which they were silently skipped is inconclusive)
_floors_base = floors
_FLOORS_EXTRA = {'classes': {'edited_in_place_history': 10000, 'rematch_history': 10000, 'plot_option': 300, 'after_requests_that_failed': 5000,
                             'exponent_given_as_numpy_scalar': 5000, 'another_track_with_the_same_end_fixes': 5000, 'returned_matchings_modified_by_the_caller': 5000, 'tracks_of_hundreds_of_observations': 10}}


def floors(tier):
    f = _floors_base(tier)
    for kind, d in _FLOORS_EXTRA.items():
        f.setdefault(kind, {}).update(d)
    return f
