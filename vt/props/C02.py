"""C02 -- algebraic feature expressions evaluate to ordinary arithmetic
(DESIGN.md section 4, C02).

The harness generates expression *trees*, prints them with minimal
parentheses, lets the real Track.operate / Track[...] evaluate the string and
compares every returned / stored value with an independent recursive evaluator
(vt/oracles/expr.py).  Conservation snapshots check that nothing but the
assigned name moves; a recording wrapper on the real makeRPN feeds a small
stack machine that localises a defect to the parser; the operator-object route
is compared with the string route.
"""
from __future__ import annotations

import itertools
import math

from vt import gen, monitor as M
from vt.gen import held, violated, ood
from vt.oracles import expr as E

PROP = "C02"
RULE = ("expression trees printed with minimal parentheses: every tree of depth <= 2 over leaves {a, b, 2}, the 7 binary "
        "operators, unary minus and 5 functions (quick); plus, in thorough, every depth-3 tree whose root joins a depth-2 and a "
        "depth<=1 subtree over leaves {a, 2}; random trees to depth 5 (quick) / 6 (thorough) over the full alphabet (names a b s "
        "x y z t idx, literals 0 1 2 3 10 0.5 2.5, all pointwise/shorthand/aggregate functions, redundant parentheses, '--', "
        "'+-'); forms expr / name=expr / x|y|z=expr / name op= expr; vectors over {0,1,-2,3,0.5} with equal values, zeros, "
        "negatives and optional NaN on tracks of size 1..5; operator-object route for every depth-1 tree. Distinct = (form, "
        "target, printed expression, inputs); non-trivial = at least two operator nodes in the tree (precedence, associativity "
        "or nesting is exercised) or an operator-object/string comparison.")
ASSUMPTIONS = ["undefined points are not judged: division by zero, 0**negative, negative**fractional, SQRT/LOG of non-positive, "
               "SIGN(0), aggregates over NaN, |value| > 1e15, functions applied to literals, trig of |x| > 1e6",
               "knife-edge comparisons/SIGN/ARGMIN between computed operands closer than their propagated rounding bound are "
               "counted, not judged (tracklib legitimately computes f/c as f*(1/c))",
               "feature names equal to or ending with a function name, or parseable as floats, are not generated",
               "MAD is median(|x|) as documented in the Operator class"]
EXHAUSTIVE = {"quick": "all expression trees of depth <= 2 over leaves {a,b,2}, ops + - * / ^ < >, unary minus, functions ABS D I SUM MAX",
              "thorough": "all trees of depth <= 2 (as quick) and all depth-3 trees joining a depth-2 and a depth<=1 subtree over "
                          "leaves {a,2}, ops + - * / ^ <, unary minus, functions ABS D SUM"}
CASE_LIMIT_S = 30.0

BINOPS = ["+", "-", "*", "/", "^", "<", ">"]
LITS = ["0", "1", "2", "3", "10", "0.5", "2.5", ".5", ".25"]
NAMES = ["a", "b", "s"]
VIRTUAL = ["x", "y", "z", "t", "idx"]
VALS = [0.0, 1.0, -2.0, 3.0, 0.5]
NSH = 16


# --------------------------------------------------------------------------
def chunks(tier, seed):
    out = []
    for k in range(NSH):
        out.append({"kind": "exh2", "shard": k, "of": NSH, "key": "exh2.%d" % k})
    if tier == "thorough":
        for k in range(64):
            out.append({"kind": "exh3", "shard": k, "of": 64, "key": "exh3.%d" % k})
    nr = 20000 if tier == "quick" else 500000
    nch = 16 if tier == "quick" else 48
    for k in range(nch):
        out.append({"kind": "rand", "n": nr // nch, "maxdepth": 5 if tier == "quick" else 6, "key": "rand%d" % k})
    nq = 8000 if tier == "quick" else 200000
    for k in range(8 if tier == "quick" else 32):
        out.append({"kind": "seq", "n": nq // (8 if tier == "quick" else 32), "key": "seq%d" % k})
    out.append({"kind": "opobj", "key": "opobj", "reps": 3 if tier == "quick" else 20})
    out.append({"kind": "minmax", "key": "minmax", "n": 600 if tier == "quick" else 8000})
    for k in range(2):
        out.append({"kind": "divzero", "key": "divzero%d" % k, "n": 300 if tier == "quick" else 4000})
    # one very long track (tens of thousands of observations): thresholds far beyond the sizes of the other chunks
    out.append({"kind": "giant", "key": "giant", "n": 2 if tier == "quick" else 6})
    return out


def floors(tier):
    f = {"monitors": {"value.vs_oracle": 20000, "conservation.state": 20000, "rpn.semantic": 10000,
                      "opobj.vs_oracle": 100, "minmax.order_independent": 500,
                      "failed_statement.leaves_nothing_behind": 300},
         "classes": {"form:expr": 5000, "form:assign_new": 500, "form:assign_existing": 500, "form:coord": 500,
                     "form:reflex": 200, "needs_parentheses": 2000, "left_assoc_same_prec": 1000, "neg": 1000,
                     "neg_bare_after_additive": 100, "scalar_left": 1000, "scalar_right": 1000, "scalar_scalar": 300,
                     "nan_input": 300, "via:getitem": 500, "opobj": 50, "sequence_of_statements": 2000},
         "distinct_nontrivial": 10000}
    for o in BINOPS:
        f["classes"]["op:" + o] = 1000
    for fn in E.POINTWISE + E.SHORTHAND + E.AGGREGATES:
        f["classes"]["fn:" + fn] = 20
    return f


# --------------------------------------------------------------------------
RPN_LOG = []
_depth = [0]
_installed = False


def setup(ctx):
    global _installed
    if _installed:
        return
    import tracklib.core.utils as U
    orig = U.makeRPN

    def makeRPN(expression):
        _depth[0] += 1
        try:
            out = orig(expression)
        finally:
            _depth[0] -= 1
        if _depth[0] == 0:
            RPN_LOG.append((expression, list(out)))
        return out
    makeRPN.__wrapped__ = orig
    n = M.patch_everywhere(orig, makeRPN)
    if n < 2:
        raise M.HarnessError("makeRPN bindings patched: %d (expected utils + track at least)" % n)
    # the recursion inside makeRPN resolves the global name -> goes through the wrapper too
    _installed = True


# --------------------------------------------------------------------------
# tree enumeration
def level_trees(leaves, ops, fns, maxdepth):
    """Returns list by exact depth: T[d] = trees of depth exactly d."""
    T = [list(leaves)]
    for d in range(1, maxdepth + 1):
        cur = []
        lower = [t for lv in T[:d - 1] for t in lv]
        top = T[d - 1]
        for op in ops:
            for l in top:
                for r in top + lower:
                    cur.append(["bin", op, l, r])
            for l in lower:
                for r in top:
                    cur.append(["bin", op, l, r])
        for t in top:
            cur.append(["neg", t, True])
            if E.is_vector(t):
                for f in fns:
                    cur.append(["fn", f, t])
        T.append(cur)
    return T


Q_LEAVES = [["var", "a"], ["var", "b"], ["num", "2"]]
Q_FNS = ["ABS", "D", "I", "SUM", "MAX"]
T_LEAVES = [["var", "a"], ["num", "2"]]
T_OPS = ["+", "-", "*", "/", "^", "<"]
T_FNS = ["ABS", "D", "SUM"]


def exh2_trees():
    T = level_trees(Q_LEAVES, BINOPS, Q_FNS, 2)
    return T[0] + T[1] + T[2]


def exh3_trees():
    T = level_trees(T_LEAVES, T_OPS, T_FNS, 2)
    low = T[0] + T[1]
    for op in T_OPS:
        for big in T[2]:
            for small in low:
                yield ["bin", op, big, small]
                yield ["bin", op, small, big]
    for big in T[2]:
        yield ["neg", big, True]
        if E.is_vector(big):
            for f in T_FNS:
                yield ["fn", f, big]


ENVS = [
    {"a": [1.0, -2.0, 3.0], "b": [0.5, 3.0, -2.0], "s": [3.0, 1.0, 0.5]},
    {"a": [0.0, 1.0, 1.0, -2.0], "b": [1.0, 1.0, 0.0, 3.0], "s": [0.5, 0.5, 3.0, 3.0]},
    {"a": [3.0, 0.5], "b": [3.0, -2.0], "s": [1.0, 1.0]},
    {"a": [1.0, float("nan"), 3.0, 0.5, -2.0], "b": [3.0, 3.0, 1.0, 0.5, 1.0], "s": [0.5, 1.0, -2.0, 3.0, 0.0]},
    {"a": [-2.0], "b": [0.5], "s": [3.0]},
    {"a": [3.0, 1.0, -2.0, 0.5, 1.0], "b": [-2.0, 3.0, 0.5, 1.0, 3.0], "s": [1.0, -2.0, 3.0, 3.0, 0.5]},
]


def env_case(feat, rng=None):
    n = len(feat["a"])
    if rng is None:
        xyz = [[VALS[(i + 1) % 5], VALS[(2 * i + 3) % 5], 10.0 - i] for i in range(n)]
        times = [86400000 + 1500 * i * (i + 1) for i in range(n)]
    else:
        xyz = [[rng.choice(VALS + [10.0]) for _ in range(3)] for _ in range(n)]
        t = rng.randrange(0, 20 * 86400000)
        times = []
        for i in range(n):
            times.append(t)
            t += rng.choice([1, 500, 1000, 1500, 60000, 3600000])
    return {"feat": feat, "xyz": xyz, "times_ms": times}


def form_for(idx, ast, rng=None):
    r = idx % 10 if rng is None else rng.randrange(14)
    if r <= 6 or r >= 11:
        return {"form": "expr"}
    if r == 7:
        return {"form": "assign_new", "target": "c"}
    if r == 8:
        if (idx // 10) % 3 == 0 if rng is None else rng.random() < 0.3:
            return {"form": "reflex", "target": "a" if rng is None else rng.choice(["a", "b", "s", "x"]),
                    "rop": "+" if rng is None else rng.choice(["+", "-", "*", "/", "^"])}
        return {"form": "assign_existing", "target": "a" if rng is None else rng.choice(NAMES)}
    return {"form": "coord", "target": ["x", "y", "z"][(idx // 10) % 3] if rng is None else rng.choice("xyz")}


def random_tree(rng, d, want_vector=False):
    if d <= 0 or rng.random() < 0.18:
        if want_vector or rng.random() < 0.62:
            return ["var", rng.choice(NAMES + NAMES + VIRTUAL)]
        return ["num", rng.choice(LITS)]
    r = rng.random()
    if r < 0.62:
        op = rng.choice(BINOPS + ["+", "-", "*", "/"])
        l = random_tree(rng, d - 1, want_vector and rng.random() < 0.6)
        rr = random_tree(rng, d - 1, want_vector and not E.is_vector(l))
        return ["bin", op, l, rr]
    if r < 0.74:
        return ["neg", random_tree(rng, d - 1, want_vector), rng.random() < 0.6]
    if r < 0.80:
        return ["par", random_tree(rng, d - 1, want_vector)]
    fn = rng.choice(E.POINTWISE + E.SHORTHAND + E.AGGREGATES)
    return ["fn", fn, random_tree(rng, d - 1, True)]


def repeated_term_tree(rng):
    """The same function term (an aggregate, mostly) occurs two or three times in one expression, the earlier
    occurrence being an operand of an operator that is evaluated before the later one is met:
    AVG{a}*2+AVG{a}, (MAX{b}-b)/MAX{b}, SUM{a}-(SUM{a}-b)*SUM{a} ...  A value kept for the repeated term must
    not be the object that an intermediate result was written over."""
    v = rng.choice(NAMES)
    fn = rng.choice(E.AGGREGATES + E.AGGREGATES + ["ABS", "D", "I", "SQRT"])
    arg = ["var", v] if rng.random() < 0.8 else ["bin", rng.choice(["+", "*"]), ["var", v], ["var", rng.choice(NAMES)]]
    S = ["fn", fn, arg]

    def X():
        return rng.choice([["num", rng.choice(["2", "3", "0.5"])], ["var", rng.choice(NAMES)], ["var", "x"]])
    op1, op2 = rng.choice(["+", "-", "*", "/"]), rng.choice(["+", "-", "*", "/"])
    shape = rng.randrange(6)
    if shape == 0:
        return ["bin", op2, ["bin", op1, S, X()], S]                       # S*2+S
    if shape == 1:
        return ["bin", op2, ["par", ["bin", op1, S, X()]], S]              # (S-b)/S
    if shape == 2:
        return ["bin", op2, ["bin", op1, X(), S], S]                       # 2*S+S
    if shape == 3:
        return ["bin", op2, S, ["par", ["bin", op1, S, X()]]]              # S-(S*b)
    if shape == 4:
        return ["bin", op2, ["bin", op1, ["bin", "*", S, X()], S], S]      # S*2-S+S
    return ["bin", op2, ["neg", S, False], ["bin", op1, S, X()]]           # -S+S*2


def random_tree_over(rng, d, names):
    """random_tree restricted to the names that exist at this point of a program"""
    t = random_tree(rng, d)

    def fix(node):
        if node[0] == "var" and node[1] in ("a", "b", "s") and rng.random() < 0.5:
            return ["var", rng.choice(names)]
        if node[0] in ("num", "var"):
            return node
        if node[0] == "par":
            return ["par", fix(node[1])]
        if node[0] == "neg":
            return ["neg", fix(node[1]), node[2]]
        if node[0] == "fn":
            return ["fn", node[1], fix(node[2])]
        return ["bin", node[1], fix(node[2]), fix(node[3])]
    return fix(t)


def _cases(chunk):
    rng = gen.rng_for(PROP, chunk)
    kind = chunk["kind"]
    if kind in ("exh2", "exh3"):
        trees = exh2_trees() if kind == "exh2" else exh3_trees()
        for idx, ast in enumerate(trees):
            if idx % chunk["of"] != chunk["shard"]:
                continue
            c = env_case(ENVS[idx % len(ENVS)] if kind == "exh2" else ENVS[(idx // 7) % len(ENVS)])
            c.update(form_for(idx, ast))
            c["ast"] = ast
            c["via"] = "getitem" if idx % 5 == 0 else "operate"
            c["kind"] = "tree"
            yield c
    elif kind == "rand":
        for i in range(chunk["n"]):
            n = rng.choice([1, 2, 3, 3, 4, 5])
            feat = {k: [rng.choice(VALS) for _ in range(n)] for k in NAMES}
            if rng.random() < 0.12:
                feat[rng.choice(NAMES)][rng.randrange(n)] = float("nan")
            c = env_case(feat, rng)
            ast = random_tree(rng, rng.randrange(1, chunk["maxdepth"] + 1))
            if i % 8 == 5:
                # realistic magnitudes: projected map coordinates of millions of metres that differ by millimetres,
                # epoch seconds of today that differ by one second -- in features, coordinates, timestamps and
                # literals; the expressions are comparisons and light arithmetic on them
                big = rng.choice([[6861234.002, 6861234.004, 6861234.006, 6861234.008],
                                  [1758016805.0, 1758016806.0, 1758016807.0, 1758016808.0],
                                  [652345.123, 652345.125, 652345.121, 652345.127]])
                feat = {k: [rng.choice(big) for _ in range(n)] for k in NAMES}
                c = env_case(feat, rng)
                c["xyz"] = [[rng.choice(big) for _ in range(3)] for _ in range(n)]
                t0 = 1758016800000 + rng.randrange(0, 5) * 1000
                c["times_ms"] = [t0 + 1000 * k for k in range(n)]
                L, R = ["var", rng.choice(NAMES + ["x", "y", "t"])], rng.choice([["var", rng.choice(NAMES + ["y", "t"])],
                                                                               ["num", repr(rng.choice(big))]])
                if rng.random() < 0.5:
                    L, R = R, L
                if L[0] == "num" and R[0] == "num":
                    L = ["var", "a"]
                ast = ["bin", rng.choice(["<", ">", "<", ">", "-", "+"]), L, R]
                if rng.random() < 0.3:
                    ast = ["bin", rng.choice(["*", "+"]), ["par", ast], ["var", rng.choice(NAMES)]]
                c["big"] = 1
            if i % 6 == 0:
                ast = repeated_term_tree(rng)
                c["rt"] = 1
            c.update(form_for(i, ast, rng))
            c["ast"] = ast
            c["via"] = "getitem" if rng.random() < 0.2 else "operate"
            c["kind"] = "tree"
            yield c
    elif kind == "seq":
        # programs: 2..5 statements on the same track; later statements may use names assigned earlier
        for i in range(chunk["n"]):
            n = rng.choice([1, 2, 3, 3, 4, 5])
            feat = {k: [rng.choice(VALS) for _ in range(n)] for k in NAMES}
            if rng.random() < 0.08:
                feat[rng.choice(NAMES)][rng.randrange(n)] = float("nan")
            c = env_case(feat, rng)
            names = list(NAMES)
            stmts = []
            if rng.random() < 0.35:
                # read - overwrite - read again: the same function of the same name before and after the name is
                # re-assigned (a value remembered from the first evaluation must not be served again)
                v = rng.choice(NAMES + ["x", "y", "z"])
                fn = rng.choice(E.POINTWISE + E.SHORTHAND + E.AGGREGATES + E.AGGREGATES)
                use = ["fn", fn, ["var", v]]
                if rng.random() < 0.5:
                    use = ["bin", rng.choice(["+", "-", "*"]), use, random_tree_over(rng, 1, names)]
                upd = random_tree_over(rng, rng.randrange(1, 3), names)
                if not E.is_vector(upd):
                    upd = ["bin", "+", ["var", v], upd]
                form = {"form": "coord", "target": v} if v in ("x", "y", "z") else {"form": "assign_existing", "target": v}
                if rng.random() < 0.3:
                    form = {"form": "reflex", "target": v, "rop": rng.choice(["+", "-", "*"])}
                c["stmts"] = [dict(form="expr", ast=use, via="operate"), dict(form, ast=upd, via="operate"),
                              dict(form="expr", ast=use, via=rng.choice(["operate", "getitem"]))]
                c["kind"] = "seq"
                yield c
                continue
            if rng.random() < 0.15:
                # the documented externals dictionary (operate("A=A/factor", {"factor": value})): the SAME expression
                # text is evaluated two or three times, on this track, with other values for its external identifiers
                v, w = rng.choice(NAMES), rng.choice(NAMES)
                K1, K2 = ["var", "k1"], ["var", "k2"]
                shape = rng.randrange(5)
                if shape == 0:
                    ast = ["bin", "+", ["bin", "*", ["var", v], K1], ["var", w]]
                elif shape == 1:
                    ast = ["bin", "-", ["bin", "/", ["var", v], K1], ["bin", "*", K2, ["var", w]]]
                elif shape == 2:
                    ast = ["fn", "ABS", ["bin", "-", ["var", v], K1]]
                elif shape == 3:
                    ast = ["bin", "+", ["bin", "*", K1, K2], ["var", v]]
                else:
                    ast = ["bin", "*", ["par", ["bin", "+", ["var", v], K1]], ["par", ["bin", "-", ["var", w], K2]]]
                form = rng.choice([{"form": "expr"}, {"form": "expr"}, {"form": "assign_new", "target": "c"},
                                   {"form": "assign_existing", "target": rng.choice(NAMES)}])
                stmts = []
                for _ in range(rng.randrange(2, 4)):
                    stmts.append(dict(form, ast=ast, via="operate",
                                      ext={"k1": rng.choice([2.0, 4.0, 10.0, 0.5, 3.0, 2.5]),
                                           "k2": rng.choice([0.5, 1.0, 3.0, 10.0, 2.0])}))
                c["stmts"] = stmts
                c["kind"] = "seq"
                yield c
                continue
            if rng.random() < 0.25:
                # an aggregate evaluated INSIDE an assignment, the same name then changed (by that very assignment or
                # by a later one), and the same aggregate asked for again: nothing remembered from the first
                # evaluation -- on either evaluation path -- may be served the second time
                v = rng.choice(NAMES)
                w = rng.choice([k for k in NAMES if k != v])
                fn = rng.choice(E.AGGREGATES)
                arg1 = rng.choice([["var", v], ["var", v], ["bin", rng.choice(["+", "*"]), ["var", v], ["var", w]]])
                agg1 = ["fn", fn, arg1]
                rhs = rng.choice([agg1, ["bin", rng.choice(["-", "+", "*"]), ["var", v], agg1],
                                  ["bin", "-", ["var", w], agg1]])
                tgt = rng.choice([v, v, "c"])
                form1 = {"form": "assign_existing", "target": v} if tgt == v else {"form": "assign_new", "target": "c"}
                stmts = [dict(form1, ast=rhs, via="operate")]
                if tgt != v or rng.random() < 0.4:
                    upd = ["bin", rng.choice(["+", "*", "-"]), ["var", v], rng.choice([["var", w], ["num", "2"], ["num", "3"]])]
                    stmts.append(dict({"form": "assign_existing", "target": v}, ast=upd, via="operate"))
                arg2 = arg1 if rng.random() < 0.6 else ["bin", rng.choice(["-", "*", "+"]), ["var", v], ["var", w]]
                again = ["fn", fn, arg2]
                if rng.random() < 0.4:
                    again = ["bin", rng.choice(["+", "-", "*"]), again, rng.choice([["var", w], ["num", "2"]])]
                stmts.append(dict(form="expr" if rng.random() < 0.7 else "assign_new", target="d", ast=again,
                                  via=rng.choice(["operate", "operate", "getitem"])))
                c["stmts"] = stmts
                c["kind"] = "seq"
                yield c
                continue
            for k in range(rng.randrange(2, 6)):
                ast = random_tree_over(rng, rng.randrange(1, 4), names)
                f = form_for(k, ast, rng)
                if f["form"] == "reflex" and f["target"] not in names + ["x"]:
                    f["target"] = rng.choice(names)
                if f["form"] == "assign_existing":
                    f["target"] = rng.choice(names)
                if f["form"] == "assign_new":
                    f["target"] = rng.choice(["c", "d", "c"])
                    if f["target"] not in names:
                        names.append(f["target"])
                st = dict(f, ast=ast, via="getitem" if rng.random() < 0.2 else "operate")
                stmts.append(st)
            if rng.random() < 0.25 and len(stmts) >= 2:
                # error path: a statement that cannot be evaluated (it names a feature the track does not have)
                # stops half-way, after its first sub-expressions were computed; the statements after it must still
                # evaluate to ordinary arithmetic
                bad = rng.choice(["({a}+{b})*q", "{a}*2+zz", "SUM{{{a}*{b}}}+nope", "c=({a}*2)+qq", "AVG{{{a}}}-{b}*q",
                                  "{a}/({b}+1)-w9*2"]).format(a=rng.choice(NAMES), b=rng.choice(NAMES))
                stmts.insert(rng.randrange(0, len(stmts)), {"form": "fail", "text": bad, "ast": ["num", "0"], "via": "operate"})
                if rng.random() < 0.5:
                    stmts.append(dict(form="expr", via="operate",
                                      ast=["bin", "+", ["fn", rng.choice(["AVG", "SUM", "MAX", "MIN"]), ["var", rng.choice(NAMES)]],
                                           ["var", rng.choice(NAMES)]]))
            c["stmts"] = stmts
            c["kind"] = "seq"
            yield c
    elif kind == "minmax":
        # MIN / MAX over vectors that hold NaN (as D{} and D2{} produce them): every rotation of the vector
        for i in range(chunk["n"]):
            n = rng.choice([2, 3, 3, 4, 5, 6])
            v = [rng.choice(VALS + [2.5, -0.5]) for _ in range(n)]
            for k in rng.sample(range(n), rng.choice([1, 1, 1, 2]) if n > 2 else 1):
                v[k] = float("nan")
            if i % 3 == 0:
                v[0] = float("nan")
            # ... and, since round W/X, every other aggregate that is a symmetric function of its values (all but
            # ARGMIN / ARGMAX): whatever the NaN policy, the answer cannot depend on WHERE the NaN sits
            yield {"kind": "minmax", "v": v, "fn": rng.choice(["MIN", "MAX"] if i % 2 else
                                                               ["SUM", "AVG", "VAR", "STD", "MSE", "RMSE", "MAD", "MEDIAN"]),
                   "route": rng.choice(["expr", "expr", "opobj", "sub"])}
    elif kind == "giant":
        for i in range(chunk["n"]):
            m = rng.choice([24, 30, 36])
            pat = [rng.choice(VALS + [2.5, -0.5, 7.0]) for _ in range(m)]
            if i % 2 == 0:
                pat[rng.randrange(1, m - 1)] = float("nan")
            yield {"kind": "giant", "pattern": pat, "copies": rng.choice([2001, 1700]) if i % 2 == 0 else 350,
                   "limit_x": 6}
    elif kind == "divzero":
        # feature / feature where the denominator holds zeros (also 0/0): the value there is undefined and not judged,
        # but the evaluation must return, and every OTHER observation must hold the ordinary quotient
        for i in range(chunk["n"]):
            n = rng.choice([2, 3, 4, 5, 6])
            a = [rng.choice([0.0, 0.0, 1.0, -2.0, 3.0, 0.5]) for _ in range(n)]
            b = [rng.choice([0.0, 0.0, 1.0, -2.0, 0.5]) for _ in range(n)]
            if i % 3 == 0:
                k = rng.randrange(n)
                a[k] = b[k] = 0.0
            yield {"kind": "divzero", "a": a, "b": b, "expr": rng.choice(["a/b", "a/a", "b/b", "(a+b)/a", "c=a/b", "a/b+1"]),
                   "route": rng.choice(["expr", "expr", "opobj"])}
    elif kind == "opobj":
        for rep in range(chunk["reps"]):
            for ei, feat in enumerate(ENVS):
                if rep:
                    n = len(feat["a"])
                    feat = {k: [rng.choice(VALS) for _ in range(n)] for k in NAMES}
                for op in BINOPS:
                    for shape in ("ff", "fs", "sf"):
                        yield dict(env_case(feat), kind="opobj", what=["bin", op, shape], lit=rng.choice(LITS[1:]))
                for fn in E.POINTWISE + E.SHORTHAND + E.AGGREGATES:
                    yield dict(env_case(feat), kind="opobj", what=["fn", fn], lit="2")


def cases(chunk):
    """The generated cases; every third tree / sequence case spells its feature names unusually (NAME_QUADS), and a
    few are inflated to tracks of hundreds of observations (same trees and statements, longer vectors)."""
    import random
    rng = random.Random("%s:%s:%s:post" % (chunk.get("tier"), chunk.get("seed"), chunk.get("key")))
    for i, c in enumerate(_cases(chunk)):
        if c.get("kind") in ("tree", "seq") and "feat" in c:
            if i % 3 == 1:
                c["names"] = 1 + (i // 3) % (len(NAME_QUADS) - 1)
            if i % 5 == 2 and not c.get("big"):
                # the track's positions are geographic or Earth-centred coordinates: x, y, z are then longitude /
                # latitude / height (or X, Y, Z) and expressions read and write them all the same
                c["coord"] = "GEO" if i % 2 else "ECEF"
                c["coords_sys"] = c["coord"]
            if chunk["kind"] in ("rand", "seq") and i % 40 == 11 and not c.get("big"):
                n = rng.choice([129, 130, 257, 300, 520, 1100])
                feat = {k: [rng.choice(VALS) for _ in range(n)] for k in NAMES}
                if rng.random() < 0.15:
                    feat[rng.choice(NAMES)][rng.randrange(n)] = float("nan")
                big = env_case(feat, rng)
                c["feat"], c["xyz"], c["times_ms"] = big["feat"], big["xyz"], big["times_ms"]
                c["scale"] = 1
        yield c


def decode_case(case):
    def fix(v):
        if v == "NaN":
            return float("nan")
        if isinstance(v, list):
            return [fix(x) for x in v]
        if isinstance(v, dict):
            return {k: fix(x) for k, x in v.items()}
        return v
    return fix(case)


# --------------------------------------------------------------------------
# less usual but legal feature names (operate()'s own documentation uses "P=X+Y"): the trees and the oracle keep the
# logical names a, b, s (inputs) and c (new target); a NameProxy spells them at the library boundary
NAME_QUADS = [("a", "b", "s", "c"), ("X", "Y", "Z", "P"), ("T", "Idx", "A", "a1"), ("ab", "abc", "b", "a"),
              ("speed", "sp", "s2", "S"), ("id", "u", "i", "ui"), ("a_b", "A", "a1", "V"), ("Y", "Z", "X", "T"),
              ("ele", "time", "elevation", "timer"), ("xy", "yz", "zt", "xyz"), ("yzt", "xyzt", "ty", "tz"),
              ("dx", "id", "ti", "im")]


def build(case):
    n = len(case["feat"]["a"])
    tr = gen.make_track([tuple(p) for p in case["xyz"]], times_ms=case["times_ms"], coord=case.get("coord", "ENU"))
    if case.get("coords_sys"):
        M.CTX.count("track_in_" + case["coords_sys"])
    if case.get("names"):
        tr = gen.NameProxy(tr, dict(zip(("a", "b", "s", "c"), NAME_QUADS[case["names"] % len(NAME_QUADS)])))
        M.CTX.count("less_usual_feature_names")
    for k in NAMES:
        col_ = list(case["feat"][k])
        import numpy as np
        if (n + int(case["times_ms"][0] // 250)) % 5 == 2 and np.geterr()["under"] != "raise":
            # the values (NaN included) held as numpy scalars, as list(array) hands them out (not in the chunks where
            # numpy was asked to raise on underflow: arithmetic on numpy scalars then raises by the user's own choice)
            col_ = [np.float64(v) for v in col_]
            M.CTX.count("values_held_as_numpy_scalars")
        tr.createAnalyticalFeature(k, col_)
    if (n + int(case["times_ms"][0] // 500)) % 4 == 0:
        # the track handed to the evaluator is itself the product of another public operation (same values)
        if isinstance(tr, gen.NameProxy):
            d, _how = gen.derive(tr._tr, (case["xyz"], case["times_ms"]))
            tr = gen.NameProxy(d, tr._nm)
        else:
            tr, _how = gen.derive(tr, (case["xyz"], case["times_ms"]))
    env = {k: list(v) for k, v in case["feat"].items()}
    env["x"] = [p[0] for p in case["xyz"]]
    env["y"] = [p[1] for p in case["xyz"]]
    env["z"] = [p[2] for p in case["xyz"]]
    env["t"] = [(ms // 1000) + (ms % 1000) / 1000.0 for ms in case["times_ms"]]
    env["idx"] = [float(i) for i in range(n)]
    return tr, env, n


def state(tr):
    names = list(tr.getListAnalyticalFeatures())
    return {"names": names,
            "feat": {k: list(tr.getAnalyticalFeature(k)) for k in names},
            "x": list(tr.getX()), "y": list(tr.getY()), "z": list(tr.getZ()),
            "t": [gen.obstime_fields(t) for t in tr.getTimestamps()],
            "nfeat": [len(o.features) for o in tr.getObsList()]}


def same_list(A, B):
    return len(A) == len(B) and all(M.feq(x, y, 0, 0) for x, y in zip(A, B))


def diff_state(before, after, allowed_feature=None, allowed_coord=None):
    """Conservation: everything but the assigned name is bit-identical."""
    bn = [k for k in before["names"] if k != allowed_feature]
    an = [k for k in after["names"] if k != allowed_feature]
    if sorted(bn) != sorted(an):
        return "feature list changed: %r -> %r" % (before["names"], after["names"])
    if allowed_feature is None and before["names"] != after["names"]:
        return "feature list order changed without assignment: %r -> %r" % (before["names"], after["names"])
    for k in bn:
        if not same_list(before["feat"][k], after["feat"][k]):
            return "feature %r changed as a side effect: %r -> %r" % (k, before["feat"][k], after["feat"][k])
    for c in "xyz":
        if c != allowed_coord and not same_list(before[c], after[c]):
            return "coordinate %s changed as a side effect" % c
    if before["t"] != after["t"]:
        return "timestamps changed"
    if any(nf != len(after["names"]) for nf in after["nfeat"]):
        return "observations carry %r values for %d listed features" % (after["nfeat"], len(after["names"]))
    if any(str(k).startswith("#") for k in after["names"]):
        return "evaluator temporary still listed: %r" % (after["names"],)
    return None


def tree_classes(ast, cls):
    def walk(node, parent_op=None, side=None):
        k = node[0]
        if k == "bin":
            op = node[1]
            cls.add("op:" + op)
            lv, rv = E.is_vector(node[2]), E.is_vector(node[3])
            if lv and not rv:
                cls.add("scalar_right")
            elif rv and not lv:
                cls.add("scalar_left")
            elif not lv and not rv:
                cls.add("scalar_scalar")
            if parent_op is not None:
                if E.PREC[op] < E.PREC[parent_op]:
                    cls.add("needs_parentheses")
                if E.PREC[op] == E.PREC[parent_op] and side == "R":
                    cls.add("left_assoc_same_prec")
                if E.PREC[op] == E.PREC[parent_op] and side == "L":
                    cls.add("chain_same_prec")
            walk(node[2], op, "L")
            walk(node[3], op, "R")
        elif k == "neg":
            cls.add("neg")
            if parent_op in ("+", "-") and side == "R" and node[2]:
                cls.add("neg_bare_after_additive")
            walk(node[1], None, None)
        elif k == "par":
            cls.add("par")
            walk(node[1], None, None)
        elif k == "fn":
            cls.add("fn:" + node[1])
            walk(node[2], None, None)
        elif k == "var" and node[1] in VIRTUAL:
            cls.add("virtual:" + node[1])
    walk(ast)


def n_operator_nodes(ast):
    k = ast[0]
    if k in ("num", "var"):
        return 0
    if k == "par":
        return n_operator_nodes(ast[1])
    if k == "neg":
        return 1 + n_operator_nodes(ast[1])
    if k == "fn":
        return 1 + n_operator_nodes(ast[2])
    return 1 + n_operator_nodes(ast[2]) + n_operator_nodes(ast[3])


def judge_stmt(tr, env, n, stmt, ctx, cls):
    """One statement on an existing track.  Returns ("ood", why) | ("violated", witness) | ("held", None);
    on a held assignment env is updated with the values read back from the track."""
    ast = stmt["ast"]
    form = stmt["form"]
    cls.add("form:" + form)
    if form == "fail":
        text = stmt["text"]
        stmt["_text"] = text
        stmt["_nops"] = 2
        before = state(tr)
        got = M.call(tr.operate, text)
        after = M.call(state, tr)
        ctx.monitor("failed_statement.leaves_nothing_behind")
        if not M.is_raised(got):
            return "violated", {"what": "an expression naming a feature the track does not have was evaluated",
                                "expression": text, "got": got}
        if M.is_raised(after):
            return "violated", {"what": "track unreadable after a statement that could not be evaluated",
                                "expression": text, "raised": after}
        p = diff_state(before, after)
        if p:
            return "violated", {"what": "a statement that could not be evaluated left something behind on the track "
                                        "(nothing may change without a completed '=')", "expression": text,
                                "problem": p, "how_it_failed": got}
        return "held", None
    ext = stmt.get("ext")
    body = E.to_str(ast)
    if ext:
        cls.add("externals_dictionary")

        def subst(node):
            if node[0] == "var" and node[1] in ext:
                return ["num", repr(float(ext[node[1]]))]
            if node[0] in ("num", "var"):
                return node
            if node[0] == "par":
                return ["par", subst(node[1])]
            if node[0] == "neg":
                return ["neg", subst(node[1]), node[2]]
            if node[0] == "fn":
                return ["fn", node[1], subst(node[2])]
            return ["bin", node[1], subst(node[2]), subst(node[3])]
        ast = subst(ast)
    tree_classes(ast, cls)
    if not E.well_typed(ast):
        return "ood", "function applied to a literal"
    target = stmt.get("target")
    if form == "expr":
        text = body
        eff = ast
    elif form == "reflex":
        text = "%s%s=%s" % (target, stmt["rop"], body)
        eff = ["bin", stmt["rop"], ["var", target], ast]
        cls.add("op:" + stmt["rop"])
    else:
        text = "%s=%s" % (target, body)
        eff = ast
    stmt["_text"] = text
    try:
        val = E.evaluate(eff, env, n)
    except E.Undefined as e:
        return "ood", "undefined: " + str(e).split("(")[0].strip()
    except E.KnifeEdge as e:
        cls.add("knife_edge")
        return "ood", "knife-edge: " + str(e)
    except (OverflowError, ZeroDivisionError) as e:
        return "ood", "undefined: " + type(e).__name__
    if E.ill_conditioned(val):
        return "ood", "ill-conditioned (rounding bound too wide to judge)"
    stmt["_nops"] = n_operator_nodes(eff)
    if (len(text) + n + len(stmt.get("_text", ""))) % 4 == 0 and not ext:
        # aliasing: makeRPN is public; a caller who parsed the same text (or its right-hand side) beforehand owns the
        # token list he got and may have consumed it / bound values into it in place
        import tracklib.core.utils as U
        real = tr._n(text) if isinstance(tr, gen.NameProxy) else text
        for piece in (real, real.split("=", 1)[-1]):
            toks = M.call(U.makeRPN, piece)
            if isinstance(toks, list):
                M.scribble(toks)
        ctx.count("token_list_of_makeRPN_modified_by_the_caller")
    before = state(tr)
    del RPN_LOG[:]
    if ext:
        cls.add("via:operate")
        got = M.call(tr.operate, text, dict(ext))
    elif stmt.get("via") == "getitem" and any(c in text for c in "+-*/^<>()='"):
        cls.add("via:getitem")
        got = M.call(lambda: tr[text])
    else:
        cls.add("via:operate")
        got = M.call(tr.operate, text)
    rpn = RPN_LOG[0] if RPN_LOG else None
    after = M.call(state, tr)

    def witness(what, **kw):
        w = {"what": what, "expression": text, "form": form, "n": n,
             "inputs": {k: env[k] for k in sorted(env) if k != "idx"},
             "expected": val.v, "rounding_bound": val.e}
        w.update(kw)
        # localisation: does tracklib's own postfix program, run by an independent stack machine, mean the same?
        if rpn is not None:
            try:
                r = E.eval_rpn(rpn[1], tr.real_env(env) if isinstance(tr, gen.NameProxy) else env, n)
                rv = r[-1]
                same = all(E.close(rv.v[i], val, i) for i in range(n))
                w["parser"] = {"rewritten": rpn[0], "rpn": rpn[1],
                               "rpn_means_the_same_as_the_tree": same}
            except Exception as ex:  # noqa
                w["parser"] = {"rewritten": rpn[0], "rpn": rpn[1], "rpn_machine": repr(ex)[:200]}
        return w

    # diagnostic monitor on the parser (never a verdict on its own; evaluated with the inputs of this statement)
    if rpn is not None:
        try:
            r = E.eval_rpn(rpn[1], tr.real_env(env) if isinstance(tr, gen.NameProxy) else env, n)
            ctx.monitor("rpn.semantic")
            if not all(E.close(r[-1].v[i], val, i) for i in range(n)):
                ctx.count("rpn_monitor_disagrees_with_the_tree")
        except (E.Undefined, E.KnifeEdge, ValueError, IndexError, OverflowError, ZeroDivisionError, TypeError):
            ctx.count("rpn_monitor_not_evaluable")
    if M.is_raised(got):
        return "violated", witness("evaluation raised", raised=got)
    if M.is_raised(after):
        return "violated", witness("track unreadable after evaluation", raised=after)
    ctx.monitor("value.vs_oracle")
    if form == "expr":
        try:
            lst = list(got)
        except TypeError:
            return "violated", witness("evaluation did not return a list", got=got)
        if len(lst) != n or not all(E.close(lst[i], val, i) for i in range(n)):
            return "violated", witness("returned values differ from ordinary arithmetic", got=lst)
        ctx.monitor("conservation.state")
        p = diff_state(before, after)
        if p:
            return "violated", witness("track modified by an expression without '='", problem=p)
    else:
        ctx.monitor("conservation.state")
        if form == "coord" or (form == "reflex" and target in ("x", "y", "z")):
            stored = after[target]
            p = diff_state(before, after, None, target)
        else:
            if target not in after["names"]:
                return "violated", witness("assigned name is not listed afterwards", listed=after["names"])
            stored = after["feat"][target]
            p = diff_state(before, after, target, None)
        if len(stored) != n or not all(E.close(stored[i], val, i) for i in range(n)):
            return "violated", witness("stored values differ from ordinary arithmetic", got=stored, target=target)
        if p:
            return "violated", witness("assignment changed something else", problem=p)
        env[target] = [float(v) for v in stored]
    return "held", None


def _order_free(ast):
    """Only pointwise operations, MIN/MAX as the only aggregates, no positional name (idx, t)."""
    k = ast[0]
    if k == "num":
        return True
    if k == "var":
        return ast[1] in ("a", "b", "s", "x", "y", "z")
    if k in ("par", "neg"):
        return _order_free(ast[1])
    if k == "fn":
        return (ast[1] in E.POINTWISE or ast[1] in ("MIN", "MAX")) and _order_free(ast[2])
    return _order_free(ast[2]) and _order_free(ast[3])


def order_independence(case, st, tr, n, ctx):
    """Metamorphic monitor for the one situation the arithmetic oracle leaves open: MIN / MAX over values that
    include NaN.  Whatever NaN policy is documented, the minimum / maximum of a set of values cannot depend on the
    ORDER of the observations: evaluating the same order-free expression on the track with its observations
    rotated by one must give the rotated result.  Returns None (not applicable), {} (held) or a witness."""
    if st["form"] != "expr" or n < 2 or not _order_free(st["ast"]):
        return None
    text = E.to_str(st["ast"])
    rot = dict(case)
    rot["feat"] = {k: v[1:] + v[:1] for k, v in case["feat"].items()}
    rot["xyz"] = case["xyz"][1:] + case["xyz"][:1]
    tr2, _, _ = build(rot)
    r1 = M.call(tr.operate, text)
    r2 = M.call(tr2.operate, text)
    ctx.monitor("minmax.order_independent")
    if M.is_raised(r1) != M.is_raised(r2):
        return {"what": "MIN/MAX over values with NaN: evaluation raises for one order of the observations only",
                "expression": text, "inputs": case["feat"], "original": r1, "rotated": r2}
    if M.is_raised(r1):
        return {}
    try:
        l1, l2 = list(r1), list(r2)
    except TypeError:
        return {"what": "evaluation did not return a list", "expression": text, "got": [r1, r2]}
    if len(l1) != n or len(l2) != n or not all(M.feq(a, b, 0, 0) for a, b in zip(l1[1:] + l1[:1], l2)):
        return {"what": "MIN/MAX over values that include NaN depends on the order of the observations",
                "expression": text, "inputs": case["feat"], "xyz": case["xyz"], "original": l1,
                "same_track_rotated_by_one": l2}
    return {}


def run_tree(case, ctx):
    cls = set()
    tr, env, n = build(case)
    if any(v != v for k in NAMES for v in env[k]):
        cls.add("nan_input")
    if any(v == 0 for k in NAMES for v in env[k]):
        cls.add("zero_input")
    cls.add("size:%d" % n)
    if case.get("rt"):
        cls.add("repeated_function_term")
    if case.get("big"):
        cls.add("realistic_magnitudes")
    if case.get("scale"):
        cls.add("track_of_hundreds_of_observations")
    if case.get("names"):
        cls.add("less_usual_feature_names")
    stmts = case["stmts"] if case["kind"] == "seq" else [case]
    other = other_before = None
    cp = env_cp = None
    if case["kind"] == "seq" and (n + len(stmts)) % 3 == 0 and n >= 1:
        # two tracks related by a public derivation whose result owns its observations (time-span extraction over
        # the whole range): the statements run on one of them, the other must stay exactly as it was
        ts = tr.getTimestamps()
        sib = M.call(tr.extractSpanTime, min(ts), max(ts))
        if not M.is_raised(sib) and sib.size() == n and all(a is not b for a, b in zip(sib.getObsList(), tr.getObsList())):
            if len(stmts) % 2:
                tr, sib = sib, tr                 # the statements run on the derived track
            other, other_before = sib, state(sib)
            cls.add("related_track_must_stay_untouched")
    texts = []
    nt = False
    judged = 0
    for k, st in enumerate(stmts):
        st = dict(st)
        verdict, info = judge_stmt(tr, env, n, st, ctx, cls)
        if verdict == "ood" and judged == 0 and case["kind"] == "tree" and "aggregate over NaN" in info:
            w = order_independence(case, st, tr, n, ctx)
            if w is not None:
                cls.add("nan_in_minmax")
                sig = ((st.get("_text") or E.to_str(st["ast"]), "order"),
                       tuple(map(repr, (case["feat"]["a"], case["feat"]["b"], case["feat"]["s"]))), n)
                if w:
                    return violated(w, sig, True, sorted(cls))
                return held(sig, True, sorted(cls))
        if verdict == "ood":
            if judged == 0:
                return ood(info, ["knife_edge"] if info.startswith("knife") else
                           ["ill_conditioned"] if info.startswith("ill") else ["ood"])
            ctx.count("sequence_cut_at_out_of_domain_statement")
            break
        texts.append(st["_text"])
        nt = nt or st.get("_nops", 0) >= 2 or k >= 1
        judged += 1
        sig = (tuple(texts), tuple(map(repr, (case["feat"]["a"], case["feat"]["b"], case["feat"]["s"]))), n)
        if verdict == "violated":
            if len(stmts) > 1:
                info["statements_so_far"] = list(texts)
            return violated(info, sig, nt, sorted(cls))
        if k == 0 and cp is None and case["kind"] == "seq" and (n + len(stmts)) % 3 == 1:
            # two independent tracks used in turn: a copy() is taken AFTER the first statement was evaluated (the
            # original has read its features by then); the remaining statements run on the original; the copy is
            # evaluated at the end and must answer with ITS values (those at the time of the copy)
            real = tr._tr if isinstance(tr, gen.NameProxy) else tr
            c_ = M.call(real.copy)
            if not M.is_raised(c_):
                cp = gen.NameProxy(c_, tr._nm) if isinstance(tr, gen.NameProxy) else c_
                env_cp = {kk: list(vv) for kk, vv in env.items()}
    if cp is not None:
        cls.add("copy_taken_after_the_first_statement")
        ast_ = ["bin", "-", ["bin", "+", ["var", "a"], ["bin", "*", ["var", "b"], ["var", "s"]]], ["var", "x"]]
        v2, i2 = judge_stmt(cp, env_cp, n, {"form": "expr", "ast": ast_, "via": "operate"}, ctx, cls)
        if v2 == "violated":
            i2["history"] = ("a copy() taken after the first statement, evaluated after the remaining statements ran "
                             "on the original")
            i2["statements_on_the_original"] = list(texts)
            return violated(i2, sig, True, sorted(cls))
    if other is not None:
        ctx.monitor("related_track.untouched")
        after_o = M.call(state, other)
        p = "unreadable: %r" % (after_o,) if M.is_raised(after_o) else diff_state(other_before, after_o)
        if p:
            return violated({"what": "statements evaluated on one track changed (or broke) another track related to it "
                                     "by a time-span extraction", "problem": p, "statements": list(texts)},
                            sig, True, sorted(cls))
    if case["kind"] == "seq" and judged >= 2:
        cls.add("sequence_of_statements")
    return held(sig, nt, sorted(cls))


# --------------------------------------------------------------------------
OBJ_BIN = {"+": "ADDER", "-": "SUBSTRACTER", "*": "MULTIPLIER", "/": "DIVIDER", "^": "POWER", ">": "ABOVE", "<": "BELOW"}
OBJ_FS = {"+": "SCALAR_ADDER", "-": "SCALAR_SUBSTRACTER", "*": "SCALAR_MULTIPLIER", "/": "SCALAR_DIVIDER",
          "^": "SCALAR_POWER", ">": "SCALAR_ABOVE", "<": "SCALAR_BELOW"}
OBJ_SF = {"+": "SCALAR_ADDER", "-": "SCALAR_REV_SUBSTRACTER", "*": "SCALAR_MULTIPLIER", "/": "SCALAR_REV_DIVIDER",
          "^": "SCALAR_REV_POWER", ">": "SCALAR_REV_ABOVE", "<": "SCALAR_REV_BELOW"}
OBJ_FN = {"ABS": "RECTIFIER", "SQRT": "SQRT", "EXP": "EXP", "COS": "COS", "SIN": "SIN", "TAN": "TAN", "SIGN": "SIGN",
          "DIODE": "DIODE", "LOG": "LOG", "D": "DIFFERENTIATOR", "I": "INTEGRATOR", "D2": "SECOND_ORDER_FINITE_DIFF",
          "SUM": "SUM", "AVG": "AVERAGER", "VAR": "VARIANCE", "STD": "STDDEV", "MSE": "MSE", "RMSE": "RMSE", "MAD": "MAD",
          "MIN": "MIN", "MAX": "MAX", "MEDIAN": "MEDIAN", "ARGMIN": "ARGMIN", "ARGMAX": "ARGMAX"}


def run_opobj(case, ctx):
    from tracklib.core.operators import Operator
    tr, env, n = build(case)
    what = case["what"]
    lit = case["lit"]
    cls = {"opobj"}
    if what[0] == "bin":
        op, shape = what[1], what[2]
        if shape == "ff":
            ast = ["bin", op, ["var", "a"], ["var", "b"]]
            call = lambda: tr.operate(getattr(Operator, OBJ_BIN[op]), "a", "b", "o_")
            name = OBJ_BIN[op]
        elif shape == "fs":
            ast = ["bin", op, ["var", "a"], ["num", lit]]
            call = lambda: tr.operate(getattr(Operator, OBJ_FS[op]), "a", float(lit), "o_")
            name = OBJ_FS[op]
        else:
            ast = ["bin", op, ["num", lit], ["var", "a"]]
            call = lambda: tr.operate(getattr(Operator, OBJ_SF[op]), "a", float(lit), "o_")
            name = OBJ_SF[op]
        void = True
    else:
        fn = what[1]
        ast = ["fn", fn, ["var", "a"]]
        name = OBJ_FN[fn]
        void = fn not in E.AGGREGATES
        if void:
            call = lambda: tr.operate(getattr(Operator, name), "a", "o_")
        else:
            call = lambda: tr.operate(getattr(Operator, name), "a")
    cls.add("opobj:" + name)
    try:
        val = E.evaluate(ast, env, n)
    except (E.Undefined, E.KnifeEdge, OverflowError, ZeroDivisionError) as e:
        return ood("undefined: " + str(e).split("(")[0].strip(), ["ood"])
    text = E.to_str(ast)
    sig = ("opobj", name, text, tuple(map(repr, (env["a"], env["b"]))), lit)
    before = state(tr)
    got = M.call(call)
    w = {"operator": name, "expression": text, "inputs": {"a": env["a"], "b": env["b"]}, "expected": val.v}
    ctx.monitor("opobj.vs_oracle")
    if M.is_raised(got):
        return violated(dict(w, what="operator object raised", raised=got), sig, True, sorted(cls))
    if void:
        stored = M.call(tr.getAnalyticalFeature, "o_")
        if M.is_raised(stored) or len(stored) != n or not all(E.close(stored[i], val, i) for i in range(n)):
            return violated(dict(w, what="operator object stored other values than ordinary arithmetic", got=stored),
                            sig, True, sorted(cls))
        after = state(tr)
        p = diff_state(before, after, "o_", None)
        if p:
            return violated(dict(w, what="operator object changed something else", problem=p), sig, True, sorted(cls))
    else:
        if not E.close(got, val, 0):
            return violated(dict(w, what="aggregate operator object returned another value", got=got), sig, True,
                            sorted(cls))
    # the string route must give the same values
    s = M.call(tr.operate, text)
    ctx.monitor("opobj.vs_string_route")
    if M.is_raised(s) or len(s) != n or not all(E.close(s[i], val, i) for i in range(n)):
        return violated(dict(w, what="string route disagrees with the operator object / arithmetic", got=s), sig, True,
                        sorted(cls))
    return held(sig, True, sorted(cls))


def run_giant(case, ctx):
    """A feature that is k copies of a short pattern (NaN included), on a track of tens of thousands of observations:
    every aggregate that depends on the multiset of values only in proportion (AVG, VAR, STD, MSE, RMSE, MIN, MAX) must
    give what it gives on ONE copy of the pattern, SUM k times that, and 'a-AVG{a}' the pattern minus that mean at every
    observation -- whatever the NaN policy.  No oracle for the values is needed."""
    pat, k = case["pattern"], case["copies"]
    m = len(pat)
    small = gen.make_track([(float(i), 0.0, 0.0) for i in range(m)], times_ms=[86400000 + 1000 * i for i in range(m)])
    small.createAnalyticalFeature("a", list(pat))
    n = m * k
    big = gen.make_track([(float(i % 977), 0.0, 0.0) for i in range(n)], times_ms=[86400000 + 1000 * i for i in range(n)])
    big.createAnalyticalFeature("a", list(pat) * k)
    sig = ("giant", k, tuple(map(repr, pat)))
    cls = ["track_of_tens_of_thousands_of_observations", "nan_in_pattern" if any(v != v for v in pat) else "nan_free_pattern"]

    def scalar(tr, text):
        r = M.call(tr.operate, text)
        if M.is_raised(r):
            return r
        try:
            lst = list(r)
        except TypeError:
            return r
        return lst[0] if lst and all(M.feq(x, lst[0], 0, 0) for x in lst) else lst
    for fn, scale in (("AVG", 1), ("SUM", k), ("VAR", 1), ("STD", 1), ("MSE", 1), ("RMSE", 1), ("MIN", 1), ("MAX", 1)):
        a, b = scalar(small, "%s{a}" % fn), scalar(big, "%s{a}" % fn)
        ctx.monitor("giant.aggregate_of_k_copies")
        if M.is_raised(a) and M.is_raised(b):
            continue
        ok = (not M.is_raised(a)) and (not M.is_raised(b)) and not isinstance(a, list) and not isinstance(b, list) \
            and M.feq(b, a * scale, 1e-7, 1e-9)
        if not ok:
            return violated({"what": "%s over %d copies of a pattern is not %s over one copy%s" % (
                fn, k, fn, " times the number of copies" if scale != 1 else ""), "pattern": pat, "copies": k,
                "on_one_copy": a, "on_the_long_track": b}, sig, True, cls)
    a, b = M.call(small.operate, "a-AVG{a}"), M.call(big.operate, "a-AVG{a}")
    ctx.monitor("giant.aggregate_of_k_copies")
    if M.is_raised(a) != M.is_raised(b):
        return violated({"what": "'a-AVG{a}' fails on one of the two tracks only", "pattern": pat, "copies": k,
                         "on_one_copy": a, "on_the_long_track": b}, sig, True, cls)
    if not M.is_raised(a):
        la, lb = list(a), list(b)
        bad = [i for i in range(0, n, 97) if not M.feq(lb[i], la[i % m], 1e-7, 1e-9)]
        if len(lb) != n or bad:
            return violated({"what": "'a-AVG{a}' on k copies of a pattern differs from the same expression on one copy",
                             "pattern": pat, "copies": k, "first_bad_index": bad[:3], "on_one_copy": la}, sig, True, cls)
    return held(sig, True, cls)


def run_minmax(case, ctx):
    """MIN / MAX of a feature holding NaN, for every rotation of the value vector: one answer (see order_independence)."""
    from tracklib.core.operators import Operator
    v, fn, route = case["v"], case["fn"], case["route"]
    n = len(v)
    answers = []
    for r in range(n):
        vec = v[r:] + v[:r]
        tr = gen.make_track([(float(i), 0.0, 0.0) for i in range(n)], times_ms=[86400000 + 1000 * i for i in range(n)])
        tr.createAnalyticalFeature("a", list(vec))
        tr.createAnalyticalFeature("b", [1.0] * n)
        if route == "expr":
            got = M.call(tr.operate, "%s{a}" % fn)
        elif route == "sub":
            got = M.call(tr.operate, "%s{a*b}" % fn)
        else:
            got = M.call(tr.operate, getattr(Operator, {"AVG": "AVERAGER", "VAR": "VARIANCE", "STD": "STDDEV"}.get(fn, fn)), "a")
        ctx.monitor("minmax.order_independent")
        if not M.is_raised(got):
            try:
                lst = list(got)
                got = lst[0] if lst and all(M.feq(x, lst[0], 0, 0) for x in lst) else lst
            except TypeError:
                pass
        answers.append(got)
    sig = ("minmax", fn, route, tuple(map(repr, v)))
    cls = ["nan_in_minmax" if fn in ("MIN", "MAX") else "nan_in_symmetric_aggregate", "fn:" + fn]
    first = answers[0]
    for r, a in enumerate(answers):
        same = (M.is_raised(a) and M.is_raised(first)) or \
               (not M.is_raised(a) and not M.is_raised(first) and not isinstance(a, list) and not isinstance(first, list)
                and (M.feq(a, first, 0, 0) if fn in ("MIN", "MAX") else M.feq(a, first, 1e-9, 1e-12)))
        if not same:
            return violated({"what": "%s over values that include NaN depends on the order of the observations" % fn,
                             "route": route, "values": v, "answer_for_each_rotation": answers}, sig, True, cls)
    return held(sig, True, cls)


def run_divzero(case, ctx):
    from tracklib.core.operators import Operator
    a, b, ex, route = case["a"], case["b"], case["expr"], case["route"]
    n = len(a)
    tr = gen.make_track([(float(i), 0.0, 0.0) for i in range(n)], times_ms=[86400000 + 1000 * i for i in range(n)])
    tr.createAnalyticalFeature("a", list(a))
    tr.createAnalyticalFeature("b", list(b))
    num, den, plus = {"a/b": (a, b, 0), "a/a": (a, a, 0), "b/b": (b, b, 0), "c=a/b": (a, b, 0), "a/b+1": (a, b, 1),
                      "(a+b)/a": ([x + y for x, y in zip(a, b)], a, 0)}[ex]
    sig = ("divzero", ex, route, tuple(a), tuple(b))
    cls = ["division_by_a_feature_holding_zeros"]
    if route == "opobj" and ex in ("a/b", "a/a", "b/b"):
        l, r = ex.split("/")
        got = M.call(tr.operate, Operator.DIVIDER, l, r, "q")
        if not M.is_raised(got):
            got = M.call(tr.getAnalyticalFeature, "q")
    else:
        got = M.call(tr.operate, ex)
        if not M.is_raised(got) and ex.startswith("c="):
            got = M.call(tr.getAnalyticalFeature, "c")
    ctx.monitor("divzero.defined_points_right_and_no_failure")
    if M.is_raised(got):
        return violated({"what": "dividing by a feature that holds zeros raised (the value is undefined THERE; the "
                                 "evaluation must return and the other observations must hold the quotient)",
                         "expression": ex, "route": route, "a": a, "b": b, "raised": got}, sig, True, cls)
    lst = list(got)
    for i in range(n):
        if den[i] != 0:
            exp = num[i] / den[i] + plus
            if len(lst) != n or not M.feq(lst[i], exp, 1e-12, 1e-15):
                return violated({"what": "quotient wrong at an observation whose denominator is not zero",
                                 "expression": ex, "route": route, "a": a, "b": b, "index": i, "got": lst, "expected": exp},
                                sig, True, cls)
    return held(sig, any(d == 0 for d in den) and any(d != 0 for d in den), cls)


def run_case(case, ctx):
    if case["kind"] in ("tree", "seq"):
        return run_tree(case, ctx)
    if case["kind"] == "divzero":
        return run_divzero(case, ctx)
    if case["kind"] == "minmax":
        return run_minmax(case, ctx)
    if case["kind"] == "giant":
        return run_giant(case, ctx)
    return run_opobj(case, ctx)


def classify(case, witness):
    return None


# floors for the call-history workloads added in session 3 (a run in which they were silently skipped is inconclusive)
_floors_base = floors
_FLOORS_EXTRA = {'classes': {'nan_in_minmax': 200, 'track_of_tens_of_thousands_of_observations': 2, 'nan_in_symmetric_aggregate': 150, 'division_by_a_feature_holding_zeros': 500, 'repeated_function_term': 1000, 'externals_dictionary': 500, 'realistic_magnitudes': 800, 'related_track_must_stay_untouched': 1000,
                             'less_usual_feature_names': 5000, 'copy_taken_after_the_first_statement': 800, 'track_of_hundreds_of_observations': 300}}


def floors(tier):
    f = _floors_base(tier)
    for kind, d in _FLOORS_EXTRA.items():
        f.setdefault(kind, {}).update(d)
    return f
