"""C14 -- coordinate conversions round-trip and agree with the WGS84 ellipsoid
(DESIGN.md section 4, C14).

The real GeoCoords / ECEFCoords / ENUCoords conversion methods and the real
Track.to*Coords methods are driven with batches of positions; every returned
coordinate is compared

* with the closed-form WGS84 formulas (vt/oracles/geodesy.py) for Geo -> ECEF (1e-6 m),
* with the *input* for every round trip (1e-9 degree, longitude on the circle, 1 mm),
* with (0,0,0) for the base itself (1e-9 m),
* with an independent Lambert-93 derived from the defining parameters (1 mm), and
* Track.base with the base (or SRID) that was used.
"""
from __future__ import annotations

import math

from vt import gen, monitor as M
from vt.gen import held, violated
from vt.oracles import geodesy as G

PROP = "C14"
RULE = ("a case is a batch of geodetic positions (up to 50) with one or two base points per position, or one track of 1..20 "
        "fixes with its base(s); positions and bases drawn from lon in [-180,180] (incl. +-180, 0, values 1e-9..1e-3 degree "
        "from the antimeridian), lat in [-89.9,89.9] (incl. 0, +-89.9, the bands 89..89.9 N and S), h in [-1000,10000] "
        "(incl. both ends); the cross product of the special lon/lat/h values x the special bases is enumerated completely; "
        "Lambert-93 batches lie in lon -5..10, lat 41..51.5. Distinct = distinct (kind, positions, bases) signature; "
        "non-trivial = at least one position differs from its base (the conversion is not the identity on the base) "
        "and, for tracks, the track went through at least two Track-level conversions.")
ASSUMPTIONS = ["the WGS84 defining constants a = 6378137 m, 1/f = 298.257223563 and the textbook closed form are the reference",
               "Lambert-93 is the secant conformal conic of EPSG:2154 on GRS80 computed by the IGN algorithms ALG0001/0003/0054; "
               "tracklib's rounded projection constants may differ from it by up to 1 mm",
               "math.sin/cos/atan2/log/exp of the C library are accurate to a few ulp"]
EXHAUSTIVE = {"quick": "cross product of 12 special longitudes x 13 special latitudes x 4 special heights, each against 17 special bases",
              "thorough": "cross product of 12 special longitudes x 13 special latitudes x 4 special heights, each against 17 special bases"}
CASE_LIMIT_S = 30.0

TOL_DEG = 1e-9
TOL_M = 1e-3
TOL_CLOSED = 1e-6
TOL_ORIGIN = 1e-9
TOL_L93 = 1e-3
BATCH = 50

LON_SPECIAL = [-180.0, 180.0, 0.0, 90.0, -90.0, 179.999999999, -179.999999999, 179.999, -179.999, 1e-9, -1e-9, 45.0]
LAT_SPECIAL = [0.0, 89.9, -89.9, 89.0, -89.0, 89.5, -89.5, 45.0, -45.0, 1e-9, -1e-9, 60.0, -30.0]
H_SPECIAL = [-1000.0, 10000.0, 0.0, 4321.5]
BASE_SPECIAL = [[0.0, 0.0, 0.0], [180.0, 0.0, 0.0], [-180.0, 45.0, 10000.0], [0.0, 89.9, -1000.0], [0.0, -89.9, 10000.0],
                [179.999999999, 89.5, 0.0], [-179.999999999, -89.0, 250.0], [2.3488, 48.8534, 35.0],
                [2.3488, 48.8534, 285.0], [2.3488, -48.8534, 285.0], [-2.3488, -48.8534, 285.0],
                [-122.4194, 37.7749, 16.0], [151.2093, -33.8688, 3.0], [90.0, 0.0, -1000.0], [-90.0, 1e-9, 10000.0],
                [45.0, 89.9, 10000.0], [-135.0, -89.9, -1000.0]]


# --------------------------------------------------------------------------
def chunks(tier, seed):
    q = tier == "quick"
    out = []
    for k in range(4):
        out.append({"kind": "grid", "shard": k, "of": 4, "key": "grid%d" % k})
    for k in range(16):
        out.append({"kind": "pts", "key": "pts%d" % k, "n": 200 if q else 6000})
    for k in range(4):
        out.append({"kind": "l93", "key": "l93_%d" % k, "n": 100 if q else 2500})
    for k in range(8):
        out.append({"kind": "track", "key": "trk%d" % k, "n": 250 if q else 5000})
    return out


def floors(tier):
    q = tier == "quick"
    return {"monitors": {"geo_ecef.closed_form": 100000 if q else 2000000,
                         "rt.geo_ecef_geo": 100000 if q else 2000000,
                         "rt.geo_enu_geo": 100000 if q else 2000000,
                         "rt.ecef_enu_ecef": 100000 if q else 2000000,
                         "rt.enu_enu_enu": 100000 if q else 2000000,
                         "base.origin": 100000 if q else 2000000,
                         "lambert93.vs_ign": 10000 if q else 200000,
                         "rt.lambert93": 10000 if q else 200000,
                         "track.base_recorded": 2000 if q else 40000,
                         "track.ecef_closed_form": 2000 if q else 40000,
                         "track.rt": 5000 if q else 100000,
                         "track.lambert93": 1000 if q else 20000},
            "classes": {"antimeridian": 20, "lon_zero": 20, "equator": 20, "lat_limit": 20, "polar_band": 100,
                        "h_min": 20, "h_max": 20, "base_polar_band": 50, "base_antimeridian": 20, "base_as_ecef": 100,
                        "near_base": 100, "far_from_base": 100,
                        "track_len_1": 10, "track_len_20": 10, "track_base_none": 20, "track_base_ecef": 20,
                        "track_enu_rebase": 50, "track_lambert": 100, "lambert_batch": 100},
            "distinct_nontrivial": 3000 if q else 80000}


def setup(ctx):
    return None


# --------------------------------------------------------------------------
# generators
def _lon(rng):
    u = rng.random()
    if u < 0.10:
        return rng.choice(LON_SPECIAL)
    if u < 0.18:
        return rng.choice([-1, 1]) * (180.0 - 10.0 ** rng.uniform(-9, -1))
    if u < 0.22:
        return rng.choice([-1, 1]) * 10.0 ** rng.uniform(-9, -1)
    return rng.uniform(-180.0, 180.0)


def _lat(rng):
    u = rng.random()
    if u < 0.10:
        return rng.choice(LAT_SPECIAL)
    if u < 0.28:
        return rng.choice([-1, 1]) * rng.uniform(89.0, 89.9)
    if u < 0.32:
        return rng.choice([-1, 1]) * 10.0 ** rng.uniform(-9, -1)
    return rng.uniform(-89.9, 89.9)


def _hgt(rng):
    u = rng.random()
    if u < 0.10:
        return rng.choice(H_SPECIAL)
    return rng.uniform(-1000.0, 10000.0)


def _clamp(v, lo, hi):
    return max(lo, min(hi, v))


def _point(rng):
    return [_lon(rng), _lat(rng), _hgt(rng)]


def _near(rng, b):
    """Position a few metres .. a few tens of km from b (the usual use of a local frame)."""
    s = 10.0 ** rng.uniform(-5, -0.5)
    lon = b[0] + rng.uniform(-s, s) / max(math.cos(math.radians(b[1])), 0.02)
    lon = ((lon + 180.0) % 360.0) - 180.0
    lat = _clamp(b[1] + rng.uniform(-s, s), -89.9, 89.9)
    return [lon, lat, _clamp(b[2] + rng.uniform(-200, 200), -1000.0, 10000.0)]


def _one_component_changed(rng, b):
    c = list(b)
    k = rng.choice([0, 1, 2, 2])
    if k == 0:
        c[0] = _lon(rng)
    elif k == 1:
        c[1] = _lat(rng)
    else:
        c[2] = _clamp(b[2] + rng.choice([-1, 1]) * rng.choice([0.5, 35.0, 250.0, 1500.0]), -1000.0, 10000.0)
        if c[2] == b[2]:
            c[2] = _clamp(b[2] - 35.0, -1000.0, 10000.0) if b[2] > 0 else b[2] + 35.0
    return c


def _l93_point(rng):
    lo0, lo1, la0, la1 = G.L93_DOMAIN
    u = rng.random()
    lon = rng.choice([lo0, lo1, 3.0]) if u < 0.08 else rng.uniform(lo0, lo1)
    u = rng.random()
    lat = rng.choice([la0, la1, 46.5, 44.0, 49.0]) if u < 0.08 else rng.uniform(la0, la1)
    return [lon, lat, _hgt(rng)]


def cases(chunk):
    rng = gen.rng_for(PROP, chunk)
    kind = chunk["kind"]
    if kind == "grid":
        pts = [[lo, la, h] for lo in LON_SPECIAL for la in LAT_SPECIAL for h in H_SPECIAL]
        pts = pts[chunk["shard"]::chunk["of"]]
        for i in range(0, len(pts), 13):
            yield {"kind": "grid", "pts": pts[i:i + 13], "bases": BASE_SPECIAL}
    elif kind == "pts":
        for _ in range(chunk["n"]):
            pts, b1, b2 = [], [], []
            for _ in range(BATCH):
                b = _point(rng)
                if b1 and rng.random() < 0.15:
                    # call history: the base differs from the previous one in ONE component only (same lon/lat at
                    # another height, same meridian, same parallel) -- anything remembered per base must tell them apart
                    b = _one_component_changed(rng, b1[-1])
                p = _near(rng, b) if rng.random() < 0.4 else _point(rng)
                if rng.random() < 0.01:
                    p = list(b)
                pts.append(p)
                b1.append(b)
                u = rng.random()
                if u < 0.10:
                    # a second base a few centimetres to a few metres away, at the same height (a corrected survey
                    # mark): 1e-7 .. 9e-5 degree
                    d1 = rng.choice([-1, 1]) * 10.0 ** rng.uniform(-7, -4.05)
                    d2 = rng.choice([-1, 1]) * 10.0 ** rng.uniform(-7, -4.05)
                    b2.append([((b[0] + d1 + 180.0) % 360.0) - 180.0, _clamp(b[1] + d2, -89.9, 89.9), b[2]])
                else:
                    b2.append(_one_component_changed(rng, b) if u < 0.25 else _near(rng, b) if u < 0.45 else _point(rng))
            yield {"kind": "pts", "pts": pts, "b1": b1, "b2": b2}
    elif kind == "l93":
        for _ in range(chunk["n"]):
            yield {"kind": "l93", "pts": [_l93_point(rng) for _ in range(BATCH)]}
    elif kind == "track":
        for i in range(chunk["n"]):
            n = rng.choice([1, 2, 3, 20, rng.randint(1, 20), rng.randint(1, 20)])
            if rng.random() < 0.25:
                first = _l93_point(rng)
                lo0, lo1, la0, la1 = G.L93_DOMAIN
                pts = [first]
                for _ in range(n - 1):
                    q = _near(rng, pts[-1])
                    pts.append([_clamp(q[0], lo0, lo1), _clamp(q[1], la0, la1), q[2]])
                yield {"kind": "track_l93", "pts": pts, "via": rng.choice(["toProjCoords", "toENUCoords"])}
                continue
            first = _point(rng)
            if rng.random() < 0.6:
                pts = [first]
                for _ in range(n - 1):
                    u = rng.random()
                    if u < 0.2:
                        # ties: the next fix at exactly the same longitude and latitude, at another height (a lift, a
                        # vertical climb) ...
                        pts.append([pts[-1][0], pts[-1][1], _clamp(pts[-1][2] + rng.choice([-1, 1]) * rng.uniform(5, 800), -1000.0, 10000.0)])
                    elif u < 0.27:
                        pts.append(list(pts[-1]))            # ... or the very same fix again
                    else:
                        pts.append(_near(rng, pts[-1]))
            else:
                pts = [first] + [_point(rng) for _ in range(n - 1)]
            base = rng.choice(["geo", "geo", "ecef", "none"])
            b1 = _near(rng, first) if rng.random() < 0.5 else _point(rng)
            if rng.random() < 0.08:
                # a track that starts exactly on the equator, seen from a base on the equator (Z = 0 exactly)
                pts[0][1] = 0.0
                b1 = [b1[0], 0.0, b1[2]]
            if rng.random() < 0.12:
                # the base is the foot of (or a mark above) the first / the last fix: same longitude and latitude, another
                # height (GeoCoords(lon0, lat0) with the default height 0 is the usual way to write it)
                ref = pts[0] if rng.random() < 0.7 else pts[-1]
                b1 = [ref[0], ref[1], 0.0 if rng.random() < 0.6 else min(9990.0, ref[2] + 12.5)]
            b2 = _point(rng)
            r2 = rng.random()
            if r2 < 0.12:
                # the second base shares the first one's longitude and latitude and differs in height only (a station
                # mark and the antenna above it), or shares one of the two angles, or is the same point
                b2 = [b1[0], b1[1], min(9990.0, max(-990.0, b1[2] + rng.choice([32.5, -1.25, 250.0, 0.5])))]
            elif r2 < 0.18:
                b2 = [b1[0], b2[1], b2[2]] if rng.random() < 0.5 else [b2[0], b1[1], b2[2]]
            elif r2 < 0.22:
                b2 = list(b1)
            yield {"kind": "track", "pts": pts, "base_form": base, "b1": b1,
                   "b2": b2, "b2_form": rng.choice(["geo", "ecef"]),
                   "start": rng.choice(["geo", "geo", "ecef"]),
                   "rebase": rng.random() < 0.6,
                   "back": rng.choice(["geo", "ecef_geo", "geo_explicit"])}


# --------------------------------------------------------------------------
# comparison helpers
def _geo_err(g, p):
    """(lon error on the circle, lat error, height error) of a GeoCoords vs [lon,lat,h]."""
    return (G.lon_diff_deg(g.lon, p[0]), abs(g.lat - p[1]), abs(g.hgt - p[2]))


def _geo_ok(g, p):
    e = _geo_err(g, p)
    return e[0] <= TOL_DEG and e[1] <= TOL_DEG and e[2] <= TOL_M


def _finite(*v):
    return all(isinstance(x, (int, float)) and x == x and not math.isinf(x) for x in v)


def _dist(a, b):
    return math.sqrt(sum((x - y) ** 2 for x, y in zip(a, b)))


def _geo_t(g):
    return [g.lon, g.lat, g.hgt]


def _enu_t(e):
    return [e.E, e.N, e.U]


def _ecef_t(e):
    return [e.X, e.Y, e.Z]


def _pt_classes(p, cls, prefix=""):
    if abs(p[0]) == 180.0:
        cls.add(prefix + "antimeridian")
    elif 180.0 - abs(p[0]) < 1e-3:
        cls.add(prefix + "near_antimeridian")
    if p[0] == 0.0:
        cls.add(prefix + "lon_zero")
    if p[1] == 0.0:
        cls.add(prefix + "equator")
    if abs(p[1]) == 89.9:
        cls.add(prefix + "lat_limit")
    if 89.0 <= abs(p[1]) <= 89.9:
        cls.add(prefix + "polar_band")
    if p[1] < 0:
        cls.add(prefix + "southern")
    if p[2] == -1000.0:
        cls.add(prefix + "h_min")
    if p[2] == 10000.0:
        cls.add(prefix + "h_max")


class Bad(Exception):
    def __init__(self, witness):
        Exception.__init__(self, witness.get("what"))
        self.witness = witness


def _need(v, what, **info):
    """A tracklib call that raised on an in-domain position is a violation."""
    if M.is_raised(v):
        w = {"what": what + " raised"}
        w.update(info)
        w["raised"] = v
        raise Bad(w)
    return v


# --------------------------------------------------------------------------
def _check_point(p, b1, b2, base_as_ecef, ctx):
    """All point-level obligations for position p with bases b1 (and b2)."""
    from tracklib.core.obs_coords import GeoCoords, ECEFCoords, ENUCoords
    info = {"position": p, "base": b1}
    g = GeoCoords(p[0], p[1], p[2])
    # --- Geo -> ECEF against the closed form
    e = _need(M.call(g.toECEFCoords), "GeoCoords.toECEFCoords", **info)
    X = G.geo_to_ecef(p[0], p[1], p[2])
    ctx.monitor("geo_ecef.closed_form")
    if not _finite(e.X, e.Y, e.Z) or max(abs(e.X - X[0]), abs(e.Y - X[1]), abs(e.Z - X[2])) > TOL_CLOSED:
        raise Bad({"what": "Geo->ECEF disagrees with the closed-form WGS84 formulas", "position": p,
                   "got": _ecef_t(e), "expected": list(X),
                   "error_m": [e.X - X[0], e.Y - X[1], e.Z - X[2]]})
    # --- Geo -> ECEF -> Geo
    g2 = _need(M.call(e.toGeoCoords), "ECEFCoords.toGeoCoords", **info)
    ctx.monitor("rt.geo_ecef_geo")
    if not _finite(g2.lon, g2.lat, g2.hgt) or not _geo_ok(g2, p):
        raise Bad({"what": "Geo->ECEF->Geo does not return the original position", "position": p,
                   "got": _geo_t(g2), "error_deg_deg_m": list(_geo_err(g2, p))})
    # --- base objects (as the API accepts them: GeoCoords or ECEFCoords)
    bg1 = GeoCoords(b1[0], b1[1], b1[2])
    bg2 = GeoCoords(b2[0], b2[1], b2[2])
    if base_as_ecef:
        B1 = _need(M.call(bg1.toECEFCoords), "GeoCoords.toECEFCoords (base)", **info)
        B2 = _need(M.call(bg2.toECEFCoords), "GeoCoords.toECEFCoords (base)", **info)
    else:
        B1, B2 = bg1, bg2
    # --- the base itself -> (0,0,0)
    o = _need(M.call(bg1.toENUCoords, B1), "GeoCoords.toENUCoords(base) of the base", **info)
    ctx.monitor("base.origin")
    if not _finite(o.E, o.N, o.U) or max(abs(o.E), abs(o.N), abs(o.U)) > TOL_ORIGIN:
        raise Bad({"what": "local coordinates of the base itself are not (0,0,0)", "base": b1,
                   "base_as_ecef": base_as_ecef, "got": _enu_t(o)})
    if base_as_ecef:
        o = _need(M.call(B1.toENUCoords, B1), "ECEFCoords.toENUCoords(base) of the base", **info)
        ctx.monitor("base.origin")
        if not _finite(o.E, o.N, o.U) or max(abs(o.E), abs(o.N), abs(o.U)) > TOL_ORIGIN:
            raise Bad({"what": "local coordinates of the (ECEF) base itself are not (0,0,0)", "base": b1, "got": _enu_t(o)})
    # --- Geo -> ENU(base) -> Geo
    enu1 = _need(M.call(g.toENUCoords, B1), "GeoCoords.toENUCoords", **info)
    g3 = _need(M.call(enu1.toGeoCoords, B1), "ENUCoords.toGeoCoords", **info)
    ctx.monitor("rt.geo_enu_geo")
    if not _finite(enu1.E, enu1.N, enu1.U, g3.lon, g3.lat, g3.hgt) or not _geo_ok(g3, p):
        raise Bad({"what": "Geo->ENU(base)->Geo does not return the original position", "position": p, "base": b1,
                   "base_as_ecef": base_as_ecef, "enu": _enu_t(enu1), "got": _geo_t(g3),
                   "error_deg_deg_m": list(_geo_err(g3, p))})
    # --- a local position given directly, with U exactly 0 (a planimetric survey; 0 is a regular height in a local
    #     frame, not "no height"): ENU -> Geo against the closed form (base + E east + N north in Earth-centred
    #     coordinates, then the iterative inverse)
    if abs(enu1.E) < 2.0e5 and abs(enu1.N) < 2.0e5 and abs(b1[1]) < 89.0:
        flat = ENUCoords(enu1.E, enu1.N, 0.0)
        gf = _need(M.call(flat.toGeoCoords, B1), "ENUCoords(E, N, 0).toGeoCoords", **info)
        e_, n_, _u = G.enu_axes(b1[0], b1[1])
        X0 = G.geo_to_ecef(b1[0], b1[1], b1[2])
        Xf = tuple(X0[k] + enu1.E * e_[k] + enu1.N * n_[k] for k in range(3))
        pf = G.ecef_to_geo(*Xf)
        ctx.monitor("enu_with_zero_up.vs_closed_form")
        if not _finite(gf.lon, gf.lat, gf.hgt) or not _geo_ok(gf, pf):
            raise Bad({"what": "ENUCoords(E, N, 0).toGeoCoords(base) is not the position E east and N north of the base in "
                               "its tangent plane", "enu": [enu1.E, enu1.N, 0.0], "base": b1, "base_as_ecef": base_as_ecef,
                       "got": _geo_t(gf), "expected": list(pf), "error_deg_deg_m": _geo_err(gf, pf)})
    # --- ECEF -> ENU(base) -> ECEF  (start from the reference Earth-centred coordinates)
    ec = ECEFCoords(X[0], X[1], X[2])
    enu_e = _need(M.call(ec.toENUCoords, B1), "ECEFCoords.toENUCoords", **info)
    ec2 = _need(M.call(enu_e.toECEFCoords, B1), "ENUCoords.toECEFCoords", **info)
    ctx.monitor("rt.ecef_enu_ecef")
    if not _finite(ec2.X, ec2.Y, ec2.Z) or _dist(_ecef_t(ec2), X) > TOL_M:
        raise Bad({"what": "ECEF->ENU(base)->ECEF does not return the original position", "ecef": list(X), "base": b1,
                   "base_as_ecef": base_as_ecef, "enu": _enu_t(enu_e), "got": _ecef_t(ec2),
                   "error_m": _dist(_ecef_t(ec2), X)})
    # --- the second base maps to (0,0,0) in its own frame -- asked straight after conversions that used b1 (b2 may
    #     differ from b1 in one component only)
    o2 = _need(M.call(bg2.toENUCoords, B2), "GeoCoords.toENUCoords(base) of the second base", base2=b2, **info)
    ctx.monitor("base.origin")
    if not _finite(o2.E, o2.N, o2.U) or max(abs(o2.E), abs(o2.N), abs(o2.U)) > TOL_ORIGIN:
        raise Bad({"what": "local coordinates of the base itself are not (0,0,0) (second base, used straight after "
                           "conversions with the first)", "base": b2, "previous_base": b1,
                   "base_as_ecef": base_as_ecef, "got": _enu_t(o2)})
    g4 = _need(M.call(g.toENUCoords(B1).toGeoCoords, B1), "Geo->ENU(b1)->Geo after the second base was used", **info)
    if not _geo_ok(g4, p):
        raise Bad({"what": "Geo->ENU(b1)->Geo does not return the original position once another base was used in "
                           "between", "position": p, "base": b1, "other_base": b2, "got": _geo_t(g4)})
    # --- ENU(b1) -> ENU(b2) -> ENU(b1)
    start = ENUCoords(enu1.E, enu1.N, enu1.U)
    enu2 = _need(M.call(start.toENUCoords, B1, B2), "ENUCoords.toENUCoords(b1,b2)", base2=b2, **info)
    # the re-based coordinates are the local coordinates of the position in the second frame: they must agree with
    # the direct conversion into that frame (there and back alone would not see a re-basing that did nothing)
    direct2 = _need(M.call(g.toENUCoords, B2), "GeoCoords.toENUCoords(b2)", base2=b2, **info)
    ctx.monitor("rebase.agrees_with_direct")
    if not _finite(enu2.E, enu2.N, enu2.U) or _dist(_enu_t(enu2), _enu_t(direct2)) > 2 * TOL_M:
        raise Bad({"what": "ENU(b1)->ENU(b2) disagrees with the direct conversion Geo->ENU(b2)", "position": p, "b1": b1,
                   "b2": b2, "base_as_ecef": base_as_ecef, "rebased": _enu_t(enu2), "direct": _enu_t(direct2),
                   "error_m": _dist(_enu_t(enu2), _enu_t(direct2))})
    enu3 = _need(M.call(enu2.toENUCoords, B2, B1), "ENUCoords.toENUCoords(b2,b1)", base2=b2, **info)
    ctx.monitor("rt.enu_enu_enu")
    if not _finite(enu3.E, enu3.N, enu3.U) or _dist(_enu_t(enu3), _enu_t(start)) > TOL_M:
        raise Bad({"what": "ENU(b1)->ENU(b2)->ENU(b1) does not return the original local coordinates",
                   "enu_b1": _enu_t(start), "b1": b1, "b2": b2, "base_as_ecef": base_as_ecef,
                   "enu_b2": _enu_t(enu2), "got": _enu_t(enu3), "error_m": _dist(_enu_t(enu3), _enu_t(start))})


def _check_l93(p, ctx):
    from tracklib.core.obs_coords import GeoCoords
    g = GeoCoords(p[0], p[1], p[2])
    e = _need(M.call(g.toProjCoords, 2154), "GeoCoords.toProjCoords(2154)", position=p)
    x, y = G.lambert93_forward(p[0], p[1])
    ctx.monitor("lambert93.vs_ign")
    if not _finite(e.E, e.N, e.U) or math.hypot(e.E - x, e.N - y) > TOL_L93 or abs(e.U - p[2]) > TOL_M:
        raise Bad({"what": "Lambert-93 coordinates disagree with the IGN formulas", "position": p,
                   "got": _enu_t(e), "expected": [x, y, p[2]], "error_m": math.hypot(e.E - x, e.N - y)})
    g2 = _need(M.call(e.toGeoCoords, 2154), "ENUCoords.toGeoCoords(2154)", position=p)
    ctx.monitor("rt.lambert93")
    if not _finite(g2.lon, g2.lat, g2.hgt) or not _geo_ok(g2, p):
        raise Bad({"what": "Geo->Lambert-93->Geo does not return the original position", "position": p,
                   "got": _geo_t(g2), "error_deg_deg_m": list(_geo_err(g2, p))})


# --------------------------------------------------------------------------
# Track-level
def _coords(tr):
    return [[tr.getObs(i).position.getX(), tr.getObs(i).position.getY(), tr.getObs(i).position.getZ()]
            for i in range(tr.size())]


def _srid(tr, want, step):
    s = _need(M.call(tr.getSRID), "Track.getSRID")
    if s != want:
        raise Bad({"what": "after %s the track is in %r coordinates, expected %r" % (step, s, want)})
    # every fix, not only the first, must have been converted
    kinds = set(type(tr.getObs(i).position).__name__ for i in range(tr.size()))
    if len(kinds) != 1:
        raise Bad({"what": "after %s the fixes of the track are in different coordinate systems" % step,
                   "types": sorted(kinds)})


def _track_geo_cmp(tr, pts, step, ctx, composed=False):
    """Final geographic coordinates of a track against the original positions.

    A single there-and-back conversion is held to the stated 1e-9 degree / 1 mm.  When the track was
    re-based in between (ENU(b1)->ENU(b2)->ENU(b1), itself promised to 1 mm only) the two guarantees
    compose, so the result is judged as a distance: 1 mm for the re-basing plus 1 mm for the way back
    (1e-9 degree of longitude is 0.2 micrometre at latitude 89.9 and cannot be asked of a chain whose
    links are promised to the millimetre)."""
    ctx.monitor("track.rt", len(pts))
    got = _coords(tr)
    if len(got) != len(pts):
        raise Bad({"what": "%s changed the number of fixes" % step, "got": len(got), "expected": len(pts)})
    for i, p in enumerate(pts):
        c = got[i]
        err = (G.lon_diff_deg(c[0], p[0]), abs(c[1] - p[1]), abs(c[2] - p[2]))
        if composed:
            ok = _finite(*c) and abs(c[1]) <= 90.0 and \
                _dist(G.geo_to_ecef(c[0], c[1], c[2]), G.geo_to_ecef(p[0], p[1], p[2])) <= 2 * TOL_M
        else:
            ok = _finite(*c) and err[0] <= TOL_DEG and err[1] <= TOL_DEG and err[2] <= TOL_M
        if not ok:
            raise Bad({"what": "Track round trip (%s) does not return the original positions" % step, "index": i,
                       "position": p, "got": c, "error_deg_deg_m": list(err), "composed": composed})


def _track_ecef_cmp(tr, pts, step, tol, ctx, monitor):
    ctx.monitor(monitor, len(pts))
    got = _coords(tr)
    if len(got) != len(pts):
        raise Bad({"what": "%s changed the number of fixes" % step, "got": len(got), "expected": len(pts)})
    for i, p in enumerate(pts):
        X = G.geo_to_ecef(p[0], p[1], p[2])
        if not _finite(*got[i]) or _dist(got[i], X) > tol:
            raise Bad({"what": "Track %s: Earth-centred coordinates disagree with the closed-form WGS84 formulas" % step,
                       "index": i, "position": p, "got": got[i], "expected": list(X), "error_m": _dist(got[i], X)})


def _base_recorded(tr, expected, step, ctx):
    from tracklib.core.obs_coords import GeoCoords
    ctx.monitor("track.base_recorded")
    b = tr.base
    if isinstance(expected, int):
        if not (isinstance(b, int) and b == expected):
            raise Bad({"what": "Track.base after %s is not the SRID that was used" % step, "got": repr(b)[:200],
                       "expected": expected})
        return
    if not isinstance(b, GeoCoords):
        raise Bad({"what": "Track.base after %s is not the (geographic) base that was used" % step,
                   "got": repr(b)[:200], "type": type(b).__name__, "expected": expected})
    if not _finite(b.lon, b.lat, b.hgt) or not _geo_ok(b, expected):
        raise Bad({"what": "Track.base after %s differs from the base that was used" % step, "got": _geo_t(b),
                   "expected": expected, "error_deg_deg_m": list(_geo_err(b, expected))})


def _base_obj(form, b):
    from tracklib.core.obs_coords import GeoCoords
    g = GeoCoords(b[0], b[1], b[2])
    if form == "ecef":
        return _need(M.call(g.toECEFCoords), "GeoCoords.toECEFCoords (base)", base=b)
    return g


def _reuse_base_object(obj):
    """In-place edit of a coordinate object that belongs to the caller."""
    obj.setX(obj.getX() + 0.75)
    obj.setY(obj.getY() * 0.5)
    obj.setZ(obj.getZ() + 135.0)


def _run_lattice_rebase(case, ctx):
    """A straight track sampled every metre, expressed relative to its last fix, re-based on one of its own vertices:
    the old local coordinates of later fixes coincide with the NEW local coordinates of earlier ones.  The re-based
    track must agree, fix by fix, with the point-wise change of base."""
    from tracklib.core.obs_coords import ENUCoords, GeoCoords
    b1 = case["b1"]
    B1 = GeoCoords(b1[0], b1[1], b1[2])
    n = 6 + len(case["pts"]) % 5
    step = [(1.0, 0.0), (0.0, 1.0), (1.0, 1.0), (2.0, -1.0)][len(case["pts"]) % 4]
    loc = [(step[0] * i, step[1] * i, 0.0) for i in range(-(n - 1), 1)]
    geo = [_need(M.call(ENUCoords(*p).toGeoCoords, B1), "ENUCoords.toGeoCoords(base)", base=b1, enu=list(p)) for p in loc]
    tr = gen.make_track([(g.lon, g.lat, g.hgt) for g in geo], coord="GEO")
    _need(M.call(tr.toENUCoords, B1), "Track.toENUCoords(base)", base=b1)
    k = (len(case["pts"]) * 3) % (n - 1)
    B2 = GeoCoords(geo[k].lon, geo[k].lat, geo[k].hgt)
    before = _coords(tr)
    want = []
    for p in before:
        q = _need(M.call(ENUCoords(p[0], p[1], p[2]).toENUCoords, B1, B2), "ENUCoords.toENUCoords(b1, b2)", enu=p)
        want.append([q.getX(), q.getY(), q.getZ()])
    _need(M.call(tr.toENUCoords, B2), "Track.toENUCoords(b2) on an ENU track", base=b1, vertex=k)
    got = _coords(tr)
    ctx.monitor("track.rebased_on_one_of_its_own_vertices")
    for i in range(n):
        d = max(abs(got[i][c] - want[i][c]) for c in range(3))
        if not (d <= 1e-3):
            raise Bad({"what": "a track re-based on one of its own vertices disagrees with the point-wise change of base",
                       "fix": i, "vertex_taken_as_new_base": k, "b1": b1, "local_before": before[i], "got": got[i],
                       "expected": want[i], "error_m": d})


def _run_track(case, ctx):
    pts = case["pts"]
    tr = gen.make_track(pts, coord="GEO")
    nconv = 0
    if case["start"] == "ecef":
        # Geo -> ECEF at track level, checked against the closed form
        _need(M.call(tr.toECEFCoords), "Track.toECEFCoords", track=pts)
        _srid(tr, "ECEF", "Track.toECEFCoords")
        _track_ecef_cmp(tr, pts, "toECEFCoords", TOL_CLOSED, ctx, "track.ecef_closed_form")
        nconv += 1
    form = case["base_form"]
    if form == "none":
        b1 = pts[0]
        base = None
    else:
        b1 = case["b1"]
        base = _base_obj(form, b1)
    if base is not None and b1[0] == pts[0][0] and b1[1] == pts[0][1] and b1[2] != pts[0][2]:
        ctx.count("base_at_the_foot_of_the_first_fix")
    # -> ENU(b1)
    _need(M.call(tr.toENUCoords, base), "Track.toENUCoords(base)", track=pts, base=b1, base_form=form)
    _srid(tr, "ENU", "Track.toENUCoords")
    _base_recorded(tr, b1, "toENUCoords(%s base)" % form, ctx)
    if base is not None and len(pts) % 2 == 0:
        # call history: the caller goes on using ITS base object (moves it to prepare the next track); what the
        # track recorded as "the base it used" must not move with it
        _reuse_base_object(base)
        ctx.count("caller_reuses_base_object")
        _base_recorded(tr, b1, "toENUCoords(%s base), after the caller modified its own base object" % form, ctx)
        if len(pts) % 4 == 0:
            # ... and then USES the moved object as the base of the very next conversion (one "current station"
            # object moved from station to station): the frame is that of the base as it is NOW
            here = type(base)(base.getX(), base.getY(), base.getZ())
            o = _need(M.call(here.toENUCoords, base), "toENUCoords(base) of a point at the base, after the caller moved "
                      "its base object", base_now=[base.getX(), base.getY(), base.getZ()], base_form=form)
            ctx.monitor("base.origin")
            ctx.count("moved_base_object_used_again_at_once")
            if not _finite(o.getX(), o.getY(), o.getZ()) or max(abs(o.getX()), abs(o.getY()), abs(o.getZ())) > TOL_ORIGIN:
                raise Bad({"what": "a base object moved in place by the caller and used again as a base: a point at the "
                                   "base does not map to (0,0,0)", "got": [o.getX(), o.getY(), o.getZ()],
                           "base_now": [base.getX(), base.getY(), base.getZ()], "base_before": b1, "base_form": form})
    if len(pts) % 3 == 1:
        # error path: conversion requests on the local track that cannot be honoured (a projection identifier where a
        # base point is expected; ENU -> ENU without a new base); what they raise is not judged -- the conversions
        # that follow on the same track object are
        M.call(tr.toENUCoords, 2154)
        M.call(tr.toENUCoords, "not a base")
        ctx.count("rejected_conversion_before_valid_ones")
        _base_recorded(tr, b1, "toENUCoords(%s base), after rejected conversion requests" % form, ctx)
    nconv += 1
    enu_b1 = _coords(tr)
    if form == "none":
        ctx.monitor("base.origin")
        if max(abs(v) for v in enu_b1[0]) > TOL_ORIGIN:
            raise Bad({"what": "first fix used as base does not map to (0,0,0)", "got": enu_b1[0], "base": b1})
    twin = None
    if base is not None and form == "geo" and len(pts) % 2 == 1 and case["rebase"]:
        # two tracks used in turn: a second, independent track is put into the local frame of the SAME base object
        # before the first one is re-based; it must go on denoting its own positions in the frame of b1
        pts_twin = [[_clamp(p[0] + 0.001 * (i + 1), -180.0, 180.0), _clamp(p[1] - 0.0007 * (i + 1), -89.9, 89.9), p[2] + 3.0]
                    for i, p in enumerate(pts[:4])]
        twin = gen.make_track(pts_twin, coord="GEO")
        _need(M.call(twin.toENUCoords, base), "Track.toENUCoords(base) on a second track with the same base object",
              track=pts_twin, base=b1)
        ctx.count("second_track_with_the_same_base_object")
    if case["rebase"]:
        b2 = case["b2"]
        b2obj = _base_obj(case["b2_form"], b2)
        if b2[0] == b1[0] and b2[1] == b1[1] and b2[2] != b1[2]:
            ctx.count("track_rebased_to_a_base_above_or_below_the_first")
        _need(M.call(tr.toENUCoords, b2obj), "Track.toENUCoords(b2) on an ENU track",
              track=pts, b1=b1, b2=b2)
        _srid(tr, "ENU", "Track.toENUCoords(b2)")
        _base_recorded(tr, b2, "ENU->ENU rebasing", ctx)
        if len(pts) % 3 == 0:
            _reuse_base_object(b2obj)
            ctx.count("caller_reuses_base_object")
            _base_recorded(tr, b2, "ENU->ENU rebasing, after the caller modified its own base object", ctx)
        if twin is not None:
            _base_recorded(twin, b1, "a second track converted with the same base object, after the FIRST track was "
                                     "re-based", ctx)
            side2 = twin.copy()
            _need(M.call(side2.toGeoCoords), "Track.toGeoCoords() of the second track", track=pts_twin, b1=b1, b2=b2)
            _track_geo_cmp(side2, pts_twin, "second track: Geo->ENU(same base object)->Geo after the first track was "
                                            "re-based", ctx)
        # there and back without undoing the re-basing first: the re-based track itself must denote the
        # original positions (a re-basing that leaves some fixes in the old frame cancels out in
        # ENU(b1)->ENU(b2)->ENU(b1) but not here)
        side = tr.copy()
        _need(M.call(side.toGeoCoords), "Track.toGeoCoords() from the re-based ENU track", track=pts, b1=b1, b2=b2)
        _srid(side, "Geo", "Track.toGeoCoords after re-basing")
        _track_geo_cmp(side, pts, "%s->ENU(%s)->ENU(b2)->Geo" % (case["start"], form), ctx, composed=True)
        nconv += 1
        from tracklib.core.obs_coords import GeoCoords
        _need(M.call(tr.toENUCoords, GeoCoords(b1[0], b1[1], b1[2])), "Track.toENUCoords(b1) on an ENU track",
              track=pts, b1=b1, b2=b2)
        _base_recorded(tr, b1, "ENU->ENU rebasing back", ctx)
        nconv += 2
        back = _coords(tr)
        ctx.monitor("track.rt", len(pts))
        for i in range(len(pts)):
            if not _finite(*back[i]) or _dist(back[i], enu_b1[i]) > TOL_M:
                raise Bad({"what": "Track ENU(b1)->ENU(b2)->ENU(b1) does not return the original local coordinates",
                           "index": i, "b1": b1, "b2": b2, "enu_b1": enu_b1[i], "got": back[i],
                           "error_m": _dist(back[i], enu_b1[i])})
    # back
    how = case["back"]
    # The way back is "the same conversion backwards" only if it uses the very base of the way there.  When the
    # base was handed over in Earth-centred form, Track.base holds its geographic image (itself only promised to
    # 1e-9 degree / 1 mm), so going back through the *recorded* base composes two guarantees; likewise after
    # a re-basing.  Such chains are judged as a distance (see _track_geo_cmp).
    recorded_is_image = form == "ecef" or (form == "none" and case["start"] == "ecef")
    composed = bool(case["rebase"] or (recorded_is_image and how != "geo_explicit"))
    if how == "ecef_geo":
        _need(M.call(tr.toECEFCoords), "Track.toECEFCoords() from ENU with the recorded base", track=pts, base=b1)
        _srid(tr, "ECEF", "Track.toECEFCoords")
        _track_ecef_cmp(tr, pts, "ENU->ECEF with the recorded base", TOL_M, ctx, "track.rt")
        _need(M.call(tr.toGeoCoords), "Track.toGeoCoords() from ECEF", track=pts)
        nconv += 2
    elif how == "geo_explicit":
        from tracklib.core.obs_coords import GeoCoords
        _need(M.call(tr.toGeoCoords, GeoCoords(b1[0], b1[1], b1[2])), "Track.toGeoCoords(base) from ENU", track=pts, base=b1)
        nconv += 1
    else:
        _need(M.call(tr.toGeoCoords), "Track.toGeoCoords() from ENU with the recorded base", track=pts, base=b1)
        nconv += 1
    _srid(tr, "Geo", "Track.toGeoCoords")
    _track_geo_cmp(tr, pts, "%s->ENU(%s)%s->%s" % (case["start"], form, "->ENU(b2)->ENU(b1)" if case["rebase"] else "", how), ctx,
                   composed=composed)
    return nconv


def _run_track_l93(case, ctx):
    pts = case["pts"]
    tr = gen.make_track(pts, coord="GEO")
    if case["via"] == "toProjCoords":
        _need(M.call(tr.toProjCoords, 2154), "Track.toProjCoords(2154)", track=pts)
    else:
        _need(M.call(tr.toENUCoords, 2154), "Track.toENUCoords(2154)", track=pts)
    _srid(tr, "ENU", case["via"])
    _base_recorded(tr, 2154, case["via"] + "(2154)", ctx)
    got = _coords(tr)
    ctx.monitor("track.lambert93", len(pts))
    for i, p in enumerate(pts):
        x, y = G.lambert93_forward(p[0], p[1])
        if not _finite(*got[i]) or math.hypot(got[i][0] - x, got[i][1] - y) > TOL_L93 or abs(got[i][2] - p[2]) > TOL_M:
            raise Bad({"what": "Track Lambert-93 coordinates disagree with the IGN formulas", "index": i, "position": p,
                       "got": got[i], "expected": [x, y, p[2]]})
    _need(M.call(tr.toGeoCoords), "Track.toGeoCoords() from Lambert-93 with the recorded SRID", track=pts)
    _srid(tr, "Geo", "Track.toGeoCoords")
    _track_geo_cmp(tr, pts, "Geo->Lambert-93->Geo", ctx)
    return 2


# --------------------------------------------------------------------------
def run_case(case, ctx):
    kind = case["kind"]
    cls = set()
    pts = case["pts"]
    try:
        if kind == "grid":
            bases = case["bases"]
            sig = ("grid", tuple(pts[0]), tuple(pts[-1]), len(pts))
            for p in pts:
                _pt_classes(p, cls)
                for j, b in enumerate(bases):
                    _pt_classes(b, cls, "base_")
                    _check_point(p, b, bases[(j + 1) % len(bases)], (j % 2) == 1, ctx)
            cls.add("special_cross_product")
            cls.add("base_as_ecef")
            cls.add("far_from_base")
            return held(sig, True, sorted(cls))
        if kind == "pts":
            sig = ("pts", tuple(map(tuple, pts)), tuple(map(tuple, case["b1"])))
            nt = False
            for i, p in enumerate(pts):
                b1, b2 = case["b1"][i], case["b2"][i]
                _pt_classes(p, cls)
                _pt_classes(b1, cls, "base_")
                as_ecef = (i % 3) == 2
                if as_ecef:
                    cls.add("base_as_ecef")
                if p != b1:
                    nt = True
                    if abs(p[1] - b1[1]) < 1.0 and G.lon_diff_deg(p[0], b1[0]) * math.cos(math.radians(b1[1])) < 1.0:
                        cls.add("near_base")
                    else:
                        cls.add("far_from_base")
                else:
                    cls.add("position_is_base")
                _check_point(p, b1, b2, as_ecef, ctx)
            return held(sig, nt, sorted(cls))
        if kind == "l93":
            sig = ("l93", tuple(map(tuple, pts)))
            for p in pts:
                _check_l93(p, ctx)
                lo0, lo1, la0, la1 = G.L93_DOMAIN
                if p[0] in (lo0, lo1) or p[1] in (la0, la1):
                    cls.add("lambert_edge")
            cls.add("lambert_batch")
            return held(sig, True, sorted(cls))
        if kind == "track":
            sig = ("track", tuple(map(tuple, pts)), case["base_form"], tuple(case["b1"]), case["rebase"],
                   case["back"], case["start"])
            for p in pts:
                _pt_classes(p, cls)
            cls.add("track_base_" + case["base_form"])
            cls.add("track_start_" + case["start"])
            cls.add("track_back_" + case["back"])
            if case["rebase"]:
                cls.add("track_enu_rebase")
            if len(pts) in (1, 20):
                cls.add("track_len_%d" % len(pts))
            nconv = _run_track(case, ctx)
            if len(pts) % 3 == 1:
                _run_lattice_rebase(case, ctx)
            nt = nconv >= 2 and (case["base_form"] != "none" or len(pts) > 1)
            return held(sig, nt, sorted(cls))
        if kind == "track_l93":
            sig = ("track_l93", tuple(map(tuple, pts)), case["via"])
            cls.add("track_lambert")
            if len(pts) in (1, 20):
                cls.add("track_len_%d" % len(pts))
            _run_track_l93(case, ctx)
            return held(sig, True, sorted(cls))
    except Bad as b:
        return violated(b.witness, None, True, sorted(cls))
    raise M.HarnessError("unknown case kind %r" % kind)


def classify(case, witness):
    return None


# floors for the call-history workloads added in session 3 (a run in which they were silently skipped is inconclusive)
_floors_base = floors
_FLOORS_EXTRA = {'counters': {'caller_reuses_base_object': 200, 'moved_base_object_used_again_at_once': 100, 'base_at_the_foot_of_the_first_fix': 40, 'second_track_with_the_same_base_object': 100,
                              'track_rebased_to_a_base_above_or_below_the_first': 25}}


def floors(tier):
    f = _floors_base(tier)
    for kind, d in _FLOORS_EXTRA.items():
        f.setdefault(kind, {}).update(d)
    return f
