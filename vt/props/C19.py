"""C19 -- grid summarising conserves observations and aggregates per cell
(DESIGN.md section 4, C19).

Deciding monitors (all observe the real tracklib code):

* icontract postcondition on the real ``Raster.getCell``: the footprint of the
  returned (column, row)
      [xmin + c rx, xmin + (c+1) rx] x [ymin + (nrow-1-r) ry, ymin + (nrow-r) ry],
  closed and widened by 1e-9, contains the coordinate, and (c, r) is a cell of
  the grid.  The same contract records which cell every coordinate was sent to.
* offline oracle over ``summarize(...)``: every observation was assigned to
  exactly one cell; the per-cell counts (feature 'uid', which is never NaN) sum
  to the number of observations and the counts of the value feature to the
  number of non-NaN values; every cell of every band (co_count co_sum co_min
  co_max co_avg co_median) equals the aggregate recomputed with the standard
  library over the non-NaN values of the observations the monitor saw assigned
  to that cell; empty or all-NaN cells hold 0 (count, sum) or the no-data value.
"""
from __future__ import annotations

import math
import statistics

from vt import gen, monitor as M
from vt.gen import held, violated, ood
from vt.oracles import geom as G

PROP = "C19"
RULE = ("one case = one collection of 1..4 tracks of 1..8 fixes (half-integer lattice, random, or random snapped to the "
        "predicted cell borders; repeated positions; small integer values with NaN placed first / last / alone / everywhere "
        "in a cell) summarised with co_count co_sum co_min co_max co_avg co_median at a square or non-square resolution "
        "and margin in {0, 0.05, 0.25}, plus direct Raster.getCell probes on borders, corners and the outer border.  The "
        "enumerated part places one fix at every point of the quarter-integer lattice on [0,3]^2 for 5 resolutions x 3 "
        "margins.  Distinct = distinct (resolution, margin, fixes with values); non-trivial = the grid has at least 2 "
        "cells, there are at least 2 observations, and at least one cell holds 2 or more values or a NaN or a fix lies "
        "on a cell border.")
ASSUMPTIONS = ["the grid geometry (xmin, ymin, resolution, ncol, nrow) published by the Raster defines the footprints; it is checked "
               "to cover the extent and the extent to contain every observation",
               "statistics.median / min / max / math.fsum of the standard library are correct",
               "a coordinate on a shared border may be assigned to either adjacent cell (closed footprints widened by 1e-9)",
               "bounding boxes of zero width or height and cells larger than the extent are out of domain"]
EXHAUSTIVE = {"quick": "one fix at each of the 169 points of the quarter-integer lattice on [0,3]^2 (with two frame fixes), for "
                       "resolutions (1,1) (2,2) (1,3) (0.7,2.3) (3,1.5) (0.5,0.75) x margins 0, 0.05, 0.25",
              "thorough": "the same 169 lattice points x 6 resolutions x 3 margins, on [0,3]^2 and on [0,6]x[0,3]"}
CASE_LIMIT_S = 30.0

EPS = 1e-9
AGGS = ["co_count", "co_sum", "co_min", "co_max", "co_avg", "co_median"]
ORDER = []
RES = [[1, 1], [2, 2], [1, 3], [0.7, 2.3], [3, 1.5]]
RES_ENUM = RES + [[0.5, 0.75]]
MARGINS = [0, 0.05, 0.25]

SEEN = []          # (x, y, result) of every Raster.getCell call observed by the contract


# --------------------------------------------------------------------------
def chunks(tier, seed):
    out = []
    frames = [[3, 3]] if tier == "quick" else [[3, 3], [6, 3]]
    k = 0
    for fr in frames:
        for res in RES_ENUM:
            out.append({"kind": "enum", "res": res, "frame": fr, "key": "enum%d" % k})
            k += 1
    nrand = 18 if tier == "quick" else 42
    per = 220 if tier == "quick" else 2500
    for k in range(nrand):
        out.append({"kind": "rand", "n": per, "idx": k, "key": "rand%d" % k})
    return out


def floors(tier):
    q = tier == "quick"
    mons = {"getCell.footprint_contains": 40000 if q else 400000,
            "assigned_to_exactly_one_cell": 20000 if q else 200000,
            "conservation.counts": 3000 if q else 30000,
            "grid.covers_extent": 3000 if q else 30000}
    for a in AGGS:
        mons["aggregate." + a] = 30000 if q else 300000
    return {"monitors": mons,
            "classes": {"nan_first_in_cell": 150, "nan_last_in_cell": 150, "nan_only_in_cell": 150, "nan_free": 500,
                        "obs_on_cell_border": 500, "obs_on_cell_corner": 300, "obs_on_outer_border": 500,
                        "obs_on_upper_outer_border": 300, "obs_on_outer_corner": 300,
                        "res_square": 500, "res_nonsquare": 500, "margin_0": 400, "margin_0.05": 400, "margin_0.25": 400,
                        "cell_with_2plus_values": 1000, "even_count_cell": 500, "odd_count_3plus_cell": 200,
                        "empty_cell": 1000, "single_fix_track": 100, "repeated_position": 300},
            "distinct_nontrivial": 1500 if q else 15000}


# --------------------------------------------------------------------------
# contract on the real Raster.getCell
def getCell_footprint_contains(self, coord, result):
    x, y = float(coord.getX()), float(coord.getY())
    ok = False
    try:
        if result is None:
            ok = not (self.xmin <= x <= self.xmax and self.ymin <= y <= self.ymax)
        else:
            c, r = result
            rx, ry = self.resolution[0], self.resolution[1]
            if c == int(c) and r == int(r) and 0 <= c < self.ncol and 0 <= r < self.nrow:
                eps = EPS * max(1.0, abs(x), abs(y))
                ok = G.point_in_widened_box((x, y), self.xmin + c * rx, self.ymin + (self.nrow - 1 - r) * ry,
                                            self.xmin + (c + 1) * rx, self.ymin + (self.nrow - r) * ry, eps)
    except Exception:
        ok = False
    SEEN.append((x, y, result))
    return ok


_installed = False


def setup(ctx):
    global _installed
    if _installed:
        return
    from tracklib.core.raster import Raster
    orig = Raster.__dict__["getCell"]
    Raster.getCell = M.ensure(orig, getCell_footprint_contains, "getCell.footprint_contains")
    _installed = True


# --------------------------------------------------------------------------
def _predict(tracks, res, margin):
    xs = [p[0] for t in tracks for p in t]
    ys = [p[1] for t in tracks for p in t]
    bx0, bx1, by0, by1 = min(xs), max(xs), min(ys), max(ys)
    dx, dy = bx1 - bx0, by1 - by0
    if dx <= 0 or dy <= 0:
        return None
    x0, x1 = bx0 - margin * dx, bx1 + margin * dx
    y0, y1 = by0 - margin * dy, by1 + margin * dy
    ax, ay = x1 - x0, y1 - y0
    if ax < res[0] or ay < res[1]:
        return None
    return {"x0": x0, "x1": x1, "y0": y0, "y1": y1, "nc": math.ceil(ax / res[0]), "nr": math.ceil(ay / res[1]),
            "bx0": bx0, "bx1": bx1, "by0": by0, "by1": by1}


def _probes(rng, P, res, n):
    out = []
    for _ in range(n):
        i, j = rng.randint(0, P["nc"]), rng.randint(0, P["nr"])
        gx = min(P["x0"] + i * res[0], P["x1"])
        gy = min(P["y0"] + j * res[1], P["y1"])
        ux, uy = rng.uniform(P["x0"], P["x1"]), rng.uniform(P["y0"], P["y1"])
        r = rng.random()
        if r < 0.3:
            p = [gx, gy]
        elif r < 0.45:
            p = [gx, uy]
        elif r < 0.6:
            p = [ux, gy]
        elif r < 0.8:
            p = [rng.choice([P["x0"], P["x1"], gx, ux]), rng.choice([P["y0"], P["y1"]])]
            if rng.random() < 0.5:
                p = [rng.choice([P["x0"], P["x1"]]), rng.choice([P["y0"], P["y1"], gy, uy])]
        elif r < 0.9:
            p = [math.nextafter(gx, rng.choice([-math.inf, math.inf])), math.nextafter(gy, rng.choice([-math.inf, math.inf]))]
            if not (P["x0"] <= p[0] <= P["x1"] and P["y0"] <= p[1] <= P["y1"]):
                p = [ux, uy]
        else:
            p = [ux, uy]
        out.append(p)
    return out


def _gen_rand_case(rng, force):
    res = force.get("res") or rng.choice(RES)
    margin = force["margin"] if "margin" in force else rng.choice(MARGINS)
    profile = force.get("profile") or rng.choice(["lattice", "lattice", "random", "gridsnap"])
    nanmode = force.get("nan") or rng.choice(["free", "free", "first", "last", "only", "sprinkle", "all"])
    tracks = None
    for _attempt in range(30):
        big = max(res)
        lo = max(2, int(math.ceil(1.5 * big)))
        W, H = rng.randint(lo, lo + 8), rng.randint(lo, lo + 8)
        ntr = rng.randint(1, 4)
        tracks = []
        crowded = force.get("crowded")
        for _ in range(ntr):
            n = rng.choice([1, 1, 2, 3, 4, 5, 6, 7, 8, 8])
            if crowded:
                n = rng.choice([700, 1000, 1201])
            stop = None
            if crowded and _ == 0 and force.get("long_stop"):
                # a long stop: more than a thousand fixes of one track within a few centimetres (one cell, or two)
                n = rng.choice([1100, 1501])
                stop = (rng.uniform(0.2 * W, 0.8 * W), rng.uniform(0.2 * H, 0.8 * H))
            pts = []
            for k in range(n):
                if stop and 20 <= k < n - 20:
                    x, y = stop[0] + rng.uniform(-0.01, 0.01), stop[1] + rng.uniform(-0.01, 0.01)
                elif pts and rng.random() < 0.2:
                    x, y = pts[rng.randrange(len(pts))][:2]            # repeated position
                elif profile == "lattice":
                    x, y = rng.randint(0, 2 * W) / 2, rng.randint(0, 2 * H) / 2
                    if rng.random() < 0.5:
                        x, y = float(int(x)), float(int(y))
                else:
                    x, y = rng.uniform(0, W), rng.uniform(0, H)
                pts.append([x, y, rng.randint(-5, 9) if not crowded else round(rng.uniform(-5, 9), 3)])
            tracks.append(pts)
        if _attempt == 0 and rng.random() < 0.02:
            # out of domain on purpose: zero width/height, or a cell larger than the extent
            if rng.random() < 0.5:
                for t in tracks:
                    for p in t:
                        p[0] = tracks[0][0][0]
            else:
                tracks = [[[p[0] / (4 * W) * res[0], p[1], p[2]] for p in t] for t in tracks]
            if _predict(tracks, res, margin) is None:
                return {"tracks": tracks, "res": res, "margin": margin, "profile": profile, "probes": []}
        # pin the bounding box corners fairly often so that fixes sit on the outer border / outer corners
        if rng.random() < 0.5 and sum(len(t) for t in tracks) >= 3:
            flat = [p for t in tracks for p in t]
            a, b = rng.sample(flat, 2)
            a[0], a[1] = 0.0, rng.choice([0.0, float(H)])
            b[0], b[1] = float(W), float(H) - a[1]
        P = _predict(tracks, res, margin)
        if P is None:
            continue
        if profile == "gridsnap":
            for t in tracks:
                for p in t:
                    if p[0] in (P["bx0"], P["bx1"]) or p[1] in (P["by0"], P["by1"]):
                        continue
                    if rng.random() < 0.6:
                        gx = P["x0"] + round((p[0] - P["x0"]) / res[0]) * res[0]
                        if P["bx0"] < gx < P["bx1"]:
                            p[0] = gx
                    if rng.random() < 0.6:
                        gy = P["y0"] + round((p[1] - P["y0"]) / res[1]) * res[1]
                        if P["by0"] < gy < P["by1"]:
                            p[1] = gy
            P2 = _predict(tracks, res, margin)
            if P2 is None or any(P2[k] != P[k] for k in ("x0", "x1", "y0", "y1")):
                continue
        break
    P = _predict(tracks, res, margin)
    if P is None:
        return {"tracks": tracks, "res": res, "margin": margin, "profile": profile, "probes": []}
    # NaN placement by (predicted) cell, in insertion order = track order then fix order
    groups = {}
    for t in tracks:
        for p in t:
            key = (int(math.floor((p[0] - P["x0"]) / res[0])), int(math.floor((p[1] - P["y0"]) / res[1])))
            groups.setdefault(key, []).append(p)
    glist = list(groups.values())
    rng.shuffle(glist)
    multi = [g for g in glist if len(g) >= 2]
    if nanmode == "first":
        for g in (multi or glist)[:rng.randint(1, 2)]:
            g[0][2] = None
            if len(g) >= 3 and rng.random() < 0.4:
                g[1][2] = None
    elif nanmode == "last":
        for g in (multi or glist)[:rng.randint(1, 2)]:
            g[-1][2] = None
    elif nanmode == "only":
        for g in glist[:rng.randint(1, 2)]:
            for p in g:
                p[2] = None
    elif nanmode == "sprinkle":
        for g in glist:
            for p in g:
                if rng.random() < 0.3:
                    p[2] = None
    elif nanmode == "all":
        for g in glist:
            for p in g:
                p[2] = None
    out_ = {"tracks": tracks, "res": res, "margin": margin, "profile": profile, "nanmode": nanmode,
            "probes": _probes(rng, P, res, 10)}
    if force.get("crowded"):
        out_["limit_x"] = 4
    return out_


def _enum_cases(chunk):
    res = chunk["res"]
    Wf, Hf = chunk["frame"]
    v = 0
    for margin in MARGINS:
        for j in range(13):
            y = j / 4
            pts = []
            for i in range(13):
                v += 1
                pts.append([i / 4 * (Wf / 3), y, (v % 11) - 3 if v % 7 else None])
            yield {"tracks": [[[0.0, 0.0, 1], [float(Wf), float(Hf), 2]], pts], "res": res, "margin": margin,
                   "profile": "enum",
                   "probes": [[i / 4 * (Wf / 3), y] for i in range(13)]}


# the other quadrants: cases are generated with coordinates from 0 upwards; a third of them are then translated as a
# whole (fixes and probe points) to the left of and / or below the origin, by multiples of 0.5 (exact for lattices)
SHIFTS = [(-64.0, 0.0), (0.0, -48.5), (-1000.5, -2000.0), (-7.5, -5.0), (-4096.0, 12.0)]


def cases(chunk):
    for i, c in enumerate(_cases(chunk)):
        if i % 3 == 1 and not c.get("limit_x"):
            dx, dy = SHIFTS[(i // 3) % len(SHIFTS)]
            c["tracks"] = [[[p[0] + dx, p[1] + dy] + list(p[2:]) for p in t] for t in c["tracks"]]
            c["probes"] = [[q[0] + dx, q[1] + dy] + list(q[2:]) for q in c.get("probes", [])]
            c["shift"] = [dx, dy]
        yield c


def _cases(chunk):
    if chunk["kind"] == "enum":
        for c in _enum_cases(chunk):
            yield c
        return
    rng = gen.rng_for(PROP, chunk)
    k = chunk.get("idx", 0)
    nanmodes = ["first", "last", "only", "free", "sprinkle"]
    for n in range(chunk["n"]):
        force = {}
        if n % 3 == 0:
            force["margin"] = MARGINS[(k + n // 3) % 3]
        if n % 4 == 1:
            force["nan"] = nanmodes[(k + n // 4) % len(nanmodes)]
        if n % 5 == 2:
            force["res"] = RES[(k + n // 5) % len(RES)]
        if n % 100 == 37:
            # larger scale: tracks of about a thousand observations on a coarse grid (hundreds of values per cell)
            force["crowded"] = True
            force["long_stop"] = rng.random() < 0.6
            force["nan"] = rng.choice(["free", "sprinkle", "first", "sprinkle"])
            force["profile"] = "random"
        yield _gen_rand_case(rng, force)


# --------------------------------------------------------------------------
def _expected(name, vals, nodata):
    """aggregate over the non-NaN values, by the standard library"""
    if name == "co_count":
        return len(vals)
    if name == "co_sum":
        return math.fsum(vals) if vals else 0
    if not vals:
        return nodata
    if name == "co_min":
        return min(vals)
    if name == "co_max":
        return max(vals)
    if name == "co_avg":
        return math.fsum(vals) / len(vals)
    if name == "co_median":
        return statistics.median(vals)
    raise M.HarnessError(name)


# the aggregated feature's name: ordinary, or a legal name that resembles the documented pseudo-feature 'uid'
# (a substring or a superstring of it, another case)
FEATURE_NAMES = ["v", "id", "u", "d", "ui", "i", "uid2", "UID", "V", "v", "xy", "zt", "dx", "tid", "base", "size"]


def _fname(case):
    k = len(case["tracks"]) * 3 + sum(len(t) for t in case["tracks"]) + int(case["margin"] * 100)
    return FEATURE_NAMES[k % len(FEATURE_NAMES)]


def _summarise(case):
    import tracklib.core.utils as U
    FN = _fname(case)
    from tracklib.core.track_collection import TrackCollection
    from tracklib.algo.summarising import summarize
    trs = []
    for k, t in enumerate(case["tracks"]):
        tr = gen.make_track([(p[0], p[1], 0.0) for p in t])
        # user identifiers are numbers or text (the documented pseudo-feature 'uid' is counted per cell)
        tr.uid = (k + 1) if len(case["tracks"]) % 2 else "user-%d" % (k + 1)
        col_ = [float("nan") if p[2] is None else p[2] for p in t]
        if (len(t) + k + len(case["tracks"])) % 4 == 1:
            # the values (NaN included) held as numpy scalars, as list(array) hands them out
            import numpy as np
            col_ = [np.float64(v) for v in col_]
            M.CTX.count("values_held_as_numpy_scalars")
        tr.createAnalyticalFeature(FN, col_)
        tr.createAnalyticalFeature("w", [float("nan") if p[2] is None else p[2] for p in t])
        if (len(t) + k + len(case["tracks"])) % 3 == 0:
            uid = tr.uid
            tr, _how = gen.derive(tr, (t, k), allow=["copy", "extract", "mod1", "concat", "gt0", "lt0"])
            tr.uid = uid
        trs.append(tr)
    if len(trs[0]) >= 2 and (len(case["tracks"]) + len(case["tracks"][0])) % 4 == 0:
        # a derived collection in which some observation OBJECTS are reachable through two tracks: a track next to one
        # of its extracts (extraction shares the observations, as splitting on indices does at the cutting points).
        # Every track's observations count.
        part = trs[0].extract(0, max(0, len(trs[0]) // 2))
        part.uid = trs[0].uid
        trs.append(part)
        M.CTX.count("collection_with_shared_observation_objects")
    col = TrackCollection(trs)
    # the order in which the aggregates are requested is part of the configuration: a permutation per case
    import random
    names = list(AGGS) + ["uid"]
    random.Random(repr((case["tracks"], case["res"], case["margin"]))).shuffle(names)
    afs = ["uid" if a == "uid" else FN for a in names]
    ops = [U.co_count if a == "uid" else getattr(U, a) for a in names]
    raster = summarize(col, afs, ops, tuple(case["res"]), case["margin"])
    ORDER[:] = names
    return raster, trs, col


def run_case(case, ctx):
    from tracklib.core.obs_coords import ENUCoords
    from tracklib.core.raster import NO_DATA_VALUE
    tracks, res, margin = case["tracks"], case["res"], case["margin"]
    xs = [p[0] for t in tracks for p in t]
    ys = [p[1] for t in tracks for p in t]
    if max(xs) == min(xs) or max(ys) == min(ys):
        return ood("zero-width-or-height bounding box")
    if _predict(tracks, res, margin) is None:
        return ood("cell larger than the extent")
    nobs = len(xs)
    cls = set(["margin_%s" % margin, "res_square" if res[0] == res[1] else "res_nonsquare",
               "profile_" + case.get("profile", "?")])
    if any(len(t) == 1 for t in tracks):
        cls.add("single_fix_track")
    if len(set((p[0], p[1]) for t in tracks for p in t)) < nobs:
        cls.add("repeated_position")
    if all(p[2] is not None for t in tracks for p in t):
        cls.add("nan_free")
    sig = (tuple(res), margin, tuple(tuple(tuple(p) for p in t) for t in tracks))

    FN = _fname(case)
    if FN != "v":
        cls.add("feature_name_resembling_uid")
    if case.get("shift"):
        cls.add("fixes_left_of_or_below_the_origin")
    if nobs >= 1000:
        cls.add("crowded_cells_hundreds_of_values")
        from collections import Counter
        near = Counter((round(p[0], 1), round(p[1], 1)) for t in tracks for p in t)
        if near and max(near.values()) > 1000:
            cls.add("long_stop_more_than_1000_values_in_a_cell")
            if any(p[2] is None for t in tracks for p in t):
                cls.add("long_stop_more_than_1000_values_in_a_cell_with_nan")
    del SEEN[:]
    out = M.call(_summarise, case)
    if M.is_raised(out):
        return violated({"what": "summarize raised on an in-domain collection", "raised": out,
                         "res": res, "margin": margin, "tracks": tracks}, sig, True, sorted(cls))
    raster, trs, col = out
    nobs = sum(t.size() for t in trs)          # the collection may hold one more (derived) track than the case lists
    seen = list(SEEN)
    cls.add("first_requested:" + ORDER[0])
    if ORDER.index("co_median") < len(ORDER) - 1:
        cls.add("median_requested_before_another_aggregate")
    nodata = raster.getNoDataValue()
    ncol, nrow = raster.ncol, raster.nrow
    rx, ry = raster.resolution[0], raster.resolution[1]
    geo = {"xmin": raster.xmin, "xmax": raster.xmax, "ymin": raster.ymin, "ymax": raster.ymax,
           "ncol": ncol, "nrow": nrow, "resolution": [rx, ry]}

    def fail(what, **extra):
        w = {"what": what, "raster": geo, "res": res, "margin": margin, "tracks": tracks}
        w.update(extra)
        return violated(w, sig, True, sorted(cls))

    # premise: the grid covers the extent, the extent contains every observation, no-data is the documented value
    ctx.monitor("grid.covers_extent")
    fixes = [[(t.getObs(i).position.getX(), t.getObs(i).position.getY(), t.getObsAnalyticalFeature(FN, i))
              for i in range(t.size())] for t in trs]
    scale = max(1.0, abs(raster.xmin), abs(raster.xmax), abs(raster.ymin), abs(raster.ymax))
    if (ncol < 1 or nrow < 1 or (rx, ry) != (res[0], res[1])
            or raster.xmin + ncol * rx < raster.xmax - EPS * scale or raster.ymin + nrow * ry < raster.ymax - EPS * scale
            or any(not (raster.xmin <= p[0] <= raster.xmax and raster.ymin <= p[1] <= raster.ymax)
                   for t in fixes for p in t)
            or nodata != NO_DATA_VALUE):
        return fail("the grid does not cover the extent / the extent does not contain the observations")

    # every observation was assigned to exactly one cell (as seen by the contract on getCell)
    assigned = {}
    for (x, y, r) in seen:
        assigned.setdefault((x, y), set()).add(None if r is None else (r[0], r[1]))
    cellvals, cellcount = {}, {}
    for t in fixes:
        for (x, y, v) in t:
            ctx.monitor("assigned_to_exactly_one_cell")
            cs = assigned.get((x, y))
            if not cs or len(cs) != 1 or None in cs:
                return fail("an observation was not assigned to exactly one cell", position=[x, y],
                            cells_seen=sorted(cs, key=repr) if cs else [])
            cell = next(iter(cs))
            cellcount[cell] = cellcount.get(cell, 0) + 1
            cellvals.setdefault(cell, []).append(v)

    # classes measured on the real grid
    for t in fixes:
        for (x, y, v) in t:
            fx, fy = (x - raster.xmin) / rx, (y - raster.ymin) / ry
            lx, ly = abs(fx - round(fx)) <= 1e-9, abs(fy - round(fy)) <= 1e-9
            ox = x == raster.xmin or x == raster.xmax
            oy = y == raster.ymin or y == raster.ymax
            if lx or ly or ox or oy:
                cls.add("obs_on_cell_border")
            if (lx or ox) and (ly or oy):
                cls.add("obs_on_cell_corner")
            if ox or oy:
                cls.add("obs_on_outer_border")
            if x == raster.xmax or y == raster.ymax:
                cls.add("obs_on_upper_outer_border")
            if ox and oy:
                cls.add("obs_on_outer_corner")
    interesting = "obs_on_cell_border" in cls
    for cell, vals in cellvals.items():
        nn = [v for v in vals if v == v]
        if len(vals) >= 2:
            cls.add("cell_with_2plus_values")
            interesting = True
        if len(nn) < len(vals):
            interesting = True
            if not nn:
                cls.add("nan_only_in_cell")
            else:
                if vals[0] != vals[0]:
                    cls.add("nan_first_in_cell")
                if vals[-1] != vals[-1]:
                    cls.add("nan_last_in_cell")
                if any(v != v for v in vals[1:-1]):
                    cls.add("nan_inside_cell")
        if nn and len(nn) % 2 == 0:
            cls.add("even_count_cell")
        if len(nn) >= 3 and len(nn) % 2 == 1:
            cls.add("odd_count_3plus_cell")
    if len(cellvals) < ncol * nrow:
        cls.add("empty_cell")

    # bands
    grids = {}
    for name in [FN + "#" + a for a in AGGS] + ["uid#co_count"]:
        m = M.call(raster.getAFMap, name)
        if M.is_raised(m):
            return fail("band %s is missing" % name, raised=m)
        g = m.grid
        if len(g) != nrow or any(len(row) != ncol for row in g):
            return fail("band %s does not have nrow x ncol cells" % name)
        grids[name] = [list(row) for row in g]       # a copy: the band is recomputed in place later

    # conservation
    ctx.monitor("conservation.counts")
    tot_uid = sum(grids["uid#co_count"][r][c] for r in range(nrow) for c in range(ncol))
    tot_v = sum(grids[FN + "#co_count"][r][c] for r in range(nrow) for c in range(ncol))
    n_valid = sum(1 for t in fixes for p in t if p[2] == p[2])
    if tot_uid != nobs or tot_v != n_valid:
        return fail("counts summed over all cells do not equal the number of observations / of non-NaN values",
                    sum_uid_count=tot_uid, observations=nobs, sum_value_count=tot_v, non_nan_values=n_valid)

    # per-cell recomputation
    for r in range(nrow):
        for c in range(ncol):
            vals = cellvals.get((c, r), [])
            nn = [v for v in vals if v == v]
            got_n = grids["uid#co_count"][r][c]
            if got_n != cellcount.get((c, r), 0):
                return fail("a cell does not count exactly the observations assigned to it", cell=[c, r],
                            got=got_n, expected=cellcount.get((c, r), 0))
            for a in AGGS:
                exp = _expected(a, nn, nodata)
                got = grids[FN + "#" + a][r][c]
                if not M.feq(got, exp, 1e-9, 1e-12) or M.isnan(got):
                    return fail("cell aggregate differs from the aggregate of the (non-NaN) values located in the cell",
                                aggregate=a, cell=[c, r], values_in_cell=vals, got=got, expected=exp,
                                mechanism={"first_value_nan": bool(vals) and vals[0] != vals[0],
                                           "all_nan": bool(vals) and not nn, "has_nan": len(nn) < len(vals),
                                           "empty": not vals})
    for a in AGGS:
        ctx.monitor("aggregate." + a, ncol * nrow)

    # call history on the same Raster object: a further band (feature w, a copy of v) is declared, the collection
    # is handed over again and the aggregates recomputed -- every band already there must come out unchanged and
    # the new band must equal the one of v
    if (nobs + ncol + len(tracks)) % 3 == 0:
        def again():
            raster.addAFMap("w#co_count")
            raster.addAFMap("w#co_sum")
            if nobs % 2 == 0 and len(trs) >= 1:
                # error path in between: a collection whose LAST track lacks a declared feature is refused (what is
                # raised is not judged); the valid hand-over follows on the same raster
                from tracklib.core.track_collection import TrackCollection
                lacking = gen.make_track([(p[0], p[1], 0.0) for p in tracks[0]])
                lacking.createAnalyticalFeature(FN, [1.0] * lacking.size())
                M.call(raster.addCollectionToRaster, TrackCollection(list(trs) + [lacking]))
                M.CTX.count("refused_collection_before_valid_one")
            raster.addCollectionToRaster(col)
            raster.computeAggregates()
        r2 = M.call(again)
        ctx.monitor("second_addCollection.same_bands")
        cls.add("history_band_added_later")
        if M.is_raised(r2):
            return fail("adding a band to the raster and handing the collection over again raised", raised=r2)
        for name in [FN + "#" + a for a in AGGS] + ["uid#co_count"]:
            g2 = raster.getAFMap(name).grid
            for r in range(nrow):
                for c in range(ncol):
                    if not M.feq(g2[r][c], grids[name][r][c], 1e-12, 0):
                        return fail("a band changed when the same collection was handed to the raster a second time "
                                    "(after a further band was declared)", band=name, cell=[c, r],
                                    first=grids[name][r][c], second=g2[r][c])
        for a in ("co_count", "co_sum"):
            gw = raster.getAFMap("w#" + a).grid
            for r in range(nrow):
                for c in range(ncol):
                    if not M.feq(gw[r][c], grids[FN + "#" + a][r][c], 1e-12, 0):
                        return fail("a band declared later differs from the same aggregate of the same values computed "
                                    "in the first pass", band="w#" + a, cell=[c, r], got=gw[r][c],
                                    expected=grids[FN + "#" + a][r][c])

    # direct getCell probes (the contract judges them)
    for p in case.get("probes", []):
        if not (raster.xmin <= p[0] <= raster.xmax and raster.ymin <= p[1] <= raster.ymax):
            ctx.count("probe_outside_extent")
            continue
        rcell = M.call(raster.getCell, ENUCoords(p[0], p[1]))
        ctx.count("getCell_probes")
        if M.is_raised(rcell):
            return fail("Raster.getCell raised or returned a cell whose footprint does not contain the coordinate",
                        probe=p, raised=rcell)
        if rcell is None:
            return fail("Raster.getCell returned None for a coordinate inside the extent", probe=p)

    nontrivial = ncol * nrow >= 2 and nobs >= 2 and interesting
    res_ = held(sig, nontrivial, sorted(cls))
    names_used = list(ORDER)

    def again():
        # the same collection, summarised again (and the first raster read again) after another case (another
        # collection, another raster) was summarised in between
        import tracklib.core.utils as U
        from tracklib.algo.summarising import summarize
        afs = ["uid" if a == "uid" else FN for a in names_used]
        ops = [U.co_count if a == "uid" else getattr(U, a) for a in names_used]
        r2 = M.call(summarize, col, afs, ops, tuple(case["res"]), case["margin"])
        if M.is_raised(r2):
            return {"what": "summarising the same collection again, after ANOTHER collection was summarised in between, "
                            "raised", "raised": r2, "tracks": tracks if nobs < 100 else nobs}
        for which, rr in (("the first raster, read again", raster), ("a second raster of the same collection", r2)):
            for a in AGGS:
                name = FN + "#" + a
                g2 = rr.getAFMap(name).grid
                for r in range(nrow):
                    for c in range(ncol):
                        if not M.feq(g2[r][c], grids[name][r][c], 1e-9, 1e-12):
                            return {"what": "a band differs from what was judged before (%s, after ANOTHER collection was "
                                            "summarised in between)" % which, "band": name, "cell": [c, r],
                                    "judged_before": grids[name][r][c], "now": g2[r][c],
                                    "tracks": tracks if nobs < 100 else nobs, "res": res, "margin": margin}
        return None
    res_["again"] = again
    return res_


def classify(case, witness):
    """No open finding for C19 (the two co_min/co_max/co_median NaN defects are repaired in the repository)."""
    return None


# floors for the call-history workloads added in session 3 (a run in which they were silently skipped is inconclusive)
_floors_base = floors
_FLOORS_EXTRA = {'monitors': {'second_addCollection.same_bands': 300}, 'classes': {'median_requested_before_another_aggregate': 1000,
                                                                                       'feature_name_resembling_uid': 1000, 'crowded_cells_hundreds_of_values': 20, 'fixes_left_of_or_below_the_origin': 500,
 'long_stop_more_than_1000_values_in_a_cell_with_nan': 4}}


def floors(tier):
    f = _floors_base(tier)
    for kind, d in _FLOORS_EXTRA.items():
        f.setdefault(kind, {}).update(d)
    return f
