"""C13 -- tracks and networks written to file are read back unchanged
(DESIGN.md section 4, C13).

Every case is a short history of write->read round trips ("steps") through the
real writers and readers:

  csv  TrackWriter.writeToFile / writeToCsv  ->  TrackReader.readFromFile(TrackFormat) / readFromCsv
  gpx  TrackWriter.writeToGpx (one file)     ->  TrackReader.readFromGpx / readFromFile(TrackFormat GPX)
  net  NetworkWriter.writeToCsv              ->  NetworkReader.readFromFile(NetworkFormat)
  wkt  Track.toWKT()                         ->  TrackReader.parseWkt

Monitors
  * field-by-field comparison of what was read with what the API says was
    written (count, order, coordinates to the written precision, timestamps
    to the second, network ids / end nodes / orientations / vertex lists);
  * a conservation contract wrapped round every reader / writer entry point:
    the class-level ObsTime read / print formats (and the precompiled read
    table) are identical before and after the call.

Files live under $VT_WORK (fallback: a mkdtemp under /verif/.work) and are
removed after every step.
"""
from __future__ import annotations

import calendar
import itertools
import json
import math
import os
import shutil
import tempfile

from vt import gen, monitor as M
from vt.gen import held, violated, ood

PROP = "C13"
RULE = ("a case is a history of 1..6 write->read round trips in one process. Enumerated part: every coordinate system "
        "(ENU, GEO, ECEF) x every column layout the CSV writer accepts (24 orders of E,N,U,T; 6 of E,N,U; 6 of E,N,T; 2 of E,N) "
        "x separators {',' ';' '|' tab blank ', '} x header {0,1} x both writer entry points, each with a freshly drawn hostile "
        "track. Sampled part: CSV with random layouts, GPX (GEO/ENU, 1..3 tracks in one file), networks of 2..6 nodes "
        "(string ids, three orientations, multi-vertex geometries, parallel edges, loops), toWKT->parseWkt, and sequences of "
        "3..6 round trips with pairwise different time formats. Tracks have 1..8 fixes with negative, >=1e8, -0.0004, "
        "rounding-tie and many-decimal values and timestamps at midnight, month ends, 31 Dec 23:59:59, 29 Feb. "
        "Distinct = distinct canonical JSON of the steps (configuration and data). Non-trivial = some step carries >= 2 "
        "fixes (or >= 2 edges) so that order is observable, and the case exercises a non-default configuration or a "
        "hostile value / timestamp class.")
ASSUMPTIONS = [
    "the truth is what the API returns for the object handed to the writer (getX/getY/getZ, timestamp fields, Network.EDGES/NODES)",
    "a 'matching format' is: TrackFormat/NetworkFormat with the ids, separator, header and srid given to the writer, time_fmt equal "
    "to the ObsTime print format in force when the file was written; for GPX the global read format '4Y-2M-2DT2h:2m:2sZ' "
    "(as tracklib's own tests do)",
    "time formats are fixed-width (2D 2M 4Y/2Y 2h 2m 2s 3z); 2Y only with years 2000..2099; the separator never occurs in the "
    "textual timestamp (blank separator => blank-free time format); ids never contain the separator or a quote",
    "coordinates whose integer part equals the no-data sentinel -999999 are not generated",
    "Python's float()/repr()/format() are correct",
]
EXHAUSTIVE = {
    "quick": "all 3 x 38 x 6 x 2 = 1368 (srid, column layout, separator, header) CSV configurations, each through writeToFile "
             "and through writeToCsv (2736 cases)",
    "thorough": "all 1368 CSV configurations x 2 writer entry points x 2 reader entry points x 6 tracks (32832 cases)",
}
CASE_LIMIT_S = 30.0

GPX_READ_FMT = "4Y-2M-2DT2h:2m:2sZ"
KF_GPX_ENU = "C13:gpx-enu-elevation"

# (format, contains a blank, two-digit year)
TIME_FMTS = [
    ("2D/2M/4Y 2h:2m:2s", True, False),
    ("4Y-2M-2D 2h:2m:2s", True, False),
    ("4Y-2M-2DT2h:2m:2sZ", False, False),
    ("4Y-2M-2DT2h:2m:2s.3zZ", False, False),
    ("2D/2M/4Y-2h:2m:2s", False, False),
    ("4Y2M2D2h2m2s", False, False),
    ("2D.2M.2Y_2h2m2s", False, True),
    ("2h:2m:2s 2D/2M/4Y", True, False),
    ("2M/2D/4Y 2h:2m:2s.3z", True, False),
    ("2M/2D/4Y 2h:2m:2s", True, False),
    ("4Y/2M/2D_2h:2m:2s.3z", False, False),
]
TF_INFO = {f: (b, y2) for f, b, y2 in TIME_FMTS}
SEPS = [",", ";", "|", "\t", " ", ", "]
NET_SEPS = [",", ";", "|", "\t"]
SRIDS = ["ENU", "GEO", "ECEF"]
SEP_NAME = {",": "comma", ";": "semicolon", "|": "pipe", "\t": "tab", " ": "blank", ", ": "comma_blank"}


def col_configs():
    """[E, N, U, T] column ids of every layout the writer accepts."""
    out = []
    for p in itertools.permutations(range(4)):
        out.append(list(p))
    for p in itertools.permutations(range(3)):
        out.append([p[0], p[1], p[2], -1])
    for p in itertools.permutations(range(3)):
        out.append([p[0], p[1], -1, p[2]])
    for p in itertools.permutations(range(2)):
        out.append([p[0], p[1], -1, -1])
    return out


COLS = col_configs()


# --------------------------------------------------------------------------
# chunks / floors
def chunks(tier, seed):
    q = tier == "quick"
    out = []
    nsh = 12
    for k in range(nsh):
        out.append({"kind": "csv_enum", "shard": k, "of": nsh, "key": "csvenum%d" % k, "reps": 1 if q else 6,
                    "both_readers": not q})
    for k in range(4):
        out.append({"kind": "csv_rand", "key": "csvrand%d" % k, "n": 800 if q else 20000})
    for k in range(4):
        out.append({"kind": "gpx", "key": "gpx%d" % k, "n": 300 if q else 8000})
    for k in range(4):
        out.append({"kind": "net", "key": "net%d" % k, "n": 300 if q else 8000})
    for k in range(2):
        out.append({"kind": "wkt", "key": "wkt%d" % k, "n": 500 if q else 12000})
    for k in range(8):
        out.append({"kind": "seq", "key": "seq%d" % k, "n": 150 if q else 3000})
    return out


def floors(tier):
    q = tier == "quick"
    s = 1 if q else 10
    return {
        "monitors": {"obstime_formats.conserved": 25000 * s, "csv.roundtrip": 6000 * s, "gpx.roundtrip": 1200 * s, "gpx.per_track_files": 200 * s,
                     "net.roundtrip": 1000 * s, "net.second_read_after_the_first_was_modified": 300 * s, "net.two_networks_with_the_same_identifiers": 150 * s, "wkt.roundtrip": 900 * s, "coord.within_written_precision": 90000 * s,
                     "timestamp.same_second": 25000 * s},
        "classes": {"csv": 5000, "gpx": 1200, "net": 1000, "wkt": 900, "sequence": 1000,
                    "srid_ENU": 1800, "srid_GEO": 1800, "srid_ECEF": 1800,
                    "perm_nonidentity": 4000, "cols_ENUT": 3000, "cols_ENT": 900, "cols_ENU": 900, "cols_EN": 300,
                    "sep_comma": 900, "sep_semicolon": 900, "sep_pipe": 900, "sep_tab": 900, "sep_blank": 900,
                    "sep_comma_blank": 900,
                    "header_0": 2500, "header_1": 2500, "writeToFile": 2500, "writeToCsv": 2500,
                    "readFromFile": 3000, "readFromCsv": 1800, "tf_explicit": 2000, "tf_global": 2500,
                    "val_negative": 5000, "val_ge_1e8": 3500, "val_tiny_negative": 1500, "val_many_decimals": 5000,
                    "val_rounding_tie": 1500,
                    "ts_midnight": 2000, "ts_month_end": 2500, "ts_dec31_235959": 500, "ts_feb29": 900,
                    "single_fix": 800, "eight_fixes": 800,
                    "gpx_GEO": 600, "gpx_ENU": 600, "gpx_multi_track": 400,
                    "net_orient_direct": 800, "net_orient_inverse": 800, "net_orient_double": 800,
                    "net_multi_vertex": 900, "net_header_0": 500, "net_header_1": 500, "net_loop": 300,
                    "net_ENU": 600, "net_GEO": 300,
                    "wkt_exponent": 500, "wkt_integer": 300, "wkt_ENU": 500, "wkt_GEO": 250,
                    "track_of_500+_observations": 30, "gpx_with_analytical_features": 300},
        "distinct_nontrivial": 7000 * s,
    }


# --------------------------------------------------------------------------
# setup: conservation contract on the real entry points
_installed = False
_WRAPPED = []


def _fmt_state():
    from tracklib.core.obs_time import ObsTime
    return (ObsTime.getReadFormat(), ObsTime.getPrintFormat(),
            tuple(tuple(x) for x in ObsTime._ObsTime__PRECOMPILED_READ_FMT))


def _pre(a, k):
    return _fmt_state()


def _post(tok, a, k, result):
    now = _fmt_state()
    if now != tok:
        return "global ObsTime formats changed by the call: before read=%r print=%r, after read=%r print=%r%s" % (
            tok[0], tok[1], now[0], now[1], "" if tok[2] == now[2] or tok[0] != now[0] else " (precompiled table differs)")
    return None


def setup(ctx):
    global _installed
    if _installed:
        return
    from tracklib.io.track_writer import TrackWriter
    from tracklib.io.track_reader import TrackReader
    from tracklib.io.network_writer import NetworkWriter
    from tracklib.io.network_reader import NetworkReader
    from tracklib.core.track import Track
    name = "obstime_formats.conserved"
    targets = [(TrackWriter, "writeToFile"), (TrackWriter, "writeToCsv"), (TrackWriter, "writeToGpx"),
               (TrackReader, "readFromFile"), (TrackReader, "readFromCsv"), (TrackReader, "readFromGpx"),
               (TrackReader, "parseWkt"), (NetworkWriter, "writeToCsv"), (NetworkReader, "readFromFile")]
    for cls, attr in targets:
        raw = cls.__dict__[attr]
        fn = raw.__func__ if isinstance(raw, staticmethod) else raw
        setattr(cls, attr, staticmethod(M.wrap_prepost(fn, _pre, _post, name)))
        _WRAPPED.append("%s.%s" % (cls.__name__, attr))
    Track.toWKT = M.wrap_prepost(Track.__dict__["toWKT"], _pre, _post, name)
    _WRAPPED.append("Track.toWKT")
    _installed = True


# --------------------------------------------------------------------------
# generators (all data ends up in the case)
TIES = [0.0625, -0.0625, 0.1875, 2.3125, -7.4375, 1024.0625, 0.5625]


def _guard_nodata(v):
    if -1000000.0 < v <= -999999.0:
        return v - 7.0
    return v


def metric_value(rng):
    k = rng.random()
    if k < 0.10:
        v = rng.choice([0.0, -0.0004, 0.0004, -0.00049, 0.00051, 1e-7, -1e-7, 0.9995, -0.9995, 0.0005, -0.0005,
                        2.5e-4, 999.9995, -0.0])
    elif k < 0.14:
        v = rng.choice(TIES)
    elif k < 0.28:
        v = rng.choice([-1, 1]) * (1e8 + rng.random() * 10 ** rng.randint(8, 10))
    elif k < 0.33:
        v = rng.choice([1e8, -1e8, 123456789.123456789, -987654321.987654, 1e12 + 0.5, 99999999.9996,
                        -99999999.9996, 4503599627370.4969])
    elif k < 0.45:
        v = float(rng.randint(-10000, 10000))
    elif k < 0.55:
        v = round(rng.uniform(-1e4, 1e4), 3)
    else:
        v = rng.uniform(-1e6, 1e6) * rng.choice([1, 1, 1e-3, 1e-6])
    return _guard_nodata(v)


def ecef_value(rng):
    k = rng.random()
    if k < 0.6:
        return _guard_nodata(rng.uniform(-6.4e6, 6.4e6))
    return metric_value(rng)


def lon_value(rng):
    k = rng.random()
    if k < 0.15:
        return rng.choice([0.0, -0.00000004, 0.000000004, 179.99999999, -179.123456789012, 1e-9, -1e-11, 2.3488000001,
                           -0.00000000005, 180.0, -180.0])
    if k < 0.3:
        return round(rng.uniform(-180, 180), rng.randint(0, 6))
    return rng.uniform(-180, 180)


def lat_value(rng):
    k = rng.random()
    if k < 0.15:
        return rng.choice([0.0, -0.00000004, 89.99999999, -89.123456789012, 1e-9, 48.8566000001, -0.00000000005, 90.0,
                           -90.0, 0.000000004])
    if k < 0.3:
        return round(rng.uniform(-90, 90), rng.randint(0, 6))
    return rng.uniform(-90, 90)


def gen_points(rng, srid, n, zero_z=False):
    pts = []
    for _ in range(n):
        if srid == "GEO":
            p = [lon_value(rng), lat_value(rng), metric_value(rng)]
        elif srid == "ECEF":
            p = [ecef_value(rng), ecef_value(rng), ecef_value(rng)]
        else:
            p = [metric_value(rng), metric_value(rng), metric_value(rng)]
        if zero_z:
            p[2] = 0.0
        pts.append(p)
    return pts


def _leap_years(lo, hi):
    return [y for y in range(lo, hi + 1) if calendar.isleap(y)]


def gen_times(rng, n, y2=False):
    """n non-decreasing epoch-millisecond instants hitting the calendar corners."""
    lo, hi = (2000, 2097) if y2 else (1970, 2097)
    Y = rng.randint(lo, hi)
    Mo = rng.randint(1, 12)
    k = rng.random()
    if k < 0.15:      # midnight
        base = gen.ms_from_fields(Y, Mo, rng.randint(1, 28), 0, 0, 0)
    elif k < 0.32:    # month end, just before midnight
        base = gen.ms_from_fields(Y, Mo, calendar.monthrange(Y, Mo)[1], 23, 59, rng.choice([57, 58, 59]))
    elif k < 0.47:    # 31 Dec 23:59:5x
        base = gen.ms_from_fields(Y, 12, 31, 23, 59, rng.choice([56, 58, 59, 59]))
    elif k < 0.62:    # 29 Feb
        ly = rng.choice(_leap_years(lo, hi))
        base = gen.ms_from_fields(ly, 2, 29, *rng.choice([(0, 0, 0), (23, 59, 59), (12, 0, 0),
                                                           (rng.randint(0, 23), rng.randint(0, 59), rng.randint(0, 59))]))
    elif k < 0.70:    # 28 Feb 23:59:59 (leap or not)
        base = gen.ms_from_fields(Y, 2, 28, 23, 59, 59)
    elif k < 0.78:    # 1 Jan 00:00:00
        base = gen.ms_from_fields(Y, 1, 1, 0, 0, 0)
    else:
        base = gen.ms_from_fields(Y, Mo, rng.randint(1, 28), rng.randint(0, 23), rng.randint(0, 59), rng.randint(0, 59))
    out = []
    t = base
    for i in range(n):
        ms = rng.choice([0, 0, 0, 500, 999, rng.randrange(1000)])
        out.append(t + ms)
        steps = [1, 1, 1, 2, 60, 3600, 86400, 86400 * 31, rng.randint(1, 100000), 86400 * 30, 86400 * 28, 86400 * 7]
        if Y < 2085:
            # sparse sampling: the same day and month of the following year
            steps += [86400 * 365, 86400 * 366]
        t += 1000 * rng.choice(steps)
    return out


def pick_tfmt(rng, sep, exclude=()):
    cands = [f for f, blank, y2 in TIME_FMTS if f not in exclude and not (blank and " " in sep)]
    return rng.choice(cands)


def gen_track_data(rng, srid, tfmt, n=None, zero_z=False, big=False):
    if n is None:
        n = rng.choice([1, 1, 2, 2, 3, 3, 4, 5, 6, 7, 8, 8])
    y2 = TF_INFO.get(tfmt, (False, False))[1]
    if big:
        # larger scale: a log of hundreds / thousands of fixes, one or two seconds apart
        n = rng.choice([500, 501, 640, 1000, 1001, 1200, 2500])
        t, ts = gen_times(rng, 1, y2)[0], []
        for _ in range(n):
            ts.append(t)
            t += 1000 * rng.choice([1, 1, 1, 2])
        return {"pts": gen_points(rng, srid, n, zero_z), "t_ms": ts, "big": 1}
    return {"pts": gen_points(rng, srid, n, zero_z), "t_ms": gen_times(rng, n, y2)}


def gen_csv_step(rng, srid=None, cols=None, sep=None, h=None, wapi=None, rapi=None, exclude_fmts=()):
    srid = srid or rng.choice(SRIDS)
    cols = cols or rng.choice(COLS)
    sep = sep if sep is not None else rng.choice(SEPS)
    h = rng.choice([0, 1]) if h is None else h
    tfmt = pick_tfmt(rng, sep, exclude_fmts)
    st = {"kind": "csv", "srid": srid, "cols": list(cols), "sep": sep, "h": h,
          "wapi": wapi or rng.choice(["writeToFile", "writeToCsv"]),
          "rapi": rapi or rng.choice(["readFromFile", "readFromFile", "readFromCsv"]),
          "tfmt": tfmt}
    # readFromFile: time_fmt either given explicitly (global read format is something else) or inherited from the
    # global read format at TrackFormat construction
    st["tf_mode"] = "global" if st["rapi"] == "readFromCsv" else rng.choice(["explicit", "explicit", "global"])
    st["other_fmt"] = rng.choice([f for f, _, _ in TIME_FMTS if f != tfmt])
    st.update(gen_track_data(rng, srid, tfmt, big=rng.random() < 0.012))
    return st


def gen_gpx_step(rng, srid=None, zero_z_enu=False):
    srid = srid or rng.choice(["GEO", "ENU"])
    ntr = rng.choice([1, 1, 1, 2, 3])
    big = rng.random() < 0.012
    tracks = [gen_track_data(rng, srid, GPX_READ_FMT, zero_z=(zero_z_enu and srid == "ENU") or
                             (srid == "ENU" and rng.random() < 0.25), big=big and k == 0) for k in range(ntr)]
    # the documented af option: the analytical features are exported too (as <extensions>); legal feature names that
    # begin like a GPX element (ele.., time.., trk..) or are quite ordinary
    af = None
    if rng.random() < 0.3:
        af = rng.sample(["speed", "elev_gain", "elevation", "ele2", "time_gap", "timer", "abs_curv", "trk2", "name2",
                         "lat2", "Ele", "times"], rng.choice([1, 2, 3]))
    return {"kind": "gpx", "srid": srid, "tracks": tracks, "af": af,
            "rapi": rng.choice(["readFromGpx", "readFromFile"]),
            "one_file": rng.random() >= 0.3,
            "print_fmt": rng.choice([f for f, _, _ in TIME_FMTS])}


ID_ALPHA = "ABCDEFGHJKLMNPQRSTUVWXYZabcdefghkmnpqrstuvwxyz0123456789"


def gen_id(rng, used, prefix=""):
    while True:
        k = rng.random()
        if k < 0.05:
            # identifiers of fixed-width exports: padded with blanks on the left or on the right
            s = prefix + str(rng.randint(0, 99))
            s = (" " * rng.randint(1, 2) + s) if rng.random() < 0.6 else (s + " " * rng.randint(1, 2))
        elif k < 0.25:
            s = prefix + str(rng.randint(0, 99999))
        elif k < 0.4:
            s = "".join(rng.choice(ID_ALPHA) for _ in range(rng.randint(1, 3))) + rng.choice(["_", "-", ".", " ", ":"]) + \
                "".join(rng.choice(ID_ALPHA) for _ in range(rng.randint(1, 3)))
        else:
            s = "".join(rng.choice(ID_ALPHA) for _ in range(rng.randint(1, 8)))
        if s not in used:
            used.add(s)
            return s


def net_xy(rng, srid):
    if srid == "GEO":
        return [lon_value(rng), lat_value(rng)]
    k = rng.random()
    if k < 0.15:
        return [rng.choice([1e-07, -1e-07, 1e+20, 1.5e-05, 123456789.123456789, 0.1, -0.0004]), metric_value(rng)]
    if k < 0.3:
        return [rng.randint(-1000, 1000), rng.randint(-1000, 1000)]     # ints print without a dot
    return [metric_value(rng), metric_value(rng)]


def gen_net_step(rng, srid=None):
    srid = srid or rng.choice(["ENU", "ENU", "GEO"])
    nn = rng.randint(2, 6)
    used = set()
    nids = [gen_id(rng, used, "n") for _ in range(nn)]
    nodes = {}
    seen_xy = set()
    for nid in nids:
        while True:
            xy = net_xy(rng, srid)
            if tuple(xy) not in seen_xy:
                seen_xy.add(tuple(xy))
                break
        nodes[nid] = xy
    edges = []
    eused = set()
    pairs = [(nids[i], nids[i + 1]) for i in range(nn - 1)]          # chain: every node is used
    for _ in range(rng.randint(0, 4)):
        a, b = rng.choice(nids), rng.choice(nids)
        pairs.append((a, b))                                        # parallel edges and loops allowed
    rng.shuffle(pairs)
    for (a, b) in pairs:
        if rng.random() < 0.5:
            a, b = b, a
        ninner = rng.choice([0, 0, 1, 2, 3, 5])
        if a == b and ninner == 0:
            ninner = 2
        edges.append({"id": gen_id(rng, eused, "e"), "s": a, "t": b, "o": rng.choice([-1, 0, 1]),
                      "inner": [net_xy(rng, srid) for _ in range(ninner)]})
    return {"kind": "net", "srid": srid, "sep": rng.choice(NET_SEPS), "h": rng.choice([0, 1]),
            "nodes": nodes, "edges": edges}


def wkt_value(rng, srid, axis):
    if srid == "GEO":
        return lon_value(rng) if axis == 0 else lat_value(rng)
    k = rng.random()
    if k < 0.2:
        return rng.choice([1e-07, -1e-07, 1e+20, -1e+20, 1.5e-05, 1e-300, 1.7976931348623157e+308, 5e-324, 1e16, 123456789012345680.0])
    if k < 0.35:
        return rng.randint(-100000, 100000)
    return metric_value(rng)


def gen_wkt_step(rng, srid=None):
    srid = srid or rng.choice(["ENU", "ENU", "GEO"])
    n = rng.choice([1, 2, 2, 3, 4, 5, 8])
    pts = [[wkt_value(rng, srid, 0), wkt_value(rng, srid, 1), 0.0] for _ in range(n)]
    r = rng.random()
    if n >= 2 and r < 0.2:
        pts[-1] = list(pts[0])            # ties: an exactly closed lap (two observations at the same place)
    elif n >= 3 and r < 0.3:
        pts[rng.randrange(1, n)] = list(pts[rng.randrange(0, n - 1)])   # a place visited twice / a repeated fix
    return {"kind": "wkt", "srid": srid, "pts": pts, "t_ms": gen_times(rng, n)}


def cases(chunk):
    rng = gen.rng_for(PROP, chunk)
    kind = chunk["kind"]
    if kind == "csv_enum":
        idx = 0
        for srid in SRIDS:
            for cols in COLS:
                for sep in SEPS:
                    for h in (0, 1):
                        idx += 1
                        if idx % chunk["of"] != chunk["shard"]:
                            continue
                        for rep in range(chunk["reps"]):
                            for wapi in ("writeToFile", "writeToCsv"):
                                rapis = ("readFromFile", "readFromCsv") if chunk["both_readers"] else (None,)
                                for rapi in rapis:
                                    yield {"steps": [gen_csv_step(rng, srid, cols, sep, h, wapi, rapi)]}
    elif kind == "csv_rand":
        for _ in range(chunk["n"]):
            yield {"steps": [gen_csv_step(rng)]}
    elif kind == "gpx":
        for _ in range(chunk["n"]):
            yield {"steps": [gen_gpx_step(rng)]}
    elif kind == "net":
        for _ in range(chunk["n"]):
            yield {"steps": [gen_net_step(rng)]}
    elif kind == "wkt":
        for _ in range(chunk["n"]):
            yield {"steps": [gen_wkt_step(rng)]}
    elif kind == "seq":
        for _ in range(chunk["n"]):
            if _ % 7 == 3:
                # two files in one process whose time formats share their layout but not their meaning (day/month
                # against month/day), holding the SAME TEXTS: the second track's dates are the first one's with day
                # and month exchanged
                d_, m_ = rng.sample(range(1, 13), 2)
                y_ = rng.randint(1971, 2090)
                base_a = gen.ms_from_fields(y_, m_, d_, rng.randint(0, 22), rng.randint(0, 59), rng.randint(0, 50))
                base_b = gen.ms_from_fields(y_, d_, m_, *gen.fields_from_ms(base_a)[3:6])
                steps = []
                for fmt_, base_ in (("2D/2M/4Y 2h:2m:2s", base_a), ("2M/2D/4Y 2h:2m:2s", base_b)):
                    st = gen_csv_step(rng, sep=rng.choice([",", ";", "|"]))
                    st["tfmt"] = fmt_
                    st["other_fmt"] = "4Y-2M-2D 2h:2m:2s"
                    nn = len(st["t_ms"])
                    st["t_ms"] = [base_ + 1000 * k_ for k_ in range(nn)]
                    st.pop("big", None)
                    steps.append(st)
                if rng.random() < 0.5:
                    steps.reverse()
                yield {"steps": steps, "twin_formats": 1}
                continue
            n = rng.randint(3, 6)
            steps = []
            used_fmts = []
            ncsv = 0
            for i in range(n):
                k = rng.random()
                if k < 0.62 or (i == n - 1 and ncsv < 2) or (i == n - 2 and ncsv < 1):
                    st = gen_csv_step(rng, exclude_fmts=used_fmts)    # pairwise different time formats
                    used_fmts.append(st["tfmt"])
                    ncsv += 1
                elif k < 0.8:
                    st = gen_gpx_step(rng, zero_z_enu=True)
                elif k < 0.9:
                    st = gen_net_step(rng)
                else:
                    st = gen_wkt_step(rng)
                steps.append(st)
            yield {"steps": steps}
    else:
        raise M.HarnessError("unknown chunk kind %r" % kind)


# --------------------------------------------------------------------------
# oracle helpers
def _ulp(v):
    v = abs(float(v))
    if math.isinf(v) or v != v:
        return 0.0
    return math.ulp(v)


TOL_METRIC = 0.5e-3
TOL_GEO = 0.5e-8


def _tols(srid):
    if srid == "GEO":
        return (TOL_GEO, TOL_GEO, TOL_METRIC)
    return (TOL_METRIC, TOL_METRIC, TOL_METRIC)


def _close(a, b, tol):
    a = float(a)
    b = float(b)
    if a == b:
        return True
    if a != a or b != b or math.isinf(a) or math.isinf(b):
        return False
    return abs(a - b) <= tol + _ulp(max(abs(a), abs(b)))


def _close_rel(a, b):
    """repr()-precision text: 1e-9 relative (standing rule), 1 ulp absolute."""
    a = float(a)
    b = float(b)
    if a == b:
        return True
    if a != a or b != b or math.isinf(a) or math.isinf(b):
        return False
    return abs(a - b) <= 1e-9 * max(abs(a), abs(b)) + _ulp(max(abs(a), abs(b)))


def _truth(track):
    """What the API says the track holds: [(x, y, z, (Y,M,D,h,m,s))]"""
    out = []
    for i in range(track.size()):
        o = track.getObs(i)
        t = o.timestamp
        out.append((o.position.getX(), o.position.getY(), o.position.getZ(),
                    (t.year, t.month, t.day, t.hour, t.min, t.sec)))
    return out


def _compare_track(exp, got, tols, fields, ctx, step, k=0):
    """fields: subset of 'xyzt' that was written.  Returns mismatch dicts."""
    mm = []
    if len(got) != len(exp):
        tag = "count"
        if len(got) == len(exp) - 1 and len(exp) >= 1:
            sub = _compare_track(exp[1:], got, tols, fields, None, step, k)
            if not sub:
                tag = "first_obs_dropped"
        mm.append({"step": step, "tag": tag, "k": k, "expected_count": len(exp), "got_count": len(got),
                   "expected_first": exp[:2], "got_first": got[:2]})
        return mm
    for i, (e, g) in enumerate(zip(exp, got)):
        for j, f in enumerate("xyz"):
            if f not in fields:
                continue
            if ctx is not None:
                ctx.monitor("coord.within_written_precision")
            if not _close(e[j], g[j], tols[j]):
                mm.append({"step": step, "tag": "coord_" + f, "k": k, "i": i, "expected": e[j], "got": g[j],
                           "tolerance": tols[j]})
        if "t" in fields:
            if ctx is not None:
                ctx.monitor("timestamp.same_second")
            if tuple(e[3]) != tuple(g[3]):
                mm.append({"step": step, "tag": "timestamp", "k": k, "i": i, "expected": list(e[3]), "got": list(g[3])})
    return mm


REJECTIONS = ("WrongArgumentError", "IOPathError", "NotYetImplementedError", "UnknownModeError", "MissingArgumentError")


class _Ood(Exception):
    pass


def _file_head(path):
    try:
        with open(path) as f:
            return f.read(600)
    except Exception:
        return None


def _raised_mm(step, where, r, extra=None):
    d = {"step": step, "tag": "raised:" + where, "raised": r}
    if r.type == "ContractBroken":
        d["tag"] = "contract:" + where
    if extra:
        d.update(extra)
    return d


def _set_formats(read_fmt, print_fmt):
    from tracklib.core.obs_time import ObsTime
    ObsTime.setReadFormat(read_fmt)
    ObsTime.setPrintFormat(print_fmt)


# --------------------------------------------------------------------------
# steps
def step_csv(st, ctx, work, si):
    from tracklib.io.track_writer import TrackWriter
    from tracklib.io.track_reader import TrackReader
    from tracklib.io.track_format import TrackFormat
    sep, tfmt = st["sep"], st["tfmt"]
    if TF_INFO.get(tfmt, (False, False))[0] and " " in sep:
        raise _Ood("separator occurs inside the textual timestamp")
    if sep in tfmt:
        raise _Ood("separator occurs inside the textual timestamp")
    E, N, U, T = st["cols"]
    track = gen.make_track(st["pts"], st["t_ms"], coord=st["srid"])
    if (len(st["pts"]) + si) % 4 == 3:
        track, _how = gen.derive(track, (st["pts"], si))
    exp = _truth(track)
    for e in exp:
        if int(e[0]) == -999999 or int(e[1]) == -999999:
            raise _Ood("coordinate equals the no-data sentinel")
    fields = "xy" + ("z" if U >= 0 else "") + ("t" if T >= 0 else "")
    path = os.path.join(work, "c13_%d_%d.csv" % (os.getpid(), si))
    fd = {"ext": "CSV", "id_E": E, "id_N": N, "id_U": U, "id_T": T, "separator": sep, "header": st["h"],
          "srid": st["srid"]}
    # the user's global state: print format = the format wanted in the file
    glob_read = tfmt if st["tf_mode"] == "global" else st["other_fmt"]
    _set_formats(glob_read, tfmt)
    ctx.monitor("csv.roundtrip")
    hk = (len(st["pts"]) + E * 3 + N * 5 + st["h"] + si + int(st["t_ms"][0] // 1000)) % 6
    if hk == 0:
        # error path first: GPX exports that are rejected (a file name that does not end in .gpx; one file per track
        # asked for on something that is not a directory); what they raise is not judged -- the CSV round trip that
        # follows in the same process is
        from tracklib.core.track_collection import TrackCollection
        M.call(TrackWriter.writeToGpx, track, os.path.join(work, "c13_rejected_%d.txt" % si), False, True)
        M.call(TrackWriter.writeToGpx, TrackCollection([track]), os.path.join(work, "c13_no_such_dir_%d" % si, "x"),
               False, False)
        ctx.count("rejected_gpx_export_before_csv_round_trip")
    if hk == 2:
        # error path first: an attempt to read a file that cannot be parsed (text in a coordinate column), declared
        # with ANOTHER time format; it is rejected.  The user's formats (set above) are what the round trip relies on.
        other = "4Y-2M-2D 2h:2m:2s" if tfmt != "4Y-2M-2D 2h:2m:2s" else "2D/2M/4Y 2h:2m:2s"
        badp = os.path.join(work, "c13_unreadable_%d_%d.csv" % (os.getpid(), si))
        with open(badp, "w") as fbad:
            fbad.write("1,2,3,2020-01-01 00:00:00\nfoo,bar,baz,2020-01-01 00:00:01\n")
        bf = M.call(TrackFormat, {"ext": "CSV", "id_E": 0, "id_N": 1, "id_U": 2, "id_T": 3, "separator": ",",
                                  "header": 0, "srid": "ENU", "time_fmt": other})
        if not M.is_raised(bf):
            M.call(TrackReader.readFromFile, badp, bf)
        _rm(badp)
        ctx.count("rejected_read_before_csv_round_trip")
    files_dir = None
    try:
        if st["wapi"] == "writeToFile" and hk == 1:
            # alternative entry point: one CSV file per track of a collection
            from tracklib.core.track_collection import TrackCollection
            files_dir = os.path.join(work, "c13_files_%d_%d" % (os.getpid(), si))
            os.makedirs(files_dir, exist_ok=True)
            w = M.call(TrackWriter.writeToFiles, TrackCollection([track]), files_dir, "csv", E, N, U, T, sep, st["h"])
            path = os.path.join(files_dir, "track_output_0.csv")
            ctx.count("writeToFiles_entry_point")
        elif st["wapi"] == "writeToFile":
            w = M.call(TrackWriter.writeToFile, track, path, E, N, U, T, sep, st["h"])
        else:
            wd = dict(fd)
            wd["time_fmt"] = tfmt
            wf = M.call(TrackFormat, wd)
            if M.is_raised(wf):
                return [_raised_mm(si, "TrackFormat", wf)]
            w = M.call(TrackWriter.writeToCsv, track, path, wf)
        if M.is_raised(w):
            if w.type in REJECTIONS:
                raise _Ood("writer rejects the configuration: " + w.type)
            return [_raised_mm(si, st["wapi"], w)]
        if st["rapi"] == "readFromFile":
            rd = dict(fd)
            if st["tf_mode"] == "explicit":
                rd["time_fmt"] = tfmt
            rf = M.call(TrackFormat, rd)
            if M.is_raised(rf):
                return [_raised_mm(si, "TrackFormat", rf)]
            r = M.call(TrackReader.readFromFile, path, rf)
        else:
            r = M.call(TrackReader.readFromCsv, path, E, N, U, T, sep, -1, 1, st["h"], "#", -999999, st["srid"])
        if M.is_raised(r):
            return [_raised_mm(si, st["rapi"], r, {"file_head": _file_head(path)})]
        if r is None or not hasattr(r, "getObs"):
            return [{"step": si, "tag": "no_track", "got": repr(r)[:200], "file_head": _file_head(path)}]
        got = _truth(r)
        mm = _compare_track(exp, got, _tols(st["srid"]), fields, ctx, si)
        if mm:
            mm[0]["file_head"] = _file_head(path)
        if not mm and hk in (3, 4) and st["srid"] in ("GEO", "ECEF") and st["wapi"] == "writeToFile":
            # derived object: an extract shares its observations with the track it was taken from.  It is written once
            # (geographic), the parent is then converted to Earth-centred coordinates -- which converts the shared
            # positions -- and the extract is written again: the file must describe what the extract holds NOW.
            to = "ECEF" if st["srid"] == "GEO" else "GEO"
            parent = gen.make_track(st["pts"], st["t_ms"], coord=st["srid"])
            ext = parent.extract(0, parent.size() - 1)
            p1, p2 = path + ".d1.csv", path + ".d2.csv"
            try:
                M.call(TrackWriter.writeToFile, ext, p1, E, N, U, T, sep, st["h"])
                cv = M.call(parent.toECEFCoords if to == "ECEF" else parent.toGeoCoords)
                if not M.is_raised(cv) and type(ext.getObs(0).position).__name__.upper().startswith(to):
                    exp2 = _truth(ext)
                    w2 = M.call(TrackWriter.writeToFile, ext, p2, E, N, U, T, sep, st["h"])
                    rd2 = dict(fd, srid=to)
                    if st["tf_mode"] == "explicit":
                        rd2["time_fmt"] = tfmt
                    rf2 = M.call(TrackFormat, rd2)
                    r2 = M.call(TrackReader.readFromFile, p2, rf2) if not (M.is_raised(w2) or M.is_raised(rf2)) else w2
                    ctx.monitor("csv.roundtrip_of_extract_after_parent_conversion")
                    if M.is_raised(r2) or r2 is None or not hasattr(r2, "getObs"):
                        return [_raised_mm(si, "extract written after its parent was converted", r2 if M.is_raised(r2) else M.Raised(ValueError("no track"), ""))]
                    mm = _compare_track(exp2, _truth(r2), _tols(to), fields, ctx, si)
                    if mm:
                        mm[0]["file_head"] = _file_head(p2)
                        mm[0]["history"] = "extract written (%s), parent converted to %s, extract written again" % (st["srid"], to)
            finally:
                _rm(p1)
                _rm(p2)
        return mm
    finally:
        _rm(path)
        if files_dir:
            shutil.rmtree(files_dir, ignore_errors=True)


def step_gpx(st, ctx, work, si):
    from tracklib.io.track_writer import TrackWriter
    from tracklib.io.track_reader import TrackReader
    from tracklib.io.track_format import TrackFormat
    from tracklib.core.track_collection import TrackCollection
    tracks = [gen.make_track(d["pts"], d["t_ms"], coord=st["srid"]) for d in st["tracks"]]
    exps = [_truth(t) for t in tracks]
    af = bool(st.get("af"))
    if af:
        for t in tracks:
            for j, name in enumerate(st["af"]):
                t.createAnalyticalFeature(name, [1000.0 + 17 * j + i for i in range(t.size())])
        ctx.count("gpx_written_with_analytical_features")
    path = os.path.join(work, "c13_%d_%d.gpx" % (os.getpid(), si))
    _set_formats(GPX_READ_FMT, st["print_fmt"])
    ctx.monitor("gpx.roundtrip")
    try:
        if len(tracks) == 1:
            obj = tracks[0]
        else:
            obj = TrackCollection()
            for t in tracks:
                obj.addTrack(t)
        if not st.get("one_file", True):
            # one file per track, named <tid>.gpx, written into a directory
            return _step_gpx_per_track(st, ctx, work, si, tracks, exps)
        w = M.call(TrackWriter.writeToGpx, obj, path, af, True)
        if M.is_raised(w):
            if w.type in REJECTIONS:
                raise _Ood("writer rejects the configuration: " + w.type)
            return [_raised_mm(si, "writeToGpx", w)]
        if st["rapi"] == "readFromGpx":
            r = M.call(TrackReader.readFromGpx, path, st["srid"], "trk")
        else:
            rf = M.call(TrackFormat, {"ext": "GPX", "srid": st["srid"], "type": "trk"})
            if M.is_raised(rf):
                return [_raised_mm(si, "TrackFormat", rf)]
            r = M.call(TrackReader.readFromFile, path, rf)
        if M.is_raised(r):
            return [_raised_mm(si, st["rapi"], r, {"file_head": _file_head(path)})]
        n = M.call(lambda: r.size())
        if M.is_raised(n) or n != len(tracks):
            return [{"step": si, "tag": "track_count", "expected": len(tracks), "got": n, "file_head": _file_head(path)}]
        mm = []
        for k in range(len(tracks)):
            got = _truth(r.getTrack(k))
            mm.extend(_compare_track(exps[k], got, _tols(st["srid"]), "xyzt", ctx, si, k))
        if mm:
            mm[0]["file_head"] = _file_head(path)
        return mm
    finally:
        _rm(path)


def _step_gpx_per_track(st, ctx, work, si, tracks, exps):
    import shutil
    from tracklib.io.track_writer import TrackWriter
    from tracklib.io.track_reader import TrackReader
    from tracklib.core.track_collection import TrackCollection
    d = os.path.join(work, "c13_%d_%d_gpxdir" % (os.getpid(), si))
    os.makedirs(d, exist_ok=True)
    ctx.monitor("gpx.per_track_files")
    try:
        obj = TrackCollection()
        for k, t in enumerate(tracks):
            t.tid = 100 + k
            obj.addTrack(t)
        w = M.call(TrackWriter.writeToGpx, obj, d, bool(st.get("af")), False)
        if M.is_raised(w):
            if w.type in REJECTIONS:
                raise _Ood("writer rejects the configuration: " + w.type)
            return [_raised_mm(si, "writeToGpx(oneFile=False)", w)]
        mm = []
        for k in range(len(tracks)):
            fp = os.path.join(d, "%d.gpx" % (100 + k))
            if not os.path.exists(fp):
                return [{"step": si, "tag": "file_missing", "expected": fp, "got": sorted(os.listdir(d))}]
            r = M.call(TrackReader.readFromGpx, fp, st["srid"], "trk")
            if M.is_raised(r):
                return [_raised_mm(si, "readFromGpx", r, {"file_head": _file_head(fp)})]
            n = M.call(lambda: r.size())
            if M.is_raised(n) or n != 1:
                return [{"step": si, "tag": "track_count", "expected": 1, "got": n, "file_head": _file_head(fp)}]
            got = _truth(r.getTrack(0))
            mm.extend(_compare_track(exps[k], got, _tols(st["srid"]), "xyzt", ctx, si, k))
        return mm
    finally:
        shutil.rmtree(d, ignore_errors=True)


def _coords_cls(srid):
    from tracklib.core.obs_coords import ENUCoords, GeoCoords, ECEFCoords
    return {"ENU": ENUCoords, "GEO": GeoCoords, "ECEF": ECEFCoords}[srid]


def _build_network(st):
    from tracklib.core.network import Network, Node, Edge
    from tracklib.core.track import Track
    from tracklib.core.obs import Obs
    from tracklib.core.obs_time import ObsTime
    C = _coords_cls(st["srid"])
    net = Network()
    for e in st["edges"]:
        xy = [st["nodes"][e["s"]]] + list(e["inner"]) + [st["nodes"][e["t"]]]
        tr = Track()
        for p in xy:
            tr.addObs(Obs(C(p[0], p[1], 0.0), ObsTime()))
        edge = Edge(e["id"], tr)
        edge.orientation = e["o"]
        net.addEdge(edge, Node(e["s"], tr.getFirstObs().position), Node(e["t"], tr.getLastObs().position))
    return net


def _net_truth(net):
    edges = {}
    for eid, e in net.EDGES.items():
        g = e.geom
        edges[str(eid)] = (str(e.source.id), str(e.target.id), int(e.orientation),
                           [(g.getObs(i).position.getX(), g.getObs(i).position.getY()) for i in range(g.size())])
    nodes = {str(nid): (n.coord.getX(), n.coord.getY()) for nid, n in net.NODES.items()}
    return edges, nodes


def step_net(st, ctx, work, si):
    from tracklib.io.network_writer import NetworkWriter
    from tracklib.io.network_reader import NetworkReader
    from tracklib.io.network_format import NetworkFormat
    sep = st["sep"]
    for s in list(st["nodes"]) + [e["id"] for e in st["edges"]]:
        if sep in s or '"' in s or "\n" in s:
            raise _Ood("identifier contains the separator")
    net = _build_network(st)
    e_exp, n_exp = _net_truth(net)
    path = os.path.join(work, "c13_%d_%d_net.csv" % (os.getpid(), si))
    ctx.monitor("net.roundtrip")
    try:
        w = M.call(NetworkWriter.writeToCsv, net, path, sep, st["h"])
        if M.is_raised(w):
            if w.type in REJECTIONS:
                raise _Ood("writer rejects the configuration: " + w.type)
            return [_raised_mm(si, "NetworkWriter.writeToCsv", w)]
        nf = M.call(NetworkFormat, {"pos_edge_id": 0, "pos_source": 1, "pos_target": 2, "pos_direction": 3, "pos_wkt": 4,
                                    "separator": sep, "header": st["h"], "srid": st["srid"]})
        if M.is_raised(nf):
            return [_raised_mm(si, "NetworkFormat", nf)]
        r = M.call(NetworkReader.readFromFile, path, nf, False)
        if M.is_raised(r):
            return [_raised_mm(si, "NetworkReader.readFromFile", r, {"file_head": _file_head(path)})]
        t = M.call(_net_truth, r)
        if M.is_raised(t):
            return [_raised_mm(si, "reading back the network through the API", t)]
        mm = _net_diffs(si, t, e_exp, n_exp)
        if not mm and (len(e_exp) + len(n_exp) + si) % 2 == 0:
            # aliasing: the network read back belongs to the caller, who moves it in place (every vertex, every node);
            # reading the same, unchanged file again must give what the file says
            for e in r.EDGES.values():
                for o in e.geom.getObsList():
                    M.scribble(o.position)
            for nd in r.NODES.values():
                M.scribble(nd.coord)
            r2 = M.call(NetworkReader.readFromFile, path, nf, False)
            ctx.monitor("net.second_read_after_the_first_was_modified")
            if M.is_raised(r2):
                return [_raised_mm(si, "NetworkReader.readFromFile (second read of the same file)", r2)]
            t2 = M.call(_net_truth, r2)
            if M.is_raised(t2):
                return [_raised_mm(si, "reading back the network through the API (second read)", t2)]
            mm = _net_diffs(si, t2, e_exp, n_exp)
            for m in mm:
                m["tag"] = m["tag"] + "_on_second_read_after_the_first_network_was_moved_in_place"
        if not mm and (len(e_exp) + si) % 2 == 1 and st["srid"] == "ENU":
            # two networks used in turn: a second district whose nodes and edges carry the SAME identifiers at other
            # places is written and read in the same process, then the first file is read once more
            import copy as _copy
            st_b = _copy.deepcopy(st)
            st_b["nodes"] = {k: [v[0] * 0.5 + 1234.5, v[1] * 0.5 - 678.25] for k, v in st["nodes"].items()}
            for e in st_b["edges"]:
                e["inner"] = [[q[0] * 0.5 + 1234.5, q[1] * 0.5 - 678.25] for q in e["inner"]]
            net_b = _build_network(st_b)
            eb_exp, nb_exp = _net_truth(net_b)
            path_b = path + ".b.csv"
            try:
                wb = M.call(NetworkWriter.writeToCsv, net_b, path_b, sep, st["h"])
                rb = None if M.is_raised(wb) else M.call(NetworkReader.readFromFile, path_b, nf, False)
                ctx.monitor("net.two_networks_with_the_same_identifiers")
                if rb is not None and not M.is_raised(rb):
                    tb = M.call(_net_truth, rb)
                    if not M.is_raised(tb):
                        mm = _net_diffs(si, tb, eb_exp, nb_exp)
                        for m in mm:
                            m["tag"] += "_of_a_second_network_with_the_same_identifiers"
                    if not mm:
                        r3 = M.call(NetworkReader.readFromFile, path, nf, False)
                        t3 = None if M.is_raised(r3) else M.call(_net_truth, r3)
                        if t3 is not None and not M.is_raised(t3):
                            mm = _net_diffs(si, t3, e_exp, n_exp)
                            for m in mm:
                                m["tag"] += "_of_the_first_network_read_again_after_the_second"
            finally:
                _rm(path_b)
        if mm:
            mm[0]["file_head"] = _file_head(path)
        return mm
    finally:
        _rm(path)


def _net_diffs(si, t, e_exp, n_exp):
    if True:
        e_got, n_got = t
        mm = []
        if sorted(e_got) != sorted(e_exp):
            mm.append({"step": si, "tag": "edge_ids", "expected": sorted(e_exp), "got": sorted(e_got)})
        if sorted(n_got) != sorted(n_exp):
            mm.append({"step": si, "tag": "node_ids", "expected": sorted(n_exp), "got": sorted(n_got)})
        for nid in n_exp:
            if nid in n_got:
                if not (_close_rel(n_exp[nid][0], n_got[nid][0]) and _close_rel(n_exp[nid][1], n_got[nid][1])):
                    mm.append({"step": si, "tag": "node_position", "node": nid, "expected": n_exp[nid], "got": n_got[nid]})
        for eid in e_exp:
            if eid not in e_got:
                continue
            ee, gg = e_exp[eid], e_got[eid]
            if ee[0] != gg[0] or ee[1] != gg[1]:
                mm.append({"step": si, "tag": "end_nodes", "edge": eid, "expected": ee[:2], "got": gg[:2]})
            if ee[2] != gg[2]:
                mm.append({"step": si, "tag": "orientation", "edge": eid, "expected": ee[2], "got": gg[2]})
            if len(ee[3]) != len(gg[3]) or not all(_close_rel(a[0], b[0]) and _close_rel(a[1], b[1])
                                                   for a, b in zip(ee[3], gg[3])):
                mm.append({"step": si, "tag": "geometry", "edge": eid, "expected": ee[3], "got": gg[3]})
        return mm


def step_wkt(st, ctx, work, si):
    from tracklib.io.track_reader import TrackReader
    if st["srid"] not in ("ENU", "GEO"):
        raise _Ood("toWKT writes ENU and GEO only")
    track = gen.make_track(st["pts"], st["t_ms"], coord=st["srid"])
    exp = _truth(track)
    ctx.monitor("wkt.roundtrip")
    s = M.call(track.toWKT)
    if M.is_raised(s):
        return [_raised_mm(si, "toWKT", s)]
    r = M.call(TrackReader.parseWkt, s)
    if M.is_raised(r):
        return [_raised_mm(si, "parseWkt", r, {"text": str(s)[:400]})]
    got = _truth(r)
    if len(got) != len(exp):
        return [{"step": si, "tag": "count", "expected_count": len(exp), "got_count": len(got), "text": s[:400]}]
    mm = []
    for i, (e, g) in enumerate(zip(exp, got)):
        for j, f in enumerate("xy"):
            ctx.monitor("coord.within_written_precision")
            if not _close_rel(e[j], g[j]):
                mm.append({"step": si, "tag": "coord_" + f, "i": i, "expected": e[j], "got": g[j], "text": s[:400]})
    return mm


STEPS = {"csv": step_csv, "gpx": step_gpx, "net": step_net, "wkt": step_wkt}


# --------------------------------------------------------------------------
# work directory (never /tmp)
_HERE = os.path.dirname(os.path.dirname(os.path.dirname(os.path.abspath(__file__))))


def _workdir():
    w = os.environ.get("VT_WORK")
    if w and os.path.isdir(w):
        return w, False
    base = os.path.join(_HERE, ".work")
    os.makedirs(base, exist_ok=True)
    return tempfile.mkdtemp(prefix="C13-", dir=base), True


def _rm(path):
    try:
        os.remove(path)
    except OSError:
        pass


# --------------------------------------------------------------------------
# classes / non-triviality
def _value_classes(vals, cls):
    for v in vals:
        v = float(v)
        if v < 0:
            cls.add("val_negative")
        if abs(v) >= 1e8:
            cls.add("val_ge_1e8")
        if -0.0005 < v < 0 and v != 0:
            cls.add("val_tiny_negative")
        if v in TIES:
            cls.add("val_rounding_tie")
        if v == v and not math.isinf(v) and abs(v) < 1e15 and round(v, 6) != v:
            cls.add("val_many_decimals")


def _time_classes(t_ms, cls):
    for ms in t_ms:
        Y, Mo, D, h, mi, s, _ = gen.fields_from_ms(ms)
        if (h, mi, s) == (0, 0, 0):
            cls.add("ts_midnight")
        if D == calendar.monthrange(Y, Mo)[1]:
            cls.add("ts_month_end")
        if (Mo, D, h, mi, s) == (12, 31, 23, 59, 59):
            cls.add("ts_dec31_235959")
        if (Mo, D) == (2, 29):
            cls.add("ts_feb29")
        if ms % 1000:
            cls.add("ts_ms_nonzero")


def _classes(case):
    cls = set()
    hostile = False
    multi = False
    steps = case["steps"]
    if len(steps) > 1:
        cls.add("sequence")
        cls.add("sequence_len_%d" % len(steps))
    for st in steps:
        k = st["kind"]
        cls.add(k)
        if st.get("big") or any(d.get("big") for d in st.get("tracks", []) if isinstance(d, dict)):
            cls.add("track_of_500+_observations")
        if st.get("af"):
            cls.add("gpx_with_analytical_features")
        before = len(cls)
        if k == "csv":
            cls.add("srid_" + st["srid"])
            E, N, U, T = st["cols"]
            if U >= 0 and T >= 0:
                cls.add("cols_ENUT")
            elif U >= 0:
                cls.add("cols_ENU")
            elif T >= 0:
                cls.add("cols_ENT")
            else:
                cls.add("cols_EN")
            ident = [c for c in st["cols"] if c >= 0] == sorted(c for c in st["cols"] if c >= 0)
            if not ident:
                cls.add("perm_nonidentity")
            cls.add("sep_" + SEP_NAME.get(st["sep"], "other"))
            cls.add("header_%d" % st["h"])
            cls.add(st["wapi"])
            cls.add(st["rapi"])
            cls.add("tf_" + st["tf_mode"])
            vals = [v for p in st["pts"] for v in p]
            _value_classes(vals, cls)
            if T >= 0:
                _time_classes(st["t_ms"], cls)
            n = len(st["pts"])
            if n == 1:
                cls.add("single_fix")
            if n == 8:
                cls.add("eight_fixes")
            multi = multi or n >= 2
            hostile = hostile or (not ident) or st["sep"] != "," or st["h"] != 0
        elif k == "gpx":
            cls.add("gpx_" + st["srid"])
            if len(st["tracks"]) > 1:
                cls.add("gpx_multi_track")
            for d in st["tracks"]:
                _value_classes([v for p in d["pts"] for v in p], cls)
                _time_classes(d["t_ms"], cls)
                multi = multi or len(d["pts"]) >= 2
                if st["srid"] == "ENU" and any(p[2] != 0 for p in d["pts"]):
                    cls.add("gpx_ENU_nonzero_elevation")
        elif k == "net":
            cls.add("net_" + st["srid"])
            cls.add("net_header_%d" % st["h"])
            cls.add("net_sep_" + SEP_NAME.get(st["sep"], "other"))
            for e in st["edges"]:
                cls.add({1: "net_orient_direct", -1: "net_orient_inverse", 0: "net_orient_double"}[e["o"]])
                if e["inner"]:
                    cls.add("net_multi_vertex")
                if e["s"] == e["t"]:
                    cls.add("net_loop")
            multi = multi or len(st["edges"]) >= 2
            hostile = True
        elif k == "wkt":
            cls.add("wkt_" + st["srid"])
            for p in st["pts"]:
                for v in p[:2]:
                    if "e" in repr(float(v)) and not isinstance(v, int):
                        cls.add("wkt_exponent")
                    if isinstance(v, int):
                        cls.add("wkt_integer")
            _value_classes([v for p in st["pts"] for v in p[:2]], cls)
            multi = multi or len(st["pts"]) >= 2
        if len(cls) > before:
            pass
    hostile = hostile or any(c.startswith(("val_", "ts_", "wkt_exponent", "gpx_multi")) for c in cls)
    return sorted(cls), (multi and hostile)


# --------------------------------------------------------------------------
def run_case(case, ctx):
    from tracklib.core.obs_time import ObsTime
    cls, nontrivial = _classes(case)
    sig = json.dumps(case["steps"], sort_keys=True)
    work, own = _workdir()
    saved = (ObsTime.getReadFormat(), ObsTime.getPrintFormat())
    mism = []
    try:
        for si, st in enumerate(case["steps"]):
            fn = STEPS.get(st["kind"])
            if fn is None:
                raise M.HarnessError("unknown step kind %r" % st.get("kind"))
            try:
                mism.extend(fn(st, ctx, work, si))
            except _Ood as e:
                if not mism:
                    return ood(str(e), cls)
                break
    finally:
        ObsTime.setReadFormat(saved[0])
        ObsTime.setPrintFormat(saved[1])
        if own:
            shutil.rmtree(work, ignore_errors=True)
            try:
                os.rmdir(os.path.dirname(work))
            except OSError:
                pass
    if not mism:
        return held(sig, nontrivial, cls)
    first = mism[0]
    st0 = case["steps"][first["step"]]
    what = "%s round trip (step %d of %d): %s" % (st0["kind"], first["step"] + 1, len(case["steps"]), first["tag"])
    mech = [{"step": m["step"], "tag": m["tag"], "k": m.get("k", 0), "i": m.get("i", -1)} for m in mism]
    witness = {"what": what, "n_mismatches": len(mism), "mismatches": mism[:8], "mech": mech[:12000],
               "mech_truncated": len(mech) > 12000}
    return violated(witness, sig, nontrivial, cls)


# --------------------------------------------------------------------------
def classify(case, witness):
    """Known finding, keyed by the input mechanism:
    C13:gpx-enu-elevation -- GPX round trip read with srid ENU, the fix has a non-zero elevation, and the only thing
                             that differs in the whole case is the z coordinate of such fixes.
    Anything else (any other mismatch anywhere in the case) is not a known finding.
    (C13:csv-header-not-written -- header >= 1 never written, first observation dropped -- is fixed in the repository
    and therefore deliberately NOT suppressed here.)"""
    try:
        mech = witness.get("mech")
        if not mech or witness.get("mech_truncated"):
            return None
        for m in mech:
            st = case["steps"][m["step"]]
            if not (st["kind"] == "gpx" and st["srid"] == "ENU" and m["tag"] == "coord_z"):
                return None
            z = st["tracks"][m["k"]]["pts"][m["i"]][2]
            if float(z) == 0.0:
                return None
        return KF_GPX_ENU
    except Exception:
        return None
