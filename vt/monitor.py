"""Runtime-monitoring toolkit shared by every property module.

* Ctx            -- per-worker event sink: counters, monitor evaluation counts,
                    class counts, samples, warnings, exceptions.
* call()         -- run a tracklib call, converting *any* exception (tracklib
                    uses exit()) into a value the oracle can judge.
* ensure/require -- runtime contracts on the real functions (icontract when it
                    is installed, an equivalent built-in wrapper otherwise).
* patch_everywhere -- rebind a wrapped function in every module that imported
                    it by name before we decorated it.
* OutermostGuard -- pre/post snapshot around the *outermost* call of a set of
                    mutually recursive public mutators.
* capture_locals -- sys.settrace based frame-local capture (diagnostics only).
* feq / seq_eq   -- NaN-aware tolerant comparison helpers.
"""
from __future__ import annotations

import contextlib
import functools
import io
import math
import os
import sys
import traceback
import warnings

try:  # contracts library (installed by setup.sh into /verif/.deps)
    import icontract  # type: ignore
    CONTRACT_IMPL = "icontract-" + getattr(icontract, "__version__", "?")
except Exception:  # pragma: no cover - fallback path
    icontract = None
    CONTRACT_IMPL = "builtin"


class ContractBroken(AssertionError):
    """A runtime contract placed on a real tracklib function was violated."""

    def __init__(self, name="", detail=""):
        super().__init__("%s: %s" % (name, detail))
        self.name = name
        self.detail = detail
        # remembered even if tracklib swallows the exception (bare except)
        try:
            CTX.broken.append({"contract": name, "detail": str(detail)[:500]})
        except NameError:
            pass


class CaseTimeout(BaseException):
    """Raised by the per-case watchdog inside the main thread."""


class HarnessError(Exception):
    """The harness itself is inconsistent (never a verdict on tracklib)."""


# --------------------------------------------------------------------------
class Ctx:
    def __init__(self):
        self.counters = {}
        self.monitors = {}
        self.classes = {}
        self.exceptions = {}
        self.warnings = {}
        self.samples = {}
        self.ood = {}
        self.broken = []

    def count(self, name, n=1):
        self.counters[name] = self.counters.get(name, 0) + n

    def monitor(self, name, n=1):
        self.monitors[name] = self.monitors.get(name, 0) + n

    def cls(self, name, n=1):
        self.classes[name] = self.classes.get(name, 0) + n

    def out_of_domain(self, name, n=1):
        self.ood[name] = self.ood.get(name, 0) + n

    def exc(self, e):
        k = type(e).__name__
        self.exceptions[k] = self.exceptions.get(k, 0) + 1

    def sample(self, cls, case, limit=2):
        lst = self.samples.setdefault(cls, [])
        if len(lst) < limit:
            lst.append(case)

    def dump(self):
        return dict(counters=self.counters, monitors=self.monitors,
                    classes=self.classes, exceptions=self.exceptions,
                    warnings=self.warnings, samples=self.samples, ood=self.ood)


CTX = Ctx()  # one per worker process


# --------------------------------------------------------------------------
class Raised:
    """Outcome of a call that raised; carries the exception and traceback."""

    def __init__(self, exc, tb):
        self.exc = exc
        self.type = type(exc).__name__
        self.tb = tb

    def brief(self):
        return "%s: %s" % (self.type, str(self.exc)[:300])

    def __repr__(self):
        return "Raised(%s)" % self.brief()


DEFAULT_RECURSION_LIMIT = 1000


def short_tb(limit=6):
    et, ev, tb = sys.exc_info()
    lines = traceback.format_exception(et, ev, tb)
    return "".join(lines[-limit:])[-2500:]


def call(fn, *a, **k):
    """Run fn(*a, **k); return its value or a Raised.  The watchdog exception,
    KeyboardInterrupt and harness errors propagate.  The library runs under Python's DEFAULT recursion limit (the
    workers raise theirs for the harness's own oracles): a recursion that gets too deep for a user gets too deep
    here."""
    lim = sys.getrecursionlimit()
    if lim != DEFAULT_RECURSION_LIMIT:
        sys.setrecursionlimit(DEFAULT_RECURSION_LIMIT)
    try:
        return fn(*a, **k)
    except (CaseTimeout, KeyboardInterrupt, HarnessError):
        raise
    except BaseException as e:  # noqa - SystemExit from tracklib's exit()
        if lim != DEFAULT_RECURSION_LIMIT:
            sys.setrecursionlimit(lim)
        CTX.exc(e)
        return Raised(e, short_tb())
    finally:
        if lim != DEFAULT_RECURSION_LIMIT:
            sys.setrecursionlimit(lim)


def is_raised(v):
    return isinstance(v, Raised)


@contextlib.contextmanager
def quiet():
    """Swallow tracklib's prints / progress bars for the duration."""
    so, se = sys.stdout, sys.stderr
    sys.stdout = io.StringIO()
    sys.stderr = io.StringIO()
    try:
        yield
    finally:
        sys.stdout, sys.stderr = so, se


# --------------------------------------------------------------------------
# contracts
def _named(cond):
    return getattr(cond, "__name__", "cond")


def _builtin_ensure(cond, name):
    import inspect
    params = list(inspect.signature(cond).parameters)

    def deco(fn):
        sig = inspect.signature(fn)

        @functools.wraps(fn)
        def wrapper(*a, **k):
            result = fn(*a, **k)
            bound = sig.bind(*a, **k)
            bound.apply_defaults()
            kw = {}
            for p in params:
                if p == "result":
                    kw[p] = result
                elif p in bound.arguments:
                    kw[p] = bound.arguments[p]
            if not cond(**kw):
                raise ContractBroken(name, "postcondition")
            return result
        return wrapper
    return deco


def ensure(fn, cond, name=None):
    """Postcondition `cond` (a *named* function whose parameters are a subset
    of fn's parameters plus `result`) on the real function `fn`.  Every
    evaluation is counted under monitors[name]."""
    name = name or _named(cond)
    import inspect
    params = list(inspect.signature(cond).parameters)

    last = {}

    def counted(**kw):
        CTX.monitor(name)
        ok = cond(**kw)
        if not ok:
            try:
                last["detail"] = "postcondition false for " + repr(
                    {k: (vars(v) if hasattr(v, "__dict__") else v) for k, v in kw.items()})[:400]
            except Exception:
                last["detail"] = "postcondition false"
        return ok

    # give `counted` the same signature so that the contract library can bind it
    src = "def _c(%s):\n    return counted(%s)\n" % (
        ", ".join(params), ", ".join("%s=%s" % (p, p) for p in params))
    ns = {"counted": counted}
    exec(src, ns)
    c = ns["_c"]
    c.__name__ = name
    if icontract is not None:
        def _err():
            return ContractBroken(name, last.get("detail", "postcondition"))
        return icontract.ensure(c, error=_err)(fn)
    return _builtin_ensure(c, name)(fn)


def wrap_post(fn, post, name):
    """Generic post-hook: post(args, kwargs, result) -> None | str(problem).
    Used where the condition needs more than the argument names (pre-state,
    closures); counts evaluations like a contract."""
    @functools.wraps(fn)
    def wrapper(*a, **k):
        result = fn(*a, **k)
        CTX.monitor(name)
        problem = post(a, k, result)
        if problem:
            raise ContractBroken(name, problem)
        return result
    wrapper.__vt_wrapped__ = fn
    return wrapper


def wrap_prepost(fn, pre, post, name):
    """pre(args, kwargs) -> token ; post(token, args, kwargs, result) -> problem"""
    @functools.wraps(fn)
    def wrapper(*a, **k):
        tok = pre(a, k)
        result = fn(*a, **k)
        CTX.monitor(name)
        problem = post(tok, a, k, result)
        if problem:
            raise ContractBroken(name, problem)
        return result
    wrapper.__vt_wrapped__ = fn
    return wrapper


def patch_everywhere(old, new, prefix="tracklib"):
    """Rebind every module-level / class-level reference to `old` inside the
    loaded tracklib modules (covers `from m import f` made before decorating).
    Returns the number of bindings replaced."""
    n = 0
    for mname, mod in list(sys.modules.items()):
        if mod is None or not mname.startswith(prefix):
            continue
        for k, v in list(vars(mod).items()):
            if v is old:
                setattr(mod, k, new)
                n += 1
    return n


# --------------------------------------------------------------------------
class OutermostGuard:
    """Wrap a set of methods of a class so that `pre(self, method, args,
    kwargs)` runs when the outermost wrapped call on an object starts and
    `post(self, token, method, exc)` when it finishes -- the points at which a
    user can observe state."""

    def __init__(self, cls, method_names, pre, post, name):
        self.depth = {}
        self.originals = {}
        for m in method_names:
            orig = cls.__dict__.get(m)
            if orig is None:
                raise HarnessError("no method %s on %s" % (m, cls))
            self.originals[m] = orig
            setattr(cls, m, self._wrap(orig, m, pre, post, name))
        self.cls = cls

    def _wrap(self, orig, mname, pre, post, name):
        depth = self.depth

        @functools.wraps(orig)
        def wrapper(obj, *a, **k):
            key = id(obj)
            d = depth.get(key, 0)
            if d == 0:
                tok = pre(obj, mname, a, k)
            depth[key] = d + 1
            raised = None
            try:
                return orig(obj, *a, **k)
            except BaseException as e:
                raised = e
                raise
            finally:
                if d == 0:
                    depth.pop(key, None)
                    CTX.monitor(name)
                    problem = post(obj, tok, mname, raised)
                    if problem and raised is None:
                        raise ContractBroken(name, "%s after %s" % (problem, mname))
                    if problem and raised is not None:
                        # state damaged while raising: remember, the caller's
                        # model comparison reports it (neither icontract nor
                        # deal check state after a raise)
                        CTX.count("guard_problem_while_raising")
                else:
                    depth[key] = d
        return wrapper

    def undo(self):
        for m, orig in self.originals.items():
            setattr(self.cls, m, orig)


# --------------------------------------------------------------------------
@contextlib.contextmanager
def capture_locals(code_objects, names, sink):
    """Diagnostics only: copy the named locals of frames running one of
    `code_objects` at their 'return' event into sink (list of dicts)."""
    codes = set(code_objects)

    def tracer(frame, event, arg):
        if frame.f_code in codes:
            def local(frame, event, arg):
                if event == "return":
                    d = {}
                    for n in names:
                        if n in frame.f_locals:
                            d[n] = frame.f_locals[n]
                    sink.append(d)
                return local
            return local
        return None
    old = sys.gettrace()
    sys.settrace(tracer)
    try:
        yield sink
    finally:
        sys.settrace(old)


# --------------------------------------------------------------------------
def isnan(v):
    try:
        return v != v
    except Exception:
        return False


def feq(a, b, rel=1e-9, abs_=1e-12):
    """NaN == NaN, True == 1.0, tolerant float equality."""
    try:
        a = float(a)
        b = float(b)
    except (TypeError, ValueError):
        return a == b
    if a != a or b != b:
        return a != a and b != b
    if a == b:
        return True
    if math.isinf(a) or math.isinf(b):
        return False
    return abs(a - b) <= max(abs_, rel * max(abs(a), abs(b)))


def seq_eq(A, B, rel=1e-9, abs_=1e-12):
    if len(A) != len(B):
        return False
    return all(feq(x, y, rel, abs_) for x, y in zip(A, B))


def jsonable(v, depth=0):
    """Best-effort conversion of a witness to JSON-serialisable data."""
    if depth > 60:
        return repr(v)[:200]
    if isinstance(v, Raised):
        return {"raised": v.brief(), "traceback": v.tb}
    if isinstance(v, (str, int, bool)) or v is None:
        return v
    if isinstance(v, float):
        if v != v:
            return "NaN"
        if math.isinf(v):
            return "inf" if v > 0 else "-inf"
        return v
    if isinstance(v, dict):
        return {str(k): jsonable(x, depth + 1) for k, x in v.items()}
    if isinstance(v, (list, tuple, set, frozenset)):
        return [jsonable(x, depth + 1) for x in v]
    try:
        import numpy as np
        if isinstance(v, np.generic):
            return jsonable(v.item(), depth + 1)
        if isinstance(v, np.ndarray):
            return jsonable(v.tolist(), depth + 1)
    except Exception:
        pass
    return repr(v)[:300]


def install_warning_counter():
    def showwarning(message, category, filename, lineno, file=None, line=None):
        k = category.__name__
        CTX.warnings[k] = CTX.warnings.get(k, 0) + 1
    warnings.showwarning = showwarning
    warnings.simplefilter("default")
    # numpy RuntimeWarnings etc. are events, never verdicts


# ---------------------------------------------------------------------------
# the caller owns what a call returned
def scribble(obj, _depth=0):
    """Modify, in place and beyond recognition, an object that a library call RETURNED to the caller (or that the
    caller handed in and may reuse afterwards): the caller owns it and may do with it what it likes.  Whatever the
    library kept for itself must not depend on it.  Lists are emptied after their elements were scribbled on,
    dictionaries emptied, numpy arrays overwritten, coordinates moved, timestamps changed, tracks moved / re-timed /
    given a feature of the caller's own.  Returns the number of objects touched."""
    n = 0
    if obj is None or isinstance(obj, (str, bytes, int, float, bool, tuple, range)) or _depth > 3:
        return 0
    mod = type(obj).__module__
    name = type(obj).__name__
    try:
        if isinstance(obj, list):
            for x in list(obj)[:50]:
                n += scribble(x, _depth + 1)
            del obj[:]
            obj.append("scribbled-by-the-caller")
            return n + 1
        if isinstance(obj, dict):
            obj.clear()
            obj["scribbled-by-the-caller"] = -1
            return 1
        if isinstance(obj, set):
            obj.clear()
            return 1
        if mod == "numpy":
            try:
                obj[...] = -12345.678
                return 1
            except Exception:
                return 0
        if mod.startswith("tracklib"):
            if name == "ObsTime":
                obj.sec = (int(obj.sec) + 17) % 60
                obj.min = (int(obj.min) + 3) % 60
                obj.ms = (int(obj.ms) + 250) % 1000
                return 1
            if name in ("ENUCoords", "GeoCoords", "ECEFCoords"):
                for g, s_ in (("getX", "setX"), ("getY", "setY"), ("getZ", "setZ")):
                    getattr(obj, s_)(getattr(obj, g)() * 0.5 + 321.25)
                return 1
            if name == "Obs":
                n += scribble(obj.position, _depth + 1)
                n += scribble(obj.timestamp, _depth + 1)
                if isinstance(getattr(obj, "features", None), list) and _depth >= 1:
                    pass        # the values a track's observation carries are the track's business (see Track below)
                return n
            if name == "Track":
                for o in list(obj.getObsList())[:2000]:
                    n += scribble(o, _depth + 1)
                if obj.size() >= 1:
                    try:
                        obj.createAnalyticalFeature("__of_the_caller", 7.0)
                        n += 1
                    except Exception:
                        pass
                return n
            if name == "TrackCollection":
                for t in list(obj.getTracks())[:50]:
                    n += scribble(t, _depth + 1)
                return n
    except CaseTimeout:
        raise
    except Exception:
        return n
    return n
