"""Orchestration: fan a property's chunks out to worker subprocesses, aggregate
what the monitors observed, write evidence, decide the three-valued verdict.

  python -m vt.runner C07 [--tier quick|thorough] [--seed N] [--replay FILE] [--jobs N]
  python -m vt.runner --worker C07 <chunk.json> <out.json>      (internal)

exit 0 held / 1 violated (prints VIOLATION lines) / 2 inconclusive
"""
from __future__ import annotations

import argparse
import array
import hashlib
import importlib
import json
import os
import shutil
import signal
import subprocess
import sys
import time
import traceback

HERE = os.path.dirname(os.path.dirname(os.path.abspath(__file__)))
REPO = os.environ.get("VT_REPO", "/repo")
# runs against a scratch copy (mutant self-test) must not overwrite the
# evidence and replay files that describe /repo itself
SCRATCH = os.path.realpath(REPO) != "/repo"
OUT = os.path.join(HERE, ".work", "scratch-runs") if SCRATCH else HERE

MAX_VIOL_PER_CHUNK = 40
MAX_REPLAYS = 5


# --------------------------------------------------------------------------
def load_prop(pid):
    return importlib.import_module("vt.props." + pid)


def sig_hash(sig):
    if isinstance(sig, int):
        return sig & 0xFFFFFFFFFFFFFFFF
    h = hashlib.blake2b(repr(sig).encode(), digest_size=8).digest()
    return int.from_bytes(h, "little")


def load_known(pid):
    path = os.path.join(HERE, "known_findings.json")
    try:
        with open(path) as f:
            data = json.load(f)
    except FileNotFoundError:
        return {}
    return {e["id"]: e for e in data.get("findings", [])
            if e.get("property") == pid and e.get("status") == "open"}


# --------------------------------------------------------------------------
# worker
WATCHDOG_TIMER = signal.ITIMER_VIRTUAL


def _alarm(signum, frame):
    from vt.monitor import CaseTimeout
    raise CaseTimeout()


def run_one(mod, case, ctx, limit):
    """Run one case under the watchdog.  Returns a result dict."""
    from vt import monitor as M
    res = None
    if isinstance(case, dict) and case.get("limit_x"):
        limit = limit * float(case["limit_x"])          # larger-scale cases declare how much longer they may take
    # The watchdog counts the CPU time this process spends in user mode (ITIMER_VIRTUAL), not wall-clock time: a loop
    # that does not terminate burns it, a loaded machine does not.
    for attempt, lim in enumerate((limit, 3 * limit)):
        signal.setitimer(WATCHDOG_TIMER, lim)
        del ctx.broken[:]
        try:
            with M.quiet():
                res = mod.run_case(case, ctx)
            signal.setitimer(WATCHDOG_TIMER, 0)
            if ctx.broken and res["v"] == "held":
                # a contract fired but the exception was swallowed on the way
                res = {"v": "violated", "sig": res.get("sig"), "nt": res.get("nt", False),
                       "cls": res.get("cls", []),
                       "witness": {"contracts_broken": list(ctx.broken)}}
            return res
        except M.CaseTimeout:
            signal.setitimer(WATCHDOG_TIMER, 0)
            ctx.count("watchdog_fired")
            continue
        except M.ContractBroken as e:
            signal.setitimer(WATCHDOG_TIMER, 0)
            # a contract fired outside a judged call -> still a violation
            return {"v": "violated", "sig": None, "nt": False, "cls": [],
                    "witness": {"contract": e.name, "detail": e.detail,
                                "traceback": M.short_tb(8)}}
        except BaseException:
            signal.setitimer(WATCHDOG_TIMER, 0)
            raise
    hang_ok = getattr(mod, "HANG_IS_VIOLATION", True)
    if hang_ok:
        return {"v": "violated", "sig": None, "nt": False, "cls": ["hang"],
                "witness": {"hang": "call did not return within %.0f s of CPU time (3x the case limit)" % (3 * limit)}}
    return {"v": "inconclusive", "why": "watchdog"}


def apply_user_environment(chunk, ctx):
    """Every second chunk runs in the process of a user who has set up his environment: a local time zone that is not
    UTC, numpy asked to raise on floating-point underflow / invalid / overflow, warnings turned into errors, terse
    numpy print options, seeded random generators, another working directory.  These are settings a user may
    legitimately have made; the library's answers must not depend on them.  VT_ENV_PROFILE=0 switches this off,
    =1 applies it to every chunk."""
    mode = os.environ.get("VT_ENV_PROFILE", "auto")
    on = mode == "1" or (mode == "auto" and int(chunk.get("chunk_id", 0)) % 2 == 1)
    if not on:
        return False
    import random
    import tempfile
    import warnings
    import numpy as np
    os.environ["TZ"] = "CET-1CEST,M3.5.0,M10.5.0/3"
    time.tzset()
    np.seterr(divide="raise", invalid="raise", under="raise", over="ignore")   # (overflow: casting the documented
    # 1e300 sentinels to a single-precision cut-off overflows by construction)
    if os.environ.get("VT_ENV_WARNINGS", "error") == "error":
        warnings.simplefilter("error")
    np.set_printoptions(precision=2, threshold=4, suppress=True)
    random.seed(20240229)
    np.random.seed(20240229)
    try:
        os.chdir(tempfile.gettempdir())
    except OSError:
        pass
    ctx.count("chunk_run_in_a_user_configured_environment")
    return True


def run_again(again, ctx, limit):
    """Ask the objects of an EARLIER case again, after another case has used the library in between (two independent
    sets of objects used alternately in one process).  `again` is the callable that case returned under "again"; it
    judges its own answer and returns None or a witness dict."""
    from vt import monitor as M
    signal.setitimer(WATCHDOG_TIMER, 3 * limit)
    try:
        with M.quiet():
            w = again()
        signal.setitimer(WATCHDOG_TIMER, 0)
        return w
    except M.CaseTimeout:
        signal.setitimer(WATCHDOG_TIMER, 0)
        ctx.count("watchdog_fired_in_again")
        return None
    except M.ContractBroken as e:
        signal.setitimer(WATCHDOG_TIMER, 0)
        return {"contract": e.name, "detail": e.detail}
    except BaseException:
        signal.setitimer(WATCHDOG_TIMER, 0)
        raise


def worker_main(pid, chunk_path, out_path):
    import faulthandler
    faulthandler.enable()
    sys.setrecursionlimit(5000)
    from vt import monitor as M
    t0 = time.time()
    with open(chunk_path) as f:
        chunk = json.load(f)
    import tracklib
    root = os.path.realpath(REPO)
    if not os.path.realpath(tracklib.__file__).startswith(root + os.sep):
        print("tracklib imported from %s, not from %s" % (tracklib.__file__, root), file=sys.stderr)
        sys.exit(3)
    mod = load_prop(pid)
    ctx = M.CTX
    M.install_warning_counter()
    signal.signal(signal.SIGALRM, _alarm)
    signal.signal(signal.SIGVTALRM, _alarm)
    limit = float(getattr(mod, "CASE_LIMIT_S", 20.0))
    out = {"chunk": chunk, "n": 0, "held": 0, "ood": 0, "violated": 0,
           "nontrivial": 0, "violations": [], "known": {}, "harness_errors": [],
           "inconclusive": 0}
    sigs = array.array("Q")
    nt_sigs = array.array("Q")
    hangs = 0
    pending = None          # (earlier case, its "again" callable): asked again after the next case has run
    with M.quiet():
        if hasattr(mod, "setup"):
            mod.setup(ctx)
    user_env = apply_user_environment(chunk, ctx)
    try:
        for case in mod.cases(chunk):
            if hangs >= 3:
                # calls that do not return cost the full watchdog each: three confirmed hangs decide the chunk, the
                # rest of it is not run (reported, so that the run is not mistaken for a complete one)
                out["aborted_after_hangs"] = hangs
                ctx.count("chunk_cut_short_after_3_hangs")
                break
            out["n"] += 1
            try:
                res = run_one(mod, case, ctx, limit)
            except KeyboardInterrupt:
                raise
            except BaseException:
                et, ev, tb = sys.exc_info()
                if len(out["harness_errors"]) < 5:
                    out["harness_errors"].append(
                        {"case": M.jsonable(case),
                         "traceback": "".join(traceback.format_exception(et, ev, tb))[-3000:]})
                out["inconclusive"] += 1
                continue
            again = res.pop("again", None) if isinstance(res, dict) else None
            if pending is not None:
                first, ask = pending
                pending = None
                try:
                    w_again = run_again(ask, ctx, limit)
                except KeyboardInterrupt:
                    raise
                except BaseException:
                    w_again = None
                    ctx.count("again_raised_in_the_harness")
                ctx.monitor("earlier_objects.asked_again_after_another_case")
                if w_again:
                    out["violated"] += 1
                    w_again = dict(w_again)
                    w_again["history"] = ("the objects of an earlier case were asked again after another case had used the "
                                          "library in between (case = {'_pair': [earlier case, case in between]})")
                    if len(out["violations"]) < MAX_VIOL_PER_CHUNK:
                        out["violations"].append({"case": M.jsonable({"_pair": [first, case]}),
                                                  "witness": M.jsonable(w_again), "known": None,
                                                  "user_environment": user_env})
            if again is not None and res.get("v") == "held":
                pending = (case, again)
            v = res["v"]
            if v == "held":
                out["held"] += 1
            elif v == "ood":
                out["ood"] += 1
                ctx.out_of_domain(res.get("why", "ood"))
            elif v == "inconclusive":
                out["inconclusive"] += 1
                ctx.count("inconclusive:" + res.get("why", "?"))
            elif v == "violated":
                out["violated"] += 1
                if "hang" in (res.get("cls") or []):
                    hangs += 1
                kf = None
                if hasattr(mod, "classify"):
                    kf = mod.classify(case, res.get("witness", {}))
                if kf:
                    out["known"][kf] = out["known"].get(kf, 0) + 1
                rec = {"case": M.jsonable(case), "witness": M.jsonable(res.get("witness")),
                       "known": kf, "user_environment": user_env}
                nk = sum(1 for x in out["violations"] if x["known"] == kf)
                if nk < (3 if kf else MAX_VIOL_PER_CHUNK):
                    out["violations"].append(rec)
            else:
                raise M.HarnessError("bad verdict %r" % (v,))
            for c in res.get("cls", ()):
                ctx.cls(c)
                ctx.sample(c, case, 1)
            if v in ("held", "violated") and res.get("sig") is not None:
                h = sig_hash(res["sig"])
                sigs.append(h)
                if res.get("nt"):
                    nt_sigs.append(h)
                    ctx.sample("_nontrivial", case, 2)
                else:
                    ctx.sample("_trivial", case, 1)
    except BaseException:
        et, ev, tb = sys.exc_info()
        out["harness_errors"].append(
            {"case": "<generator>", "traceback": "".join(traceback.format_exception(et, ev, tb))[-3000:]})
        out["inconclusive"] += 1
    if hasattr(mod, "teardown"):
        try:
            extra = mod.teardown(ctx)
            if extra:
                out["extra"] = M.jsonable(extra)
        except Exception:
            pass
    out["ctx"] = M.jsonable(ctx.dump())
    out["contract_impl"] = M.CONTRACT_IMPL
    out["wall_s"] = time.time() - t0
    with open(out_path + ".sigs", "wb") as f:
        sigs.tofile(f)
    with open(out_path + ".ntsigs", "wb") as f:
        nt_sigs.tofile(f)
    with open(out_path + ".tmp", "w") as f:
        json.dump(out, f)
    os.replace(out_path + ".tmp", out_path)


# --------------------------------------------------------------------------
def repo_fingerprint():
    def git(*a):
        try:
            return subprocess.run(["git", "-C", REPO] + list(a), capture_output=True,
                                  text=True, timeout=60).stdout
        except Exception:
            return ""
    head = git("rev-parse", "HEAD").strip()
    diff = git("diff", "HEAD", "--", "tracklib")
    return {"root": REPO, "head": head,
            "tracklib_diff_sha": hashlib.sha1(diff.encode()).hexdigest()[:12] if diff else "clean"}


def merge_counts(dst, src):
    for k, v in src.items():
        dst[k] = dst.get(k, 0) + v


def run_property(pid, tier, seed, jobs, keep=False):
    t0 = time.time()
    mod = load_prop(pid)
    chunks = mod.chunks(tier, seed)
    for i, c in enumerate(chunks):
        c.setdefault("tier", tier)
        c.setdefault("seed", seed)
        c["chunk_id"] = i
    work = os.path.join(HERE, ".work", "%s-%s-%d-%d" % (pid, tier, seed, os.getpid()))
    shutil.rmtree(work, ignore_errors=True)
    os.makedirs(work, exist_ok=True)
    chunk_timeout = float(getattr(mod, "CHUNK_TIMEOUT_S", {"quick": 900, "thorough": 7200})[tier]
                          if isinstance(getattr(mod, "CHUNK_TIMEOUT_S", None), dict)
                          else {"quick": 900, "thorough": 7200}[tier])
    env = dict(os.environ)
    env["VT_WORK"] = work
    pending = list(enumerate(chunks))
    running = {}
    results = {}
    dead = []
    while pending or running:
        while pending and len(running) < jobs:
            i, c = pending.pop(0)
            cp = os.path.join(work, "chunk%d.json" % i)
            op = os.path.join(work, "out%d.json" % i)
            with open(cp, "w") as f:
                json.dump(c, f)
            errf = open(os.path.join(work, "err%d.txt" % i), "w")
            p = subprocess.Popen([sys.executable, "-W", "ignore", "-m", "vt.runner", "--worker", pid, cp, op],
                                 cwd=HERE, env=env, stdout=subprocess.DEVNULL, stderr=errf)
            running[i] = (p, time.time(), op, errf)
        time.sleep(0.05)
        for i in list(running):
            p, ts, op, errf = running[i]
            rc = p.poll()
            if rc is None:
                if time.time() - ts > chunk_timeout:
                    p.kill()
                    p.wait()
                    errf.close()
                    dead.append((i, "chunk watchdog (%.0f s)" % chunk_timeout))
                    del running[i]
                continue
            errf.close()
            del running[i]
            if rc != 0 or not os.path.exists(op):
                try:
                    err = open(os.path.join(work, "err%d.txt" % i)).read()[-1500:]
                except Exception:
                    err = ""
                dead.append((i, "worker exit %s: %s" % (rc, err)))
            else:
                results[i] = op

    agg = {"n": 0, "held": 0, "ood": 0, "violated": 0, "inconclusive": 0}
    ctxagg = {"counters": {}, "monitors": {}, "classes": {}, "exceptions": {}, "warnings": {}, "ood": {}}
    samples = {}
    violations = []
    known_hits = {}
    harness_errors = []
    all_sigs = set()
    nt_sigs = set()
    impl = None
    extras = []
    for i in sorted(results):
        with open(results[i]) as f:
            out = json.load(f)
        for k in agg:
            agg[k] += out.get(k, 0)
        for k in ctxagg:
            merge_counts(ctxagg[k], out["ctx"].get(k, {}))
        for cls, lst in out["ctx"].get("samples", {}).items():
            dst = samples.setdefault(cls, [])
            for s in lst:
                if len(dst) < 2:
                    dst.append(s)
        violations.extend(out["violations"])
        merge_counts(known_hits, out["known"])
        harness_errors.extend(out["harness_errors"])
        impl = out.get("contract_impl")
        if "extra" in out:
            extras.append(out["extra"])
        for name, dst in ((".sigs", all_sigs), (".ntsigs", nt_sigs)):
            a = array.array("Q")
            with open(results[i] + name, "rb") as f:
                data = f.read()
            a.frombytes(data)
            dst.update(a)
    if not keep:
        shutil.rmtree(work, ignore_errors=True)

    known = load_known(pid)
    new_viol = [v for v in violations if not (v["known"] and v["known"] in known)]
    n_known = sum(c for k, c in known_hits.items() if k in known)
    n_new = agg["violated"] - n_known

    # ---- verdict
    reasons = []
    if dead:
        reasons.append("workers died: " + "; ".join("chunk %d %s" % d for d in dead)[:600])
    if harness_errors:
        reasons.append("harness errors: %d" % len(harness_errors))
    if agg["inconclusive"]:
        reasons.append("%d inconclusive cases" % agg["inconclusive"])
    fl = mod.floors(tier) if hasattr(mod, "floors") else {}
    # contracts placed on PRIVATE helpers are diagnostics next to the API-level oracle: an implementation that no
    # longer calls the helper (a vectorised rewrite, say) must not make the run inconclusive -- the miss is reported
    soft = set(getattr(mod, "SOFT_MONITORS", ()))
    soft_missed = []
    for kind in ("classes", "monitors", "counters"):
        for k, need in fl.get(kind, {}).items():
            got = ctxagg[kind].get(k, 0)
            if got < need:
                if kind == "monitors" and k in soft:
                    soft_missed.append("%s=%d < %d" % (k, got, need))
                    continue
                reasons.append("floor %s[%s]=%d < %d" % (kind, k, got, need))
    if len(nt_sigs) < max(2, fl.get("distinct_nontrivial", 2)):
        reasons.append("distinct non-trivial cases %d below floor" % len(nt_sigs))

    if n_new > 0:
        verdict = "violated"
    elif reasons:
        verdict = "inconclusive"
    else:
        verdict = "held"

    # ---- evidence
    flat_samples = []
    for cls in sorted(samples):
        for s in samples[cls]:
            if len(flat_samples) < 24:
                flat_samples.append({"class": cls, "case": s})
    exhaustive = getattr(mod, "EXHAUSTIVE", {}).get(tier)
    ev = {
        "property_id": pid, "tier": tier, "seed": seed, "level": "exploration",
        "coverage": {
            "evaluations": agg["n"],
            "judged": agg["held"] + agg["violated"],
            "distinct_cases": len(all_sigs),
            "distinct_nontrivial": len(nt_sigs),
            "rule": mod.RULE,
            "samples": flat_samples,
            "exhaustive": bool(exhaustive),
            "exhaustive_part": exhaustive or "",
            "monitors": ctxagg["monitors"],
            "classes": ctxagg["classes"],
            "counters": ctxagg["counters"],
            "out_of_domain": ctxagg["ood"],
            "exceptions_seen": ctxagg["exceptions"],
            "warnings_seen": ctxagg["warnings"],
            "known_findings_hit": {k: c for k, c in known_hits.items() if k in known},
            "contract_impl": impl,
            "repo": repo_fingerprint(),
            "chunks": len(chunks),
            "verdict": verdict,
            "inconclusive_reasons": reasons,
            "internal_helper_monitors_not_reached": soft_missed,
            "extras": extras[:4],
        },
        "assumptions": getattr(mod, "ASSUMPTIONS", []),
        "wall_s": round(time.time() - t0, 2),
        "violations": n_new,
    }
    os.makedirs(os.path.join(OUT, "evidence"), exist_ok=True)
    evp = os.path.join(OUT, "evidence", pid + ".json")
    with open(evp + ".tmp", "w") as f:
        json.dump(ev, f, indent=1)
    os.replace(evp + ".tmp", evp)

    # ---- report
    print("%s tier=%s seed=%d: %d cases (%d judged, %d out-of-domain), %d distinct, %d distinct non-trivial, "
          "monitors=%s, %.1fs" % (pid, tier, seed, agg["n"], agg["held"] + agg["violated"], agg["ood"],
                                  len(all_sigs), len(nt_sigs),
                                  json.dumps(ctxagg["monitors"], sort_keys=True), time.time() - t0))
    if soft_missed:
        print("note: contracts on private helpers below their usual evaluation count (the implementation may not call "
              "them any more; the API-level oracle decides): " + "; ".join(soft_missed))
    for kid, e in sorted(known.items()):
        print("KNOWN-FINDING: property=%s %s [%s; observed %d time(s) in this run]"
              % (pid, e["what"], kid, known_hits.get(kid, 0)))
    if verdict == "violated":
        os.makedirs(os.path.join(OUT, "replays"), exist_ok=True)
        for n, v in enumerate(new_viol[:MAX_REPLAYS]):
            rp = os.path.join(OUT, "replays", "%s-%s-%d-%d.json" % (pid, tier, seed, n))
            with open(rp, "w") as f:
                json.dump({"property": pid, "tier": tier, "seed": seed, "case": v["case"],
                           "witness": v["witness"], "classified": v["known"],
                           "user_environment": bool(v.get("user_environment"))}, f, indent=1)
            print("VIOLATION property=%s replay=%s" % (pid, rp))
            w = json.dumps(v["witness"])
            print("  witness: " + (w[:700] + (" ..." if len(w) > 700 else "")))
        print("%s: %d violating case(s) not covered by known_findings.json" % (pid, n_new))
        return 1
    if verdict == "inconclusive":
        print("INCONCLUSIVE property=%s reason=%s" % (pid, " | ".join(reasons)))
        for h in harness_errors[:2]:
            print(h["traceback"])
        return 2
    print("HELD property=%s on everything explored" % pid)
    return 0


def replay(pid, path):
    from vt import monitor as M
    mod = load_prop(pid)
    with open(path) as f:
        data = json.load(f)
    case = data["case"]
    if hasattr(mod, "decode_case"):
        case = mod.decode_case(case)
    M.install_warning_counter()
    signal.signal(signal.SIGALRM, _alarm)
    signal.signal(signal.SIGVTALRM, _alarm)
    with M.quiet():
        if hasattr(mod, "setup"):
            mod.setup(M.CTX)
    lim = float(getattr(mod, "CASE_LIMIT_S", 20.0))
    if data.get("user_environment"):
        os.environ["VT_ENV_PROFILE"] = "1"
        apply_user_environment({}, M.CTX)
    if isinstance(case, dict) and "_pair" in case:
        first, between = case["_pair"]
        res = run_one(mod, first, M.CTX, lim)
        ask = res.pop("again", None) if isinstance(res, dict) else None
        if res.get("v") == "held" and ask is not None:
            run_one(mod, between, M.CTX, lim)
            w = run_again(ask, M.CTX, lim)
            if w:
                res = {"v": "violated", "witness": w}
        case = first
    else:
        res = run_one(mod, case, M.CTX, lim)
        if isinstance(res, dict):
            res.pop("again", None)
    print(json.dumps(M.jsonable(res), indent=1)[:6000])
    if res["v"] == "violated":
        kf = mod.classify(case, res.get("witness", {})) if hasattr(mod, "classify") else None
        if kf and kf in load_known(pid):
            print("KNOWN-FINDING: property=%s %s" % (pid, load_known(pid)[kf]["what"]))
            return 0
        print("VIOLATION property=%s replay=%s" % (pid, os.path.abspath(path)))
        return 1
    return 0


def main(argv=None):
    argv = sys.argv[1:] if argv is None else argv
    if argv and argv[0] == "--worker":
        worker_main(argv[1], argv[2], argv[3])
        return 0
    ap = argparse.ArgumentParser()
    ap.add_argument("prop")
    ap.add_argument("--tier", default=os.environ.get("VERIF_TIER", "quick"))
    ap.add_argument("--seed", type=int, default=int(os.environ.get("VERIF_SEED", "0") or 0))
    ap.add_argument("--replay")
    ap.add_argument("--jobs", type=int, default=int(os.environ.get("VT_JOBS", "16")))
    ap.add_argument("--keep", action="store_true")
    a = ap.parse_args(argv)
    if a.tier not in ("quick", "thorough"):
        a.tier = "quick"
    if a.replay:
        return replay(a.prop, a.replay)
    return run_property(a.prop, a.tier, a.seed, a.jobs, a.keep)


if __name__ == "__main__":
    sys.exit(main())
