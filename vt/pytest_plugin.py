"""pytest plugin: runs the repository's own test suite with the runtime
contracts of the property modules switched on (DESIGN.md section 5, rule 5).

  PYTHONPATH=/verif:/verif/.deps:/repo /venv/bin/python -m pytest -p vt.pytest_plugin ...   (see tools/suite_with_contracts.sh)

A contract that fires here is either too strict or a defect the tests do not
assert; the report lists every firing with its contract name.
"""
import importlib
import json
import os

from vt import monitor as M

PROPS = os.environ.get("VT_CONTRACT_PROPS", "C01 C03 C04 C06 C08 C11 C13 C16 C17 C19").split()
FIRED = []


def pytest_configure(config):
    installed = []
    for pid in PROPS:
        try:
            mod = importlib.import_module("vt.props." + pid)
            if hasattr(mod, "setup"):
                mod.setup(M.CTX)
                installed.append(pid)
        except Exception as e:  # pragma: no cover
            print("vt plugin: could not install contracts of %s: %r" % (pid, e))
    config._vt_installed = installed


def pytest_runtest_setup(item):
    del M.CTX.broken[:]


def pytest_runtest_teardown(item):
    for b in M.CTX.broken:
        FIRED.append({"test": item.nodeid, "contract": b["contract"], "detail": b["detail"][:300]})
    del M.CTX.broken[:]


def pytest_sessionfinish(session, exitstatus):
    out = {"installed": getattr(session.config, "_vt_installed", []), "monitor_evaluations": M.CTX.monitors,
           "contracts_fired": FIRED}
    path = os.environ.get("VT_CONTRACT_REPORT", "contracts_report.json")
    with open(path, "w") as f:
        json.dump(out, f, indent=1)
    print("\nvt contracts: installed %s; evaluations %s; fired %d" % (out["installed"], json.dumps(M.CTX.monitors), len(FIRED)))
    for x in FIRED[:20]:
        print("  FIRED", x["contract"], "in", x["test"], "--", x["detail"][:160])
