"""Seeded generators and small helpers shared by the property modules."""
from __future__ import annotations

import calendar
import datetime
import random


def rng_for(prop, chunk):
    """Deterministic PRNG for one chunk: depends on property, tier, seed and
    the chunk's own key."""
    key = "%s:%s:%s:%s" % (prop, chunk.get("tier"), chunk.get("seed"), chunk.get("key", chunk.get("chunk_id")))
    return random.Random(key)


# result constructors ------------------------------------------------------
def held(sig, nontrivial=True, cls=()):
    return {"v": "held", "sig": sig, "nt": bool(nontrivial), "cls": list(cls)}


def violated(witness, sig=None, nontrivial=True, cls=()):
    return {"v": "violated", "sig": sig, "nt": bool(nontrivial), "cls": list(cls), "witness": witness}


def ood(why, cls=()):
    return {"v": "ood", "why": why, "cls": list(cls)}


# time ---------------------------------------------------------------------
EPOCH = datetime.datetime(1970, 1, 1)


def fields_from_ms(ms_total):
    """(Y, M, D, h, m, s, ms) of an integer number of milliseconds since the
    epoch, by the standard library (independent of tracklib)."""
    sec, ms = divmod(int(ms_total), 1000)
    d = EPOCH + datetime.timedelta(seconds=sec)
    return (d.year, d.month, d.day, d.hour, d.minute, d.second, ms)


def ms_from_fields(Y, M, D, h=0, m=0, s=0, ms=0):
    return calendar.timegm((Y, M, D, h, m, s)) * 1000 + ms


def obstime_from_ms(ms_total):
    from tracklib.core.obs_time import ObsTime
    return ObsTime(*fields_from_ms(ms_total))


def obstime_fields(t):
    return (t.year, t.month, t.day, t.hour, t.min, t.sec, t.ms)


def obstime_to_ms(t):
    """Epoch milliseconds denoted by an ObsTime's *fields*, by the standard
    library (valid only for well-formed fields)."""
    return ms_from_fields(t.year, t.month, t.day, t.hour, t.min, t.sec, int(round(t.ms)))


def make_track(points, times_ms=None, t0_ms=0, step_ms=1000, coord="ENU"):
    """Track from [(x,y,z)] and integer epoch-millisecond instants."""
    from tracklib.core.obs_coords import ENUCoords, GeoCoords, ECEFCoords
    from tracklib.core.obs import Obs
    from tracklib.core.track import Track
    C = {"ENU": ENUCoords, "GEO": GeoCoords, "ECEF": ECEFCoords}[coord]
    tr = Track()
    for i, p in enumerate(points):
        x, y = p[0], p[1]
        z = p[2] if len(p) > 2 else 0.0
        ms = times_ms[i] if times_ms is not None else t0_ms + i * step_ms
        tr.addObs(Obs(C(x, y, z), obstime_from_ms(ms)))
    return tr


def shard(iterable, k, n):
    for i, x in enumerate(iterable):
        if i % n == k:
            yield x
