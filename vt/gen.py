"""Seeded generators and small helpers shared by the property modules."""
from __future__ import annotations

import calendar
import datetime
import random


def rng_for(prop, chunk):
    """Deterministic PRNG for one chunk: depends on property, tier, seed and
    the chunk's own key."""
    key = "%s:%s:%s:%s" % (prop, chunk.get("tier"), chunk.get("seed"), chunk.get("key", chunk.get("chunk_id")))
    return random.Random(key)


# result constructors ------------------------------------------------------
def held(sig, nontrivial=True, cls=()):
    return {"v": "held", "sig": sig, "nt": bool(nontrivial), "cls": list(cls)}


def violated(witness, sig=None, nontrivial=True, cls=()):
    return {"v": "violated", "sig": sig, "nt": bool(nontrivial), "cls": list(cls), "witness": witness}


def ood(why, cls=()):
    return {"v": "ood", "why": why, "cls": list(cls)}


# time ---------------------------------------------------------------------
EPOCH = datetime.datetime(1970, 1, 1)


def fields_from_ms(ms_total):
    """(Y, M, D, h, m, s, ms) of an integer number of milliseconds since the
    epoch, by the standard library (independent of tracklib)."""
    sec, ms = divmod(int(ms_total), 1000)
    d = EPOCH + datetime.timedelta(seconds=sec)
    return (d.year, d.month, d.day, d.hour, d.minute, d.second, ms)


def ms_from_fields(Y, M, D, h=0, m=0, s=0, ms=0):
    return calendar.timegm((Y, M, D, h, m, s)) * 1000 + ms


def obstime_from_ms(ms_total):
    from tracklib.core.obs_time import ObsTime
    return ObsTime(*fields_from_ms(ms_total))


def obstime_fields(t):
    return (t.year, t.month, t.day, t.hour, t.min, t.sec, t.ms)


def obstime_to_ms(t):
    """Epoch milliseconds denoted by an ObsTime's *fields*, by the standard
    library (valid only for well-formed fields)."""
    return ms_from_fields(t.year, t.month, t.day, t.hour, t.min, t.sec, int(round(t.ms)))


def make_track(points, times_ms=None, t0_ms=0, step_ms=1000, coord="ENU"):
    """Track from [(x,y,z)] and integer epoch-millisecond instants."""
    from tracklib.core.obs_coords import ENUCoords, GeoCoords, ECEFCoords
    from tracklib.core.obs import Obs
    from tracklib.core.track import Track
    C = {"ENU": ENUCoords, "GEO": GeoCoords, "ECEF": ECEFCoords}[coord]
    tr = Track()
    for i, p in enumerate(points):
        x, y = p[0], p[1]
        z = p[2] if len(p) > 2 else 0.0
        ms = times_ms[i] if times_ms is not None else t0_ms + i * step_ms
        tr.addObs(Obs(C(x, y, z), obstime_from_ms(ms)))
    return tr


def shard(iterable, k, n):
    for i, x in enumerate(iterable):
        if i % n == k:
            yield x


# derived objects ------------------------------------------------------------
DERIVE_HOWS = ["copy", "extract", "slice", "mod1", "concat", "gt0", "lt0", "reverse_twice"]
# "hidden_slots" is opt-in (allow=...): the track itself is returned after one of its extracts was given a feature of
# its own -- extraction shares the observation objects, so the first observations of the track now carry one value
# more than the track's feature table lists.  Its listed features and all its values are unchanged.


def derive(track, key, allow=None):
    """An equal-valued track obtained from `track` through another public operation of the library (a copy, a full
    extract or slice, a decimation by 1, a concatenation of two parts, a trimming by 0, two reversals).  The result
    holds the same observations (values, order) and the same feature table; it may share the observation objects
    with `track`, which the caller then drops.  `key` (any hashable / repr-able) picks the operation
    deterministically.  Returns (derived, how); (track, "none") for tracks of fewer than 2 observations."""
    import hashlib
    n = track.size()
    hows = list(allow or DERIVE_HOWS)
    if n < 2:
        return track, "none"
    h = int.from_bytes(hashlib.blake2b(repr(key).encode(), digest_size=4).digest(), "little")
    how = hows[h % len(hows)]
    if how == "copy":
        d = track.copy()
    elif how == "extract":
        d = track.extract(0, n - 1)
    elif how == "slice":
        d = track[0:n]
    elif how == "mod1":
        d = track % 1
    elif how == "concat":
        k = 1 + (h // 7) % (n - 1)
        d = track.extract(0, k - 1) + track.extract(k, n - 1)
    elif how == "gt0":
        d = track > 0
    elif how == "lt0":
        d = track < 0
    elif how == "hidden_slots":
        child = track.extract(0, max(0, n // 2))
        child.createAnalyticalFeature("__of_the_extract_only", 12345.0)
        d = track
    else:
        d = track.reverse().reverse()
    if d is None or d.size() != n:
        raise RuntimeError("derive(%s) did not give back the %d observations" % (how, n))
    try:
        from vt import monitor as _M
        _M.CTX.count("input_is_a_derived_object:" + how)
    except Exception:
        pass
    return d, how


# less usual feature names ----------------------------------------------------
class NameProxy:
    """Forwards to a Track, spelling the logical feature names (keys of nm) as the case's real names in every argument (names,
    (name, i) keys, expression texts) and spelling listed names back."""

    def __init__(self, tr, nm):
        import re
        object.__setattr__(self, "_tr", tr)
        object.__setattr__(self, "_nm", dict(nm))
        object.__setattr__(self, "_inv", {v: k for k, v in nm.items()})
        object.__setattr__(self, "_re", re.compile(r"\b(" + "|".join(sorted(map(re.escape, nm), key=len, reverse=True)) + r")\b"))

    def _n(self, x):
        if isinstance(x, str):
            if x in self._nm:
                return self._nm[x]
            return self._re.sub(lambda m: self._nm[m.group(1)], x)
        return x

    def _key(self, key):
        if isinstance(key, tuple):
            return tuple(self._n(k) for k in key)
        return self._n(key)

    def __getattr__(self, name):
        return getattr(self._tr, name)

    def createAnalyticalFeature(self, name, *a):
        return self._tr.createAnalyticalFeature(self._n(name), *a)

    def removeAnalyticalFeature(self, name):
        return self._tr.removeAnalyticalFeature(self._n(name))

    def updateAnalyticalFeature(self, name, *a):
        return self._tr.updateAnalyticalFeature(self._n(name), *a)

    def addAnalyticalFeature(self, f, name=None):
        return self._tr.addAnalyticalFeature(f, self._n(name))

    def getAnalyticalFeature(self, name):
        return self._tr.getAnalyticalFeature(self._n(name))

    def getListAnalyticalFeatures(self):
        return [self._inv.get(x, x) for x in self._tr.getListAnalyticalFeatures()]

    def operate(self, op, *a):
        if isinstance(op, str):
            return self._tr.operate(self._n(op), *a)
        return self._tr.operate(op, *[self._n(x) for x in a])

    def __getitem__(self, key):
        return self._tr[self._key(key)]

    def __setitem__(self, key, v):
        self._tr[self._key(key)] = v

    def extractSpanTime(self, *a):
        r = self._tr.extractSpanTime(*a)
        return NameProxy(r, self._nm) if r is not None else r

    def size(self):
        return self._tr.size()

    def real_env(self, env):
        """The same name -> values mapping keyed by the real names."""
        return {self._nm.get(k, k): v for k, v in env.items()}

    def getObsList(self):
        return self._tr.getObsList()
