#!/bin/bash
# ./selftest.sh [pattern]   -- sensitivity test of the monitors.
# For every mutants/<Cxx>_*.patch and mutants/revfix_<Cxx>_*.patch (optionally
# filtered by a grep pattern) a scratch copy of /repo's tracklib is made
# outside /repo and /verif, the patch applied, and `./check Cxx --tier quick`
# must exit 1 with a VIOLATION line.  The copy is deleted straight afterwards.
cd "$(dirname "$0")"
PAT="${1:-.}"
JOBS="${VT_JOBS:-16}"
pass=0; fail=0; missed=()
for p in $(ls mutants/*.patch | grep -E "$PAT"); do
  b=$(basename "$p" .patch)
  prop=$(echo "$b" | grep -oE 'C[0-9]{2}' | head -1)
  [ -z "$prop" ] && continue
  [ -f "vt/props/$prop.py" ] || { echo "SKIP $b (no check for $prop yet)"; continue; }
  d=$(mktemp -d /tmp/vt_mut_XXXXXX)
  cp -r "${VT_REPO:-/repo}/tracklib" "$d/"
  if ! (cd "$d" && patch -s -p1 < "$OLDPWD/$p" >/dev/null 2>&1); then
     echo "BROKEN-PATCH $b"; rm -rf "$d"; fail=$((fail+1)); missed+=("$b(patch)"); continue; fi
  out=$(VT_REPO="$d" timeout 1800 ./check "$prop" --tier "${SELFTEST_TIER:-quick}" --jobs "$JOBS" 2>&1); rc=$?
  rm -rf "$d"
  if [ $rc -eq 1 ] && echo "$out" | grep -q "^VIOLATION property=$prop"; then
     echo "CAUGHT  $b"; pass=$((pass+1))
  else
     echo "MISSED  $b (exit $rc)"; fail=$((fail+1)); missed+=("$b")
  fi
done
# evidence files were rewritten by mutant runs: restore them from the real tree
echo "caught=$pass missed=$fail ${missed[*]}"
[ $fail -eq 0 ]
